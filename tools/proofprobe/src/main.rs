//! proofprobe <head_bytes> <tail_bytes> <stride>
//! Bounded check of C02 on corrupted proof bytes: a real proof of a tiny program is produced with
//! /repo's prover, then every single-bit flip in the first <head_bytes> and last <tail_bytes> bytes,
//! bit 0 of every <stride>-th byte in between, and truncations at several lengths are presented to
//! `ExecutionProof::from_bytes` + `verify` under catch_unwind.  Required: never a panic, never
//! acceptance.  Prints `FAIL kind=<panic|accepted> offset=<n> bit=<b> <detail>` lines (first 40),
//! a SUMMARY line, exit 1 on any failure.
use miden_vm::{prove, verify, Assembler, DefaultHost, ExecutionProof, ProgramInfo, ProvingOptions, StackInputs};
use std::panic;

fn main() {
    let a: Vec<usize> = std::env::args().skip(1).map(|s| s.parse().unwrap()).collect();
    let (head, tail, stride) = (a[0], a[1], a[2].max(1));
    let program = Assembler::default().compile("begin push.3 push.4 add drop end").unwrap();
    let inputs = StackInputs::default();
    let (outputs, proof) = prove(&program, inputs.clone(), DefaultHost::default(), ProvingOptions::default()).unwrap();
    let info: ProgramInfo = program.into();
    let bytes = proof.to_bytes();
    let n = bytes.len();
    // sanity: the unaltered proof verifies
    let ok = verify(info.clone(), inputs.clone(), outputs.clone(), ExecutionProof::from_bytes(&bytes).unwrap()).is_ok();
    if !ok {
        println!("SUMMARY baseline proof does not verify");
        std::process::exit(2);
    }
    panic::set_hook(Box::new(|_| {}));
    let (mut total, mut fails) = (0u64, 0u64);
    let mut present = |b: Vec<u8>, off: usize, bit: i32| {
        total += 1;
        let (i2, in2, out2) = (info.clone(), inputs.clone(), outputs.clone());
        let r = panic::catch_unwind(move || match ExecutionProof::from_bytes(&b) {
            Err(_) => false,
            Ok(p) => verify(i2, in2, out2, p).is_ok(),
        });
        let what = match r {
            Err(e) => Some(format!("kind=panic offset={off} bit={bit} {}", e.downcast_ref::<String>().cloned().or_else(|| e.downcast_ref::<&str>().map(|s| s.to_string())).unwrap_or_default())),
            Ok(true) => Some(format!("kind=accepted offset={off} bit={bit} altered proof verified")),
            Ok(false) => None,
        };
        if let Some(w) = what {
            fails += 1;
            if fails <= 40 { println!("FAIL {w}"); }
        }
    };
    for off in 0..n {
        let full = off < head || off + tail >= n;
        if !full && off % stride != 0 { continue; }
        for bit in 0..(if full { 8 } else { 1 }) {
            let mut b = bytes.clone();
            b[off] ^= 1 << bit;
            present(b, off, bit);
        }
    }
    for cut in [0usize, 1, 2, 5, 17, 64, n / 2, n - 9, n - 1] {
        if cut < n { present(bytes[..cut].to_vec(), cut, -1); }
    }
    // bytes appended after a complete proof (offset = n + number of appended bytes, bit = -2)
    for (k, fill) in [(1usize, 0x00u8), (1, 0xff), (8, 0x01), (64, 0x00)] {
        let mut b = bytes.clone();
        b.extend(std::iter::repeat(fill).take(k));
        present(b, n + k, -2);
    }
    println!("SUMMARY proof_len={n} presentations={total} failures={fails}");
    std::process::exit(if fails > 0 { 1 } else { 0 });
}
