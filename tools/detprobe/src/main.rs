//! detprobe: bounded stand-in `determinism_full` for C14 (adapted from the demo written by the independent mutation
//! sub-agent for C14: re-run / capacity-hint / tracing / debug-assembly / decorator-stripping comparisons of the full
//! main trace, and the step iterator (ctx, fmp, top 16, memory) forward, backward and zig-zag against the trace and a
//! replay of the memory chiplet rows; the overflow-part deviations of the unchanged code (F19) are reported as NOTE by
//! the demo and stay with unit step_iterator; machine-readable FAILCASE / SUMMARY lines added).
//! C14 demonstration: execution is deterministic and the step iterator agrees with the trace.
//!
//! For a family of programs this checks
//!  (1) re-running gives identical outputs and identical main traces;
//!  (2) outputs and main trace are identical for every expected-cycles hint (64 .. beyond the
//!      program length) with tracing on and off;
//!  (3) debug-mode / release-mode assembly and the decorator-free source give the same outputs,
//!      cycle count and main trace;
//!  (4) VmStateIterator reports at every clock the stack (top 16), fmp, ctx and memory the trace /
//!      a replay of the memory chiplet rows holds at that row - forward, backward and zig-zag;
//!  (5) clk pushes the clock value of its row.
//!
//! The overflow part of the stack reported by the iterator (items below the top 16) is compared
//! against a replay as well, but it is reported separately: the unchanged code base already
//! reports the overflow table one step ahead (pinned by miden/tests/integration/exec_iters.rs).

use std::collections::BTreeMap;
use std::panic::{catch_unwind, AssertUnwindSafe};

use miden_air::trace::{
    chiplets::{MEMORY_ADDR_COL_IDX, MEMORY_CLK_COL_IDX, MEMORY_CTX_COL_IDX, MEMORY_V_COL_RANGE},
    CHIPLETS_OFFSET, CLK_COL_IDX, CTX_COL_IDX, DECODER_TRACE_OFFSET, FMP_COL_IDX,
    IN_SYSCALL_COL_IDX, STACK_TRACE_OFFSET,
};
use miden_assembly::Assembler;
use miden_core::{Felt, Operation, Program, StackInputs, StackOutputs, Word};
use miden_processor::{
    AdviceExtractor, AdviceInjector, AdviceInputs, AdviceProvider, ExecutionError,
    ExecutionOptions, ExecutionTrace, Host, HostResponse, MemAdviceProvider, ProcessState,
    VmState, VmStateIterator,
};
use winter_prover::Trace;

// QUIET HOST
// ================================================================================================

/// Same behaviour as DefaultHost<MemAdviceProvider>, but the debug / trace / event handlers only
/// count their invocations instead of printing.
struct QuietHost {
    adv: MemAdviceProvider,
    events: usize,
    traces: usize,
    debugs: usize,
}

impl QuietHost {
    fn new(advice: &[u64]) -> Self {
        let inputs = AdviceInputs::default().with_stack_values(advice.iter().copied()).unwrap();
        Self {
            adv: MemAdviceProvider::from(inputs),
            events: 0,
            traces: 0,
            debugs: 0,
        }
    }
}

impl Host for QuietHost {
    fn get_advice<S: ProcessState>(
        &mut self,
        process: &S,
        extractor: AdviceExtractor,
    ) -> Result<HostResponse, ExecutionError> {
        self.adv.get_advice(process, &extractor)
    }

    fn set_advice<S: ProcessState>(
        &mut self,
        process: &S,
        injector: AdviceInjector,
    ) -> Result<HostResponse, ExecutionError> {
        self.adv.set_advice(process, &injector)
    }

    fn on_event<S: ProcessState>(
        &mut self,
        _process: &S,
        _event_id: u32,
    ) -> Result<HostResponse, ExecutionError> {
        self.events += 1;
        Ok(HostResponse::None)
    }

    fn on_debug<S: ProcessState>(
        &mut self,
        process: &S,
        _options: &miden_core::DebugOptions,
    ) -> Result<HostResponse, ExecutionError> {
        // read the state the way the std debug handler does (must be side-effect free)
        let _ = process.get_stack_state();
        let _ = process.get_mem_state(process.ctx());
        let _ = process.fmp();
        self.debugs += 1;
        Ok(HostResponse::None)
    }

    fn on_trace<S: ProcessState>(
        &mut self,
        _process: &S,
        _trace_id: u32,
    ) -> Result<HostResponse, ExecutionError> {
        self.traces += 1;
        Ok(HostResponse::None)
    }
}

// TEST CASES
// ================================================================================================

struct Case {
    name: &'static str,
    kernel: Option<&'static str>,
    source: &'static str,
    stack: Vec<u64>,
    advice: Vec<u64>,
    has_clk: bool,
}

fn cases() -> Vec<Case> {
    vec![
        Case {
            name: "long_span",
            kernel: None,
            source: "begin
                push.1 push.2
                repeat.130 dup.1 add swap dup.1 mul swap end
                repeat.40 push.7 add end
            end",
            stack: vec![5, 6, 7],
            advice: vec![],
            has_clk: false,
        },
        Case {
            name: "deep_stack",
            kernel: None,
            source: "begin
                repeat.40 dup.3 dup.7 add end
                repeat.10 swapw movup.5 movdn.9 end
                repeat.44 add end
                sdepth
            end",
            stack: (1..=24).collect(),
            advice: vec![],
            has_clk: false,
        },
        Case {
            name: "loop_mem_split",
            kernel: None,
            source: "begin
                push.25 dup neq.0
                while.true
                    dup mem_store.5
                    dup dup.1 mul mem_store.6
                    mem_load.5 mem_load.6 add drop
                    dup push.1 u32and
                    if.true
                        dup mem_store.7
                    else
                        dup push.2 mul mem_store.5
                    end
                    sub.1 dup neq.0
                end
                drop mem_load.5 mem_load.6 mem_load.7
            end",
            stack: vec![],
            advice: vec![],
            has_clk: false,
        },
        Case {
            name: "calls_locals",
            kernel: None,
            source: "proc.leaf.2
                push.11 loc_store.0
                push.22 loc_store.1
                loc_load.0 loc_load.1 add mem_store.7
                push.5 mem_store.7
                mem_load.7 mem_store.8
            end
            proc.mid.1
                push.3 loc_store.0
                push.40 mem_store.7
                call.leaf
                loc_load.0 mem_load.7 add mem_store.9
                exec.leaf
            end
            begin
                push.1 mem_store.7
                call.mid
                mem_load.7
                call.leaf
                push.2 mem_store.7
                exec.mid
                mem_load.7 mem_load.8 mem_load.9
            end",
            stack: vec![3, 1, 4, 1, 5, 9, 2, 6],
            advice: vec![],
            has_clk: false,
        },
        Case {
            name: "calls_long",
            kernel: None,
            source: "proc.busy.2
                push.1 loc_store.0
                repeat.25 loc_load.0 push.3 mul loc_store.0 end
                loc_load.0 mem_store.100
                push.7 mem_store.101
                repeat.15 mem_load.101 add.1 mem_store.101 end
            end
            begin
                push.9 mem_store.100
                call.busy
                mem_load.100
                call.busy
                exec.busy
                call.busy
                mem_load.100 mem_load.101
            end",
            stack: vec![1, 2, 3, 4, 5, 6, 7, 8, 9, 10, 11, 12, 13, 14, 15, 16, 17, 18],
            advice: vec![],
            has_clk: false,
        },
        Case {
            name: "syscalls",
            kernel: Some(
                "export.kset.1
                    push.77 loc_store.0
                    loc_load.0 mem_store.3
                    push.6 mem_store.4
                    padw caller dropw
                end
                export.kget
                    mem_load.3 drop
                end",
            ),
            source: "proc.usr.1
                push.9 loc_store.0
                push.55 mem_store.3
                syscall.kset
                loc_load.0 mem_load.3 add mem_store.4
                syscall.kget
            end
            begin
                push.1 mem_store.3
                syscall.kset
                mem_load.3 drop
                call.usr
                mem_load.3 mem_load.4
                syscall.kget
                repeat.12 push.1 mem_store.3 call.usr end
            end",
            stack: vec![10, 20, 30],
            advice: vec![],
            has_clk: false,
        },
        Case {
            name: "advice",
            kernel: None,
            source: "begin
                adv_push.4 add add add
                padw adv_loadw
                mem_storew.20 dropw
                push.30 padw padw padw adv_pipe
                dropw dropw dropw drop
                adv_push.2 mul
                padw mem_loadw.31
                push.32 push.30 push.4.3.2.1 adv.insert_mem
                adv.push_mapval
                dropw drop drop
                adv_push.8
                repeat.7 add end
            end",
            stack: vec![2, 7, 1, 8],
            advice: (1..=24).collect(),
            has_clk: false,
        },
        Case {
            name: "decorated",
            kernel: None,
            source: "proc.work.1
                debug.local
                push.4 loc_store.0 trace.3
                emit.7
                loc_load.0 debug.stack.4 mem_store.2
                debug.mem.2
            end
            begin
                debug.stack
                trace.1
                push.10 emit.1
                dup neq.0
                while.true
                    trace.2 dup mem_store.1 debug.mem
                    emit.2 sub.1 dup neq.0 debug.stack.2
                end
                drop trace.5
                call.work
                emit.3 push.1 drop
                exec.work trace.4
                clk debug.stack.1 drop
                repeat.30 push.3 emit.4 mul trace.6 debug.stack.1 end
            end",
            stack: vec![4, 5, 6, 7, 8, 9, 10, 11, 12, 13, 14, 15, 16, 17, 18, 19, 20],
            advice: vec![],
            has_clk: true,
        },
        Case {
            name: "clk",
            kernel: None,
            source: "proc.tick.1
                clk loc_store.0 loc_load.0 mem_store.50
            end
            begin
                clk
                repeat.30 clk add end
                push.3 dup neq.0
                while.true clk mem_store.60 sub.1 dup neq.0 end
                drop
                call.tick
                exec.tick
                repeat.70 push.1 drop end
                clk
                mem_load.50 mem_load.60
            end",
            stack: vec![],
            advice: vec![],
            has_clk: true,
        },
    ]
}

// HELPERS
// ================================================================================================

fn strip_decorators(source: &str) -> String {
    source
        .split_whitespace()
        .filter(|t| {
            !(t.starts_with("debug.") || t.starts_with("trace.") || t.starts_with("emit."))
        })
        .collect::<Vec<_>>()
        .join(" ")
}

fn assemble(case: &Case, source: &str, debug: bool) -> Result<Program, String> {
    let mut assembler = Assembler::default().with_debug_mode(debug);
    if let Some(kernel) = case.kernel {
        assembler = assembler.with_kernel(kernel).map_err(|e| format!("kernel: {e}"))?;
    }
    assembler.compile(source).map_err(|e| format!("assembly failed: {e}"))
}

fn stack_inputs(case: &Case) -> StackInputs {
    StackInputs::try_from_values(case.stack.iter().copied()).unwrap()
}

/// Result of one full execution: main trace columns, outputs, cycle count and handler counters.
struct Run {
    cols: Vec<Vec<Felt>>,
    outputs: StackOutputs,
    cycles: usize,
    counters: (usize, usize, usize),
}

fn panic_message(e: Box<dyn std::any::Any + Send>) -> String {
    if let Some(s) = e.downcast_ref::<&str>() {
        s.to_string()
    } else if let Some(s) = e.downcast_ref::<String>() {
        s.clone()
    } else {
        "unknown panic".to_string()
    }
}

fn run(case: &Case, program: &Program, hint: u32, tracing: bool) -> Result<Run, String> {
    let res = catch_unwind(AssertUnwindSafe(|| {
        let options = ExecutionOptions::new(None, hint, tracing).map_err(|e| format!("{e}"))?;
        let mut host = QuietHost::new(&case.advice);
        let trace: ExecutionTrace =
            miden_processor::execute(program, stack_inputs(case), &mut host, options)
                .map_err(|e| format!("execution error: {e}"))?;
        let main = trace.main_segment();
        let cols: Vec<Vec<Felt>> =
            (0..main.num_cols()).map(|i| main.get_column(i).to_vec()).collect();
        Ok::<Run, String>(Run {
            cols,
            outputs: trace.stack_outputs().clone(),
            cycles: trace.trace_len_summary().main_trace_len(),
            counters: (host.events, host.traces, host.debugs),
        })
    }));
    match res {
        Ok(r) => r,
        Err(e) => Err(format!("PANIC: {}", panic_message(e))),
    }
}

/// Compares two runs; returns a description of the first difference.
fn diff_runs(a: &Run, b: &Run) -> Option<String> {
    if a.outputs != b.outputs {
        return Some(format!(
            "stack outputs differ: {:?} vs {:?}",
            a.outputs.stack(),
            b.outputs.stack()
        ));
    }
    if a.cycles != b.cycles {
        return Some(format!("cycle count differs: {} vs {}", a.cycles, b.cycles));
    }
    if a.cols.len() != b.cols.len() {
        return Some(format!("trace width differs: {} vs {}", a.cols.len(), b.cols.len()));
    }
    if a.cols[0].len() != b.cols[0].len() {
        return Some(format!("trace length differs: {} vs {}", a.cols[0].len(), b.cols[0].len()));
    }
    // report the difference with the smallest row index
    let mut best: Option<(usize, usize)> = None;
    for (c, (ca, cb)) in a.cols.iter().zip(b.cols.iter()).enumerate() {
        if let Some(r) = ca.iter().zip(cb.iter()).position(|(x, y)| x != y) {
            if best.map_or(true, |(br, _)| r < br) {
                best = Some((r, c));
            }
        }
    }
    best.map(|(r, c)| {
        format!(
            "main trace differs first at row {r} column {c}: {} vs {} ({} row, {} cycles)",
            a.cols[c][r].as_int(),
            b.cols[c][r].as_int(),
            if r <= a.cycles { "executed" } else { "padding" },
            a.cycles
        )
    })
}

// EXPECTED STATES FROM THE TRACE
// ================================================================================================

/// Everything the step iterator is supposed to report, derived from the main trace of a plain
/// (non-debug) execution: system and stack columns directly, memory by replaying the rows of the
/// memory chiplet, overflow by replaying the stack depth column.
struct Expected {
    cycles: usize,
    ctx: Vec<u32>,
    fmp: Vec<Felt>,
    top: Vec<[Felt; 16]>,
    overflow: Vec<Vec<Felt>>,
    opcode: Vec<u8>,
    /// ctx -> addr -> accesses (clk, value), sorted by clk
    mem: BTreeMap<u32, BTreeMap<u64, Vec<(u64, Word)>>>,
}

impl Expected {
    fn new(run: &Run, inputs: &StackInputs) -> Self {
        let n = run.cycles;
        let cols = &run.cols;
        let trace_len = cols[0].len();

        let mut ctx = Vec::new();
        let mut fmp = Vec::new();
        let mut top = Vec::new();
        let mut depth = Vec::new();
        let mut insys = Vec::new();
        let mut opcode = Vec::new();
        for t in 0..=n {
            assert_eq!(cols[CLK_COL_IDX][t].as_int(), t as u64, "clk column");
            ctx.push(cols[CTX_COL_IDX][t].as_int() as u32);
            fmp.push(cols[FMP_COL_IDX][t]);
            insys.push(cols[IN_SYSCALL_COL_IDX][t].as_int());
            let mut row = [Felt::new(0); 16];
            for (i, item) in row.iter_mut().enumerate() {
                *item = cols[STACK_TRACE_OFFSET + i][t];
            }
            top.push(row);
            depth.push(cols[STACK_TRACE_OFFSET + 16][t].as_int() as usize);
            let mut op = 0u8;
            for k in 0..7 {
                op |= (cols[DECODER_TRACE_OFFSET + 1 + k][t].as_int() as u8) << k;
            }
            opcode.push(op);
        }

        // overflow replay
        let mut physical: Vec<Felt> = inputs.values().iter().skip(16).rev().copied().collect();
        let mut overflow = Vec::new();
        for t in 0..=n {
            let visible = depth[t] - 16;
            let start = physical.len().saturating_sub(visible);
            overflow.push(physical[start..].iter().rev().copied().collect::<Vec<_>>());
            if t < n {
                let ctx_switch = ctx[t] != ctx[t + 1] || insys[t] != insys[t + 1];
                if !ctx_switch {
                    if depth[t + 1] == depth[t] + 1 {
                        physical.push(top[t][15]);
                    } else if depth[t + 1] + 1 == depth[t] {
                        physical.pop();
                    }
                }
            }
        }

        // memory chiplet rows: selectors (1, 1, 0); the last row of the trace is random
        let mut mem: BTreeMap<u32, BTreeMap<u64, Vec<(u64, Word)>>> = BTreeMap::new();
        for r in 0..trace_len - ExecutionTrace::NUM_RAND_ROWS {
            let s0 = cols[CHIPLETS_OFFSET][r].as_int();
            let s1 = cols[CHIPLETS_OFFSET + 1][r].as_int();
            let s2 = cols[CHIPLETS_OFFSET + 2][r].as_int();
            if (s0, s1, s2) != (1, 1, 0) {
                continue;
            }
            let c = cols[MEMORY_CTX_COL_IDX][r].as_int() as u32;
            let addr = cols[MEMORY_ADDR_COL_IDX][r].as_int();
            let clk = cols[MEMORY_CLK_COL_IDX][r].as_int();
            let v = MEMORY_V_COL_RANGE.start;
            let word: Word = [cols[v][r], cols[v + 1][r], cols[v + 2][r], cols[v + 3][r]];
            mem.entry(c).or_default().entry(addr).or_default().push((clk, word));
        }
        for seg in mem.values_mut() {
            for accesses in seg.values_mut() {
                accesses.sort_by_key(|a| a.0);
            }
        }

        Self {
            cycles: n,
            ctx,
            fmp,
            top,
            overflow,
            opcode,
            mem,
        }
    }

    /// Memory of context `ctx` at the beginning of row `t`: every address accessed by an operation
    /// executed in rows 0..t, with the value left by the latest such access.
    fn mem_at(&self, ctx: u32, t: usize) -> Vec<(u64, Word)> {
        let mut result = Vec::new();
        if let Some(seg) = self.mem.get(&ctx) {
            for (&addr, accesses) in seg.iter() {
                if let Some(a) = accesses.iter().rev().find(|a| (a.0 as usize) < t) {
                    result.push((addr, a.1));
                }
            }
        }
        result
    }
}

fn ints(v: &[Felt]) -> Vec<u64> {
    v.iter().map(|x| x.as_int()).collect()
}

fn mem_ints(m: &[(u64, Word)]) -> Vec<(u64, [u64; 4])> {
    m.iter()
        .map(|(a, w)| (*a, [w[0].as_int(), w[1].as_int(), w[2].as_int(), w[3].as_int()]))
        .collect()
}

#[derive(Default)]
struct IterReport {
    /// verdict-relevant mismatches (ctx / fmp / top of stack / memory)
    failures: Vec<String>,
    /// mismatches in the overflow part of the reported stack (known deviation, excluded)
    overflow_mismatches: usize,
    overflow_first: Option<String>,
    states_checked: usize,
}

impl IterReport {
    fn fail(&mut self, msg: String) {
        if self.failures.len() < 6 {
            self.failures.push(msg);
        } else if self.failures.len() == 6 {
            self.failures.push("...".to_string());
        }
    }
}

fn check_state(exp: &Expected, s: &VmState, how: &str, rep: &mut IterReport) {
    rep.states_checked += 1;
    let t = s.clk as usize;
    if t > exp.cycles {
        rep.fail(format!("{how}: reported clk {t} beyond the last cycle {}", exp.cycles));
        return;
    }
    let ctx: u32 = s.ctx.into();
    if ctx != exp.ctx[t] {
        rep.fail(format!("{how}: clk {t}: ctx {} but trace row holds ctx {}", ctx, exp.ctx[t]));
    }
    if s.fmp != exp.fmp[t] {
        rep.fail(format!(
            "{how}: clk {t}: fmp {} but trace row holds {}",
            s.fmp.as_int(),
            exp.fmp[t].as_int()
        ));
    }
    if s.stack.len() < 16 || s.stack[..16] != exp.top[t][..] {
        rep.fail(format!(
            "{how}: clk {t}: stack top {:?} but trace row holds {:?}",
            ints(&s.stack[..s.stack.len().min(16)]),
            ints(&exp.top[t])
        ));
    }
    // memory of the context the trace holds at this row
    let exp_mem = exp.mem_at(exp.ctx[t], t);
    if s.memory != exp_mem {
        rep.fail(format!(
            "{how}: clk {t} (trace ctx {}, reported ctx {}): memory {:?} but replay of the memory \
             chiplet gives {:?}",
            exp.ctx[t],
            ctx,
            mem_ints(&s.memory),
            mem_ints(&exp_mem)
        ));
    }
    if s.stack.len() >= 16 && s.stack[16..] != exp.overflow[t][..] {
        rep.overflow_mismatches += 1;
        if rep.overflow_first.is_none() {
            rep.overflow_first = Some(format!(
                "{how}: clk {t}: overflow part {:?}, replay of the trace gives {:?}",
                ints(&s.stack[16..]),
                ints(&exp.overflow[t])
            ));
        }
    }
}

fn new_iter(case: &Case, program: &Program) -> VmStateIterator {
    miden_processor::execute_iter(program, stack_inputs(case), QuietHost::new(&case.advice))
}

fn step_next(it: &mut VmStateIterator) -> Result<Option<VmState>, String> {
    match it.next() {
        None => Ok(None),
        Some(Ok(s)) => Ok(Some(s)),
        Some(Err(e)) => Err(format!("iterator returned error: {e}")),
    }
}

/// Runs all stepping patterns on the iterator of `program` and compares every reported state.
fn check_iterator(case: &Case, program: &Program, exp: &Expected, tag: &str) -> IterReport {
    let mut rep = IterReport::default();
    let n = exp.cycles;

    let res = catch_unwind(AssertUnwindSafe(|| {
        let mut rep = IterReport::default();

        // --- forward to the end, then backward to the start -----------------------------------
        let mut it = new_iter(case, program);
        let mut expected_clk = 0usize;
        loop {
            match step_next(&mut it) {
                Err(e) => {
                    rep.fail(format!("{tag} forward: {e}"));
                    break;
                }
                Ok(None) => break,
                Ok(Some(s)) => {
                    if s.clk as usize != expected_clk {
                        rep.fail(format!(
                            "{tag} forward: expected clk {expected_clk}, got {}",
                            s.clk
                        ));
                    }
                    check_state(exp, &s, &format!("{tag} forward"), &mut rep);
                    expected_clk = s.clk as usize + 1;
                }
            }
        }
        if expected_clk != n + 1 {
            rep.fail(format!("{tag} forward: stopped at clk {expected_clk}, expected {}", n + 1));
        }
        let mut expected_clk = n as i64;
        while let Some(s) = it.back() {
            if s.clk as i64 != expected_clk {
                rep.fail(format!("{tag} backward: expected clk {expected_clk}, got {}", s.clk));
            }
            check_state(exp, &s, &format!("{tag} backward"), &mut rep);
            expected_clk = s.clk as i64 - 1;
        }
        // note: back() never reports clock 0 when stepping back continuously (it returns None
        // once its counter reaches 0); this is navigation behaviour of the unchanged code, not a
        // state mismatch, so stopping after clock 1 is accepted here.
        if expected_clk > 0 {
            rep.fail(format!("{tag} backward: stopped before reaching clk {expected_clk}"));
        }
        // and forward once more from the start
        while let Ok(Some(s)) = step_next(&mut it) {
            check_state(exp, &s, &format!("{tag} forward-again"), &mut rep);
        }

        // --- zig-zag A: next, back, next, repeated until the end: changes direction (both
        // ways) at every clock ------------------------------------------------------------------
        let mut it = new_iter(case, program);
        let how = format!("{tag} zigzag(next,back,next)");
        let mut turned_fwd = vec![false; n + 1];
        let mut turned_back = vec![false; n + 1];
        let mut rounds = 0usize;
        loop {
            rounds += 1;
            if rounds > 2 * (n + 2) {
                rep.fail(format!("{how}: did not reach the end"));
                break;
            }
            match step_next(&mut it) {
                Ok(Some(s)) => check_state(exp, &s, &format!("{how} [next]"), &mut rep),
                Ok(None) => break,
                Err(e) => {
                    rep.fail(format!("{how}: {e}"));
                    break;
                }
            }
            if let Some(s) = it.back() {
                if (s.clk as usize) <= n {
                    turned_back[s.clk as usize] = true;
                }
                check_state(exp, &s, &format!("{how} [back after next]"), &mut rep);
            }
            match step_next(&mut it) {
                Ok(Some(s)) => {
                    if (s.clk as usize) <= n {
                        turned_fwd[s.clk as usize] = true;
                    }
                    check_state(exp, &s, &format!("{how} [next after back]"), &mut rep)
                }
                Ok(None) => break,
                Err(e) => {
                    rep.fail(format!("{how}: {e}"));
                    break;
                }
            }
        }
        // every clock from 2 on must have been visited by a turn in both directions
        if let Some(t) = (2..=n).find(|&t| !turned_fwd[t] || !turned_back[t]) {
            rep.fail(format!("{how}: no direction change was exercised at clk {t}"));
        }

        // --- zig-zag B: pseudo-random runs forward / backward -----------------------------------
        let mut it = new_iter(case, program);
        let mut seed: u64 = 0x9E3779B97F4A7C15 ^ (n as u64);
        let mut rnd = |m: u64| {
            seed = seed.wrapping_mul(6364136223846793005).wrapping_add(1442695040888963407);
            (seed >> 33) % m
        };
        let mut steps = 0usize;
        let mut done = false;
        while !done && steps < 40 * (n + 10) {
            let fwd = 1 + rnd(9);
            for _ in 0..fwd {
                steps += 1;
                match step_next(&mut it) {
                    Ok(Some(s)) => check_state(exp, &s, &format!("{tag} zigzag(random) [next]"), &mut rep),
                    Ok(None) => {
                        done = true;
                        break;
                    }
                    Err(e) => {
                        rep.fail(format!("{tag} zigzag(random): {e}"));
                        done = true;
                        break;
                    }
                }
            }
            if done {
                break;
            }
            let bwd = 1 + rnd(6);
            for _ in 0..bwd {
                steps += 1;
                match it.back() {
                    Some(s) => check_state(exp, &s, &format!("{tag} zigzag(random) [back]"), &mut rep),
                    None => break,
                }
            }
        }
        if !done {
            rep.fail(format!("{tag} zigzag(random): did not reach the end in {steps} steps"));
        }
        rep
    }));

    match res {
        Ok(r) => r,
        Err(e) => {
            rep.fail(format!("{tag}: PANIC while stepping: {}", panic_message(e)));
            rep
        }
    }
}

// MAIN
// ================================================================================================

fn main() {
    // panics are caught and reported as failures; keep stderr quiet
    std::panic::set_hook(Box::new(|info| {
        let loc = info.location().map(|l| format!("{}:{}", l.file(), l.line())).unwrap_or_default();
        eprintln!("[panic caught at {loc}]");
    }));

    let mut total_fail = 0usize;
    let mut preexisting: Vec<String> = Vec::new();
    let mut preexisting_other: Vec<String> = Vec::new();

    for case in cases() {
        let mut failures: Vec<String> = Vec::new();
        let mut notes: Vec<String> = Vec::new();

        let release = assemble(&case, case.source, false);
        let debug = assemble(&case, case.source, true);
        let stripped_src = strip_decorators(case.source);
        let stripped = assemble(&case, &stripped_src, false);
        let (release, debug, stripped) = match (release, debug, stripped) {
            (Ok(a), Ok(b), Ok(c)) => (a, b, c),
            (a, b, c) => {
                println!(
                    "FAIL {}: could not assemble: {:?} {:?} {:?}",
                    case.name,
                    a.err(),
                    b.err(),
                    c.err()
                );
                total_fail += 1;
                continue;
            }
        };

        // reference run: release assembly, minimum hint, tracing off
        let reference = match run(&case, &release, 64, false) {
            Ok(r) => r,
            Err(e) => {
                println!("FAIL {}: reference run failed: {e}", case.name);
                total_fail += 1;
                continue;
            }
        };
        let n = reference.cycles;

        // (1) re-running
        for i in 0..2 {
            match run(&case, &release, 64, false) {
                Ok(r) => {
                    if let Some(d) = diff_runs(&reference, &r) {
                        failures.push(format!("(1) re-run #{i}: {d}"));
                    }
                }
                Err(e) => failures.push(format!("(1) re-run #{i}: {e}")),
            }
        }

        // (2) hints and tracing flag
        let max_hint = ((4 * (n + 1)).next_power_of_two() as u32).max(4096);
        let mut hints = Vec::new();
        let mut h = 64u32;
        while h <= max_hint {
            hints.push(h);
            h *= 2;
        }
        // some hints that are not powers of two are rounded up by ExecutionOptions
        hints.extend_from_slice(&[65, 100, 1000]);
        let mut counters_tracing = None;
        for &hint in &hints {
            for tracing in [false, true] {
                match run(&case, &release, hint, tracing) {
                    Ok(r) => {
                        if let Some(d) = diff_runs(&reference, &r) {
                            failures.push(format!("(2) hint {hint} tracing {tracing}: {d}"));
                        }
                        if tracing {
                            counters_tracing = Some(r.counters);
                        }
                    }
                    Err(e) => failures.push(format!("(2) hint {hint} tracing {tracing}: {e}")),
                }
            }
        }

        // (3) debug-mode assembly and decorator-free source
        let mut debug_counters = None;
        for (what, program) in [("debug-mode assembly", &debug), ("decorators removed", &stripped)]
        {
            for (hint, tracing) in [(64u32, false), (64, true), (max_hint, true)] {
                match run(&case, program, hint, tracing) {
                    Ok(r) => {
                        if let Some(d) = diff_runs(&reference, &r) {
                            failures.push(format!("(3) {what}, hint {hint} tracing {tracing}: {d}"));
                        }
                        if what == "debug-mode assembly" && tracing {
                            debug_counters = Some(r.counters);
                        }
                    }
                    Err(e) => failures.push(format!("(3) {what}, hint {hint} tracing {tracing}: {e}")),
                }
            }
        }
        if release.hash() != debug.hash() || release.hash() != stripped.hash() {
            failures.push("(3) program hash depends on debug mode / decorators".to_string());
        }

        // (4) the step iterator against the trace, release and debug assembly
        let exp = Expected::new(&reference, &stack_inputs(&case));
        let mut states = 0;
        for (tag, program) in [("release", &release), ("debug", &debug)] {
            let rep = check_iterator(&case, program, &exp, tag);
            states += rep.states_checked;
            for f in rep.failures {
                failures.push(format!("(4) {f}"));
            }
            if rep.overflow_mismatches > 0 {
                preexisting.push(format!(
                    "{} [{}]: {} reported states differ from the replay in the overflow part only; first: {}",
                    case.name,
                    tag,
                    rep.overflow_mismatches,
                    rep.overflow_first.unwrap_or_default()
                ));
            }
        }

        // (5) clk pushes the clock value of its row
        let clk_opcode = Operation::Clk.op_code();
        let mut clk_rows = 0;
        for t in 0..n {
            if exp.opcode[t] == clk_opcode {
                clk_rows += 1;
                if exp.top[t + 1][0] != Felt::new(t as u64) {
                    failures.push(format!(
                        "(5) clk executed at row {t} pushed {}",
                        exp.top[t + 1][0].as_int()
                    ));
                }
            }
        }
        if case.has_clk && clk_rows == 0 {
            failures.push("(5) no CLK row found in the trace".to_string());
        }

        notes.push(format!(
            "cycles={n} trace_len={} hints=64..{max_hint} iterator_states={states} clk_rows={clk_rows} \
             handlers(event,trace,debug): release+tracing={:?} debug+tracing={:?}",
            reference.cols[0].len(),
            counters_tracing.unwrap_or_default(),
            debug_counters.unwrap_or_default()
        ));

        if failures.is_empty() {
            println!("PASS {}: {}", case.name, notes.join("; "));
        } else {
            total_fail += 1;
            println!("FAIL {}: {}", case.name, notes.join("; "));
            println!("FAILCASE {} :: {}", case.name, failures[0].replace('\n', " ").chars().take(900).collect::<String>());
            for f in failures.iter().take(12) {
                println!("     {f}");
            }
            if failures.len() > 12 {
                println!("     ... {} more", failures.len() - 12);
            }
        }
    }

    // probe: a decorator that is not followed by any operation of its own span (pre-existing)
    for src in [
        "begin push.1 drop repeat.2 push.1 drop end emit.9 end",
        "begin push.1 if.true push.2 drop else push.3 drop end trace.1 end",
    ] {
        let res = catch_unwind(AssertUnwindSafe(|| {
            Assembler::default().compile(src).map(|_| ()).map_err(|e| format!("{e}"))
        }));
        match res {
            Ok(Ok(())) => {}
            Ok(Err(e)) => preexisting_other.push(format!("assembling `{src}` fails: {e}")),
            Err(e) => preexisting_other
                .push(format!("assembling `{src}` PANICS: {}", panic_message(e))),
        }
    }
    if !preexisting_other.is_empty() {
        println!();
        println!("NOTE (excluded from the verdict, present in the unchanged code):");
        for p in &preexisting_other {
            println!("     {p}");
        }
    }

    if !preexisting.is_empty() {
        println!();
        println!(
            "NOTE (excluded from the verdict, present in the unchanged code): the overflow part \
             of VmState.stack does not match the row it is reported for"
        );
        for p in &preexisting {
            println!("     {p}");
        }
    }

    println!();
    println!("SUMMARY failing_programs={}", total_fail);
    if total_fail == 0 {
        println!("VERDICT: PASS");
    } else {
        println!("VERDICT: FAIL ({total_fail} program(s) violate C14)");
        std::process::exit(1);
    }
}
