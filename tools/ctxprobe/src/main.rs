//! ctxprobe: bounded stand-in `context_model` for C07 (adapted from the demo written by the independent mutation
//! sub-agent for C07: reference model of per-context memory, call / dyncall / syscall contexts, the depth-16 return rule,
//! fmp / locals regions, written from execution_contexts.md and io_operations.md; generated nestings; machine-readable
//! FAILCASE / SUMMARY lines added).  The generator avoids `caller` under dyncall (open known finding F20).
//! C07 demonstration: execution contexts isolate memory and stack; memory is zero-initialised
//! word RAM.
//!
//! This program contains
//!   1. an INDEPENDENT reference model of the documented semantics (written from
//!      docs/src/user_docs/assembly/execution_contexts.md, io_operations.md and
//!      code_organization.md), see `mod model`;
//!   2. a generator of MASM programs which nest call / syscall / dyncall / dynexec / exec with
//!      procedure locals, and interleave element / word / stream / pipe / local loads and stores
//!      over a small pool of colliding addresses, at various caller stack depths, see `mod gen`;
//!   3. a driver which runs every program through the real assembler + processor and compares
//!      success / failure (and failure kind) and the complete final stack with the model.
//!
//! Exit code 0 and a final `PASS` line iff every program agrees with the model.
//!
//! usage: c07-demo [--seed N] [--count N] [--probe] [--verbose]

use std::collections::HashMap;
use std::panic::{catch_unwind, AssertUnwindSafe};

use miden_assembly::Assembler;
use miden_processor::{
    AdviceInputs, DefaultHost, ExecutionError, ExecutionOptions, MemAdviceProvider, Process,
    StackInputs,
};

// ================================================================================================
// FIELD ARITHMETIC (Goldilocks, p = 2^64 - 2^32 + 1)
// ================================================================================================

const P: u64 = 0xFFFF_FFFF_0000_0001;

fn fadd(a: u64, b: u64) -> u64 {
    ((a as u128 + b as u128) % P as u128) as u64
}

fn fmul(a: u64, b: u64) -> u64 {
    ((a as u128 * b as u128) % P as u128) as u64
}

// ================================================================================================
// PROGRAM REPRESENTATION
// ================================================================================================

#[derive(Clone, Copy, Debug, PartialEq, Eq)]
pub enum ProcId {
    /// procedure of the executable module
    User(usize),
    /// procedure of the kernel module
    Kernel(usize),
}

#[derive(Clone, Debug)]
pub enum Ins {
    Push(u64),
    Drop,
    Dup(u8),
    Swap(u8),
    MovUp(u8),
    MovDn(u8),
    Add,
    Mul,
    PadW,
    Sdepth,
    // absolute memory access, address is an immediate
    MemLoadImm(u32),
    MemLoadwImm(u32),
    MemStoreImm(u32),
    MemStorewImm(u32),
    // absolute memory access, address is taken from the stack
    MemLoad,
    MemLoadw,
    MemStore,
    MemStorew,
    MemStream,
    AdvPipe,
    // procedure locals
    LocLoad(u16),
    LocLoadw(u16),
    LocStore(u16),
    LocStorew(u16),
    LocAddr(u16),
    // invocations
    Exec(ProcId),
    Call(usize),
    Syscall(usize),
    ProcRef(usize),
    DynExec,
    DynCall,
    Caller,
}

#[derive(Clone, Debug)]
pub struct Proc {
    pub name: String,
    pub num_locals: u16,
    pub exported: bool,
    pub body: Vec<Ins>,
}

#[derive(Clone, Debug, Default)]
pub struct Prog {
    pub kernel: Vec<Proc>,
    pub procs: Vec<Proc>,
    pub main: Vec<Ins>,
    /// initial operand stack; LAST value is on top of the stack
    pub stack_inputs: Vec<u64>,
    /// advice stack; FIRST value is popped first
    pub advice: Vec<u64>,
}

impl Prog {
    fn proc_name(&self, id: ProcId) -> &str {
        match id {
            ProcId::User(i) => &self.procs[i].name,
            ProcId::Kernel(i) => &self.kernel[i].name,
        }
    }

    fn fmt_body(&self, body: &[Ins], out: &mut String) {
        let mut line = String::from("   ");
        for ins in body {
            let s = match ins {
                Ins::Push(v) => format!("push.{v}"),
                Ins::Drop => "drop".into(),
                Ins::Dup(n) => format!("dup.{n}"),
                Ins::Swap(n) => format!("swap.{n}"),
                Ins::MovUp(n) => format!("movup.{n}"),
                Ins::MovDn(n) => format!("movdn.{n}"),
                Ins::Add => "add".into(),
                Ins::Mul => "mul".into(),
                Ins::PadW => "padw".into(),
                Ins::Sdepth => "sdepth".into(),
                Ins::MemLoadImm(a) => format!("mem_load.{a}"),
                Ins::MemLoadwImm(a) => format!("mem_loadw.{a}"),
                Ins::MemStoreImm(a) => format!("mem_store.{a}"),
                Ins::MemStorewImm(a) => format!("mem_storew.{a}"),
                Ins::MemLoad => "mem_load".into(),
                Ins::MemLoadw => "mem_loadw".into(),
                Ins::MemStore => "mem_store".into(),
                Ins::MemStorew => "mem_storew".into(),
                Ins::MemStream => "mem_stream".into(),
                Ins::AdvPipe => "adv_pipe".into(),
                Ins::LocLoad(i) => format!("loc_load.{i}"),
                Ins::LocLoadw(i) => format!("loc_loadw.{i}"),
                Ins::LocStore(i) => format!("loc_store.{i}"),
                Ins::LocStorew(i) => format!("loc_storew.{i}"),
                Ins::LocAddr(i) => format!("locaddr.{i}"),
                Ins::Exec(id) => format!("exec.{}", self.proc_name(*id)),
                Ins::Call(i) => format!("call.{}", self.procs[*i].name),
                Ins::Syscall(i) => format!("syscall.{}", self.kernel[*i].name),
                Ins::ProcRef(i) => format!("procref.{}", self.procs[*i].name),
                Ins::DynExec => "dynexec".into(),
                Ins::DynCall => "dyncall".into(),
                Ins::Caller => "caller".into(),
            };
            if line.len() + s.len() > 96 {
                out.push_str(&line);
                out.push('\n');
                line = String::from("   ");
            }
            line.push(' ');
            line.push_str(&s);
        }
        if line.trim().is_empty() {
            line.push_str(" push.0 drop");
        }
        out.push_str(&line);
        out.push('\n');
    }

    fn fmt_proc(&self, p: &Proc, out: &mut String) {
        let kw = if p.exported { "export" } else { "proc" };
        if p.num_locals > 0 {
            out.push_str(&format!("{kw}.{}.{}\n", p.name, p.num_locals));
        } else {
            out.push_str(&format!("{kw}.{}\n", p.name));
        }
        self.fmt_body(&p.body, out);
        out.push_str("end\n\n");
    }

    pub fn kernel_source(&self) -> Option<String> {
        if self.kernel.is_empty() {
            return None;
        }
        let mut out = String::new();
        for p in &self.kernel {
            self.fmt_proc(p, &mut out);
        }
        Some(out)
    }

    pub fn procs_source(&self) -> String {
        let mut out = String::new();
        for p in &self.procs {
            self.fmt_proc(p, &mut out);
        }
        out
    }

    pub fn program_source(&self) -> String {
        let mut out = self.procs_source();
        out.push_str("begin\n");
        self.fmt_body(&self.main, &mut out);
        out.push_str("end\n");
        out
    }

    pub fn describe(&self) -> String {
        let mut s = String::new();
        if let Some(k) = self.kernel_source() {
            s.push_str("---- kernel ----\n");
            s.push_str(&k);
        }
        s.push_str("---- program ----\n");
        s.push_str(&self.program_source());
        s.push_str(&format!(
            "---- stack inputs (last value is the top of the stack) ----\n{:?}\n",
            self.stack_inputs
        ));
        s.push_str(&format!(
            "---- advice stack (first value is popped first): {} values, first 16 ----\n{:?}\n",
            self.advice.len(),
            &self.advice[..self.advice.len().min(16)]
        ));
        s
    }
}

// ================================================================================================
// REFERENCE MODEL
// ================================================================================================

pub mod model {
    //! Reference model of the documented semantics.
    //!
    //! * Memory (io_operations.md, "Random access memory"): word addressable, addresses in
    //!   [0, 2^32), "guaranteed to be initialized to zeros"; `mem_store` changes only the first
    //!   element of the word; every access with an address >= 2^32 fails.
    //! * Contexts (execution_contexts.md): every context "defines its own memory space which is
    //!   not accessible from other execution contexts"; `call` (and `dyncall`) create a new user
    //!   context; `syscall` moves execution back to the root context; "all stack items beyond the
    //!   16th item get hidden"; on return "the VM checks if the current stack depth is exactly 16,
    //!   and fails otherwise", then the depth is reset to the original depth and execution moves
    //!   back to the context of the caller.
    //! * Locals (execution_contexts.md, "Memory layout" + example): in every user context locals
    //!   start at 2^30; locals of procedures executed from within a syscall start at 2^31; a
    //!   procedure `exec`-ed from another procedure gets its locals right after the locals of all
    //!   live frames of the same context.
    //! * `caller`: hash of the procedure which initiated the context from which the syscall was
    //!   made.
    //! * The operand stack never gets shallower than 16: removing an item at depth 16 shifts in a
    //!   ZERO at the bottom.
    use super::*;

    /// Offset of the first local relative to the value of the "free memory pointer" on procedure
    /// entry. execution_contexts.md says the first local of the first procedure of a context is
    /// at address 2^30 (offset 0); the implementation (and its own `locaddr` test) puts it at
    /// 2^30 + 1. The sweep uses 1, `--probe` reports the difference.
    pub const LOCALS_OFFSET_IMPL: u64 = 1;

    pub const USER_LOCALS_BASE: u64 = 1 << 30;
    pub const SYSCALL_LOCALS_BASE: u64 = 1 << 31;

    #[derive(Clone, Copy, Debug, PartialEq, Eq)]
    pub enum Fail {
        DepthOnReturn,
        AddrOutOfBounds,
        AdviceExhausted,
        CallInSyscall,
        DynTargetUnknown,
        CallerOutsideSyscall,
    }

    pub type Word = [u64; 4];

    #[derive(Clone, Copy, Debug)]
    pub struct Config {
        pub locals_offset: u64,
        /// if true `mem_stream` puts mem[a] on top (literal reading of the io_operations.md
        /// formula); otherwise mem[a + 1] ends up on top (the same layout as `adv_pipe`).
        pub stream_first_word_on_top: bool,
    }

    impl Default for Config {
        fn default() -> Self {
            Config { locals_offset: LOCALS_OFFSET_IMPL, stream_first_word_on_top: false }
        }
    }

    pub struct Model<'a> {
        prog: &'a Prog,
        cfg: Config,
        /// MAST roots of user procedures, as they appear on the stack (index 0 = top)
        user_hash: &'a [Word],
        /// operand stack visible in the current context, index 0 = top of the stack
        stack: Vec<u64>,
        /// (context, address) -> word
        mem: HashMap<(u64, u32), Word>,
        ctx: u64,
        next_ctx: u64,
        /// free memory pointer of the current context
        fmp: u64,
        in_syscall: bool,
        /// hash of the procedure which initiated the current context (zeros for the root context)
        ctx_owner: Word,
        /// advice stack, next value to be popped is the last one
        advice: Vec<u64>,
        pub steps: usize,
    }

    impl<'a> Model<'a> {
        pub fn new(prog: &'a Prog, user_hash: &'a [Word], cfg: Config) -> Self {
            let mut stack: Vec<u64> = prog.stack_inputs.iter().rev().copied().collect();
            while stack.len() < 16 {
                stack.push(0);
            }
            let mut advice = prog.advice.clone();
            advice.reverse();
            Model {
                prog,
                cfg,
                user_hash,
                stack,
                mem: HashMap::new(),
                ctx: 0,
                next_ctx: 1,
                fmp: USER_LOCALS_BASE,
                in_syscall: false,
                ctx_owner: [0; 4],
                advice,
                steps: 0,
            }
        }

        /// Runs the program; returns the complete final stack (index 0 = top).
        pub fn run(mut self) -> Result<Vec<u64>, Fail> {
            let prog = self.prog;
            self.run_body(&prog.main, None)?;
            Ok(self.stack)
        }

        // ---- operand stack ---------------------------------------------------------------------

        fn push(&mut self, v: u64) {
            self.stack.insert(0, v);
        }

        fn pop(&mut self) -> u64 {
            self.stack.remove(0)
        }

        /// The stack never gets shallower than 16: ZEROs are shifted in at the bottom. Applied
        /// after every instruction.
        fn pad(&mut self) {
            while self.stack.len() < 16 {
                self.stack.push(0);
            }
        }

        // ---- memory ----------------------------------------------------------------------------

        fn addr(v: u64) -> Result<u32, Fail> {
            if v >= 1 << 32 {
                Err(Fail::AddrOutOfBounds)
            } else {
                Ok(v as u32)
            }
        }

        fn load(&self, addr: u32) -> Word {
            self.mem.get(&(self.ctx, addr)).copied().unwrap_or([0; 4])
        }

        fn store(&mut self, addr: u32, w: Word) {
            self.mem.insert((self.ctx, addr), w);
        }

        /// word -> stack: element 3 of the word is on top
        fn overwrite_top_word(&mut self, pos: usize, w: Word) {
            for i in 0..4 {
                self.stack[pos + i] = w[3 - i];
            }
        }

        fn top_word(&self) -> Word {
            [self.stack[3], self.stack[2], self.stack[1], self.stack[0]]
        }

        fn op_load(&mut self, a: u64) -> Result<(), Fail> {
            let a = Self::addr(a)?;
            let w = self.load(a);
            self.push(w[0]);
            Ok(())
        }

        fn op_loadw(&mut self, a: u64) -> Result<(), Fail> {
            let a = Self::addr(a)?;
            let w = self.load(a);
            self.overwrite_top_word(0, w);
            Ok(())
        }

        fn op_store(&mut self, a: u64) -> Result<(), Fail> {
            let a = Self::addr(a)?;
            let v = self.pop();
            let mut w = self.load(a);
            w[0] = v;
            self.store(a, w);
            Ok(())
        }

        fn op_storew(&mut self, a: u64) -> Result<(), Fail> {
            let a = Self::addr(a)?;
            let w = self.top_word();
            self.store(a, w);
            Ok(())
        }

        // ---- procedures ------------------------------------------------------------------------

        fn proc(&self, id: ProcId) -> &'a Proc {
            match id {
                ProcId::User(i) => &self.prog.procs[i],
                ProcId::Kernel(i) => &self.prog.kernel[i],
            }
        }

        /// Executes a procedure in the current context: allocates its locals right above the
        /// locals of all live frames of this context and releases them at the end.
        fn run_proc(&mut self, id: ProcId) -> Result<(), Fail> {
            let p = self.proc(id);
            let base = self.fmp;
            self.fmp += p.num_locals as u64;
            self.run_body(&p.body, Some(base))?;
            self.fmp -= p.num_locals as u64;
            Ok(())
        }

        fn local_addr(&self, frame: Option<u64>, idx: u16) -> u64 {
            frame.expect("local access outside of a procedure") + self.cfg.locals_offset + idx as u64
        }

        /// Common part of call / dyncall / syscall.
        fn invoke_in_context(&mut self, target: ProcId, syscall: bool) -> Result<(), Fail> {
            if self.in_syscall {
                return Err(Fail::CallInSyscall);
            }
            // hide everything beyond the 16th item
            let hidden = self.stack.split_off(16);
            let (ctx, fmp, owner) = (self.ctx, self.fmp, self.ctx_owner);
            if syscall {
                self.ctx = 0;
                self.fmp = SYSCALL_LOCALS_BASE;
                self.in_syscall = true;
            } else {
                self.ctx = self.next_ctx;
                self.next_ctx += 1;
                self.fmp = USER_LOCALS_BASE;
                self.ctx_owner = match target {
                    ProcId::User(i) => self.user_hash[i],
                    ProcId::Kernel(_) => unreachable!(),
                };
            }
            self.run_proc(target)?;
            if self.stack.len() != 16 {
                return Err(Fail::DepthOnReturn);
            }
            self.stack.extend(hidden);
            self.ctx = ctx;
            self.fmp = fmp;
            self.ctx_owner = owner;
            self.in_syscall = false;
            Ok(())
        }

        fn dyn_target(&self) -> Result<usize, Fail> {
            let top = [self.stack[0], self.stack[1], self.stack[2], self.stack[3]];
            self.user_hash.iter().position(|h| *h == top).ok_or(Fail::DynTargetUnknown)
        }

        fn run_body(&mut self, body: &'a [Ins], frame: Option<u64>) -> Result<(), Fail> {
            for ins in body {
                self.steps += 1;
                match ins {
                    Ins::Push(v) => self.push(*v),
                    Ins::Drop => {
                        self.pop();
                    }
                    Ins::Dup(n) => {
                        let v = self.stack[*n as usize];
                        self.push(v);
                    }
                    Ins::Swap(n) => self.stack.swap(0, *n as usize),
                    Ins::MovUp(n) => {
                        let v = self.stack.remove(*n as usize);
                        self.stack.insert(0, v);
                    }
                    Ins::MovDn(n) => {
                        let v = self.stack.remove(0);
                        self.stack.insert(*n as usize, v);
                    }
                    Ins::Add => {
                        let b = self.pop();
                        let a = self.pop();
                        self.push(fadd(a, b));
                    }
                    Ins::Mul => {
                        let b = self.pop();
                        let a = self.pop();
                        self.push(fmul(a, b));
                    }
                    Ins::PadW => {
                        for _ in 0..4 {
                            self.push(0);
                        }
                    }
                    Ins::Sdepth => {
                        let d = self.stack.len() as u64;
                        self.push(d);
                    }
                    Ins::MemLoadImm(a) => self.op_load(*a as u64)?,
                    Ins::MemLoadwImm(a) => self.op_loadw(*a as u64)?,
                    Ins::MemStoreImm(a) => self.op_store(*a as u64)?,
                    Ins::MemStorewImm(a) => self.op_storew(*a as u64)?,
                    Ins::MemLoad => {
                        let a = self.stack[0];
                        Self::addr(a)?;
                        self.pop();
                        self.op_load(a)?;
                    }
                    Ins::MemLoadw => {
                        let a = self.stack[0];
                        Self::addr(a)?;
                        self.pop();
                        self.op_loadw(a)?;
                    }
                    Ins::MemStore => {
                        let a = self.stack[0];
                        Self::addr(a)?;
                        self.pop();
                        self.op_store(a)?;
                    }
                    Ins::MemStorew => {
                        let a = self.stack[0];
                        Self::addr(a)?;
                        self.pop();
                        self.op_storew(a)?;
                    }
                    Ins::MemStream | Ins::AdvPipe => {
                        let a = self.stack[12];
                        let a0 = Self::addr(a)?;
                        let a1 = Self::addr(a + 1)?;
                        let (w0, w1) = if matches!(ins, Ins::AdvPipe) {
                            if self.advice.len() < 8 {
                                return Err(Fail::AdviceExhausted);
                            }
                            let mut w = [[0u64; 4]; 2];
                            for word in w.iter_mut() {
                                for e in word.iter_mut() {
                                    *e = self.advice.pop().unwrap();
                                }
                            }
                            self.store(a0, w[0]);
                            self.store(a1, w[1]);
                            (w[0], w[1])
                        } else {
                            (self.load(a0), self.load(a1))
                        };
                        if matches!(ins, Ins::MemStream) && self.cfg.stream_first_word_on_top {
                            self.overwrite_top_word(0, w0);
                            self.overwrite_top_word(4, w1);
                        } else {
                            self.overwrite_top_word(0, w1);
                            self.overwrite_top_word(4, w0);
                        }
                        self.stack[12] = a + 2;
                    }
                    Ins::LocLoad(i) => {
                        let a = self.local_addr(frame, *i);
                        self.op_load(a)?
                    }
                    Ins::LocLoadw(i) => {
                        let a = self.local_addr(frame, *i);
                        self.op_loadw(a)?
                    }
                    Ins::LocStore(i) => {
                        let a = self.local_addr(frame, *i);
                        self.op_store(a)?
                    }
                    Ins::LocStorew(i) => {
                        let a = self.local_addr(frame, *i);
                        self.op_storew(a)?
                    }
                    Ins::LocAddr(i) => {
                        let a = self.local_addr(frame, *i);
                        self.push(a);
                    }
                    Ins::Exec(id) => self.run_proc(*id)?,
                    Ins::Call(i) => self.invoke_in_context(ProcId::User(*i), false)?,
                    Ins::Syscall(i) => self.invoke_in_context(ProcId::Kernel(*i), true)?,
                    Ins::ProcRef(i) => {
                        let h = self.user_hash[*i];
                        for k in (0..4).rev() {
                            self.push(h[k]);
                        }
                    }
                    Ins::DynExec => {
                        let t = self.dyn_target()?;
                        self.run_proc(ProcId::User(t))?;
                    }
                    Ins::DynCall => {
                        if self.in_syscall {
                            return Err(Fail::CallInSyscall);
                        }
                        let t = self.dyn_target()?;
                        self.invoke_in_context(ProcId::User(t), false)?;
                    }
                    Ins::Caller => {
                        if !self.in_syscall {
                            return Err(Fail::CallerOutsideSyscall);
                        }
                        let h = self.ctx_owner;
                        for k in 0..4 {
                            self.stack[k] = h[k];
                        }
                    }
                }
                self.pad();
            }
            Ok(())
        }
    }
}

// ================================================================================================
// PROGRAM GENERATOR
// ================================================================================================

pub mod gen {
    use super::*;

    pub struct Rng(u64);

    impl Rng {
        pub fn new(seed: u64) -> Self {
            Rng(seed.wrapping_mul(0x9E37_79B9_7F4A_7C15) ^ 0xD1B5_4A32_D192_ED03)
        }
        pub fn next(&mut self) -> u64 {
            // xorshift64*
            let mut x = self.0;
            x ^= x >> 12;
            x ^= x << 25;
            x ^= x >> 27;
            self.0 = x;
            x.wrapping_mul(0x2545_F491_4F6C_DD1D)
        }
        pub fn below(&mut self, n: u64) -> u64 {
            self.next() % n
        }
        pub fn chance(&mut self, percent: u64) -> bool {
            self.below(100) < percent
        }
        pub fn pick<'a, T>(&mut self, xs: &'a [T]) -> &'a T {
            &xs[self.below(xs.len() as u64) as usize]
        }
        pub fn value(&mut self) -> u64 {
            match self.below(4) {
                0 => self.below(10),
                1 => self.below(100_000),
                _ => self.next() % P,
            }
        }
    }

    /// Small pool of addresses; global addresses, addresses inside the region used for locals in
    /// user / root contexts (2^30 ..), inside the region used for locals of syscalls (2^31 ..)
    /// and the very end of the address space.
    pub const ADDR_POOL: [u32; 19] = [
        0,
        1,
        2,
        3,
        (1 << 30),
        (1 << 30) + 1,
        (1 << 30) + 2,
        (1 << 30) + 3,
        (1 << 30) + 4,
        (1 << 30) + 5,
        (1 << 31),
        (1 << 31) + 1,
        (1 << 31) + 2,
        (1 << 31) + 3,
        (1 << 31) + 4,
        u32::MAX - 3,
        u32::MAX - 2,
        u32::MAX - 1,
        u32::MAX,
    ];

    #[derive(Clone, Copy, PartialEq, Eq)]
    enum Kind {
        Main,
        User,
        Kernel,
    }

    struct ProcMeta {
        /// the procedure (or something it executes in the same context) executes `caller`
        /// through a syscall - see the note on dyncall in `gen_invocation`
        observes_owner: bool,
    }

    pub struct Gen<'r> {
        rng: &'r mut Rng,
        prog: Prog,
        user_meta: Vec<ProcMeta>,
        kernel_uses_caller: Vec<bool>,
        /// allow programs which are expected to fail
        allow_fail: bool,
    }

    /// top <- 7 * top + next (consumes one stack item, order sensitive)
    fn fold(out: &mut Vec<Ins>, n: usize) {
        for _ in 0..n {
            out.push(Ins::Push(7));
            out.push(Ins::Mul);
            out.push(Ins::Add);
        }
    }

    impl<'r> Gen<'r> {
        pub fn generate(rng: &'r mut Rng) -> Prog {
            let allow_fail = rng.chance(12);
            let mut g = Gen {
                rng,
                prog: Prog::default(),
                user_meta: Vec::new(),
                kernel_uses_caller: Vec::new(),
                allow_fail,
            };
            g.build();
            g.prog
        }

        fn addr(&mut self) -> u32 {
            let rng = &mut *self.rng;
            *rng.pick(&ADDR_POOL)
        }

        /// an address which never makes mem_stream / adv_pipe fail
        fn addr2(&mut self) -> u32 {
            loop {
                let a = self.addr();
                if a != u32::MAX {
                    return a;
                }
            }
        }

        fn build(&mut self) {
            let n_kernel = self.rng.below(4) as usize; // 0..=3
            for i in 0..n_kernel {
                let num_locals = self.rng.below(4) as u16;
                let mut uses_caller = false;
                let body = self.gen_body(Kind::Kernel, i, num_locals, &mut uses_caller);
                self.kernel_uses_caller.push(uses_caller);
                self.prog.kernel.push(Proc {
                    name: format!("k{i}"),
                    num_locals,
                    exported: true,
                    body,
                });
            }
            let n_procs = 1 + self.rng.below(6) as usize; // 1..=6
            for i in 0..n_procs {
                let num_locals = self.rng.below(4) as u16;
                let mut observes = false;
                let body = self.gen_body(Kind::User, i, num_locals, &mut observes);
                self.user_meta.push(ProcMeta { observes_owner: observes });
                self.prog.procs.push(Proc {
                    name: format!("p{i}"),
                    num_locals,
                    exported: false,
                    body,
                });
            }

            // main: a few pushes to vary the depth, the body, and a dump of root memory
            let n_inputs = match self.rng.below(4) {
                0 => 0,
                1 => self.rng.below(17) as usize,
                _ => 14 + self.rng.below(12) as usize,
            };
            for _ in 0..n_inputs {
                let v = self.rng.value();
                self.prog.stack_inputs.push(v);
            }
            let mut main = Vec::new();
            for _ in 0..self.rng.below(6) {
                main.push(Ins::Push(self.rng.value()));
            }
            let mut dummy = false;
            let n_procs_now = self.prog.procs.len();
            main.extend(self.gen_body(Kind::Main, n_procs_now, 0, &mut dummy));
            for a in ADDR_POOL {
                main.push(Ins::PadW);
                main.push(Ins::MemLoadwImm(a));
                fold(&mut main, 4);
            }
            self.prog.main = main;

            for _ in 0..8 * 40 {
                let v = self.rng.value();
                self.prog.advice.push(v);
            }
            if self.allow_fail && self.rng.chance(10) {
                self.prog.advice.truncate(self.rng.below(12) as usize);
            }
        }

        /// Generates the body of procedure `idx` (only procedures with smaller indexes can be
        /// invoked). All snippets are stack-neutral and never touch anything below the items
        /// which were on the stack when the snippet started (apart from items 0..15).
        fn gen_body(&mut self, kind: Kind, idx: usize, num_locals: u16, observes: &mut bool) -> Vec<Ins> {
            let mut out = Vec::new();
            let n = 2 + self.rng.below(7);
            let mut invocations = 0;
            for _ in 0..n {
                let roll = self.rng.below(100);
                if roll < 30 {
                    self.gen_mem(&mut out);
                } else if roll < 55 && num_locals > 0 {
                    self.gen_local(&mut out, num_locals);
                } else if roll < 62 {
                    self.gen_stream(&mut out);
                } else if roll < 72 {
                    self.gen_shuffle(&mut out);
                } else if roll < 76 {
                    out.push(Ins::Sdepth);
                    fold(&mut out, 1);
                } else if roll < 80 && kind == Kind::Kernel {
                    out.push(Ins::PadW);
                    out.push(Ins::Caller);
                    fold(&mut out, 4);
                    *observes = true;
                } else if invocations < 3 {
                    if self.gen_invocation(&mut out, kind, idx, observes) {
                        invocations += 1;
                    }
                } else {
                    self.gen_mem(&mut out);
                }
            }
            if self.allow_fail && kind != Kind::Main && self.rng.chance(8) {
                // unbalanced procedure: fails when it is the target of call / dyncall / syscall
                out.push(Ins::Push(self.rng.value()));
            }
            if self.allow_fail && self.rng.chance(4) {
                out.push(Ins::Drop);
            }
            out
        }

        fn gen_mem(&mut self, out: &mut Vec<Ins>) {
            let a = self.addr();
            let via_stack = self.rng.chance(35);
            match self.rng.below(4) {
                0 => {
                    out.push(Ins::Push(self.rng.value()));
                    if via_stack {
                        out.push(Ins::Push(a as u64));
                        out.push(Ins::MemStore);
                    } else {
                        out.push(Ins::MemStoreImm(a));
                    }
                }
                1 => {
                    for _ in 0..4 {
                        out.push(Ins::Push(self.rng.value()));
                    }
                    if via_stack {
                        out.push(Ins::Push(a as u64));
                        out.push(Ins::MemStorew);
                    } else {
                        out.push(Ins::MemStorewImm(a));
                    }
                    if self.rng.chance(50) {
                        fold(out, 4);
                    } else {
                        for _ in 0..4 {
                            out.push(Ins::Drop);
                        }
                    }
                }
                2 => {
                    if self.allow_fail && self.rng.chance(5) {
                        // address >= 2^32 must fail
                        out.push(Ins::Push((1u64 << 32) + self.rng.below(3)));
                        out.push(Ins::MemLoad);
                    } else if via_stack {
                        out.push(Ins::Push(a as u64));
                        out.push(Ins::MemLoad);
                    } else {
                        out.push(Ins::MemLoadImm(a));
                    }
                    fold(out, 1);
                }
                _ => {
                    out.push(Ins::PadW);
                    if via_stack {
                        out.push(Ins::Push(a as u64));
                        out.push(Ins::MemLoadw);
                    } else {
                        out.push(Ins::MemLoadwImm(a));
                    }
                    fold(out, 4);
                }
            }
        }

        fn gen_local(&mut self, out: &mut Vec<Ins>, num_locals: u16) {
            let i = self.rng.below(num_locals as u64) as u16;
            match self.rng.below(7) {
                0 => {
                    out.push(Ins::Push(self.rng.value()));
                    out.push(Ins::LocStore(i));
                }
                1 => {
                    for _ in 0..4 {
                        out.push(Ins::Push(self.rng.value()));
                    }
                    out.push(Ins::LocStorew(i));
                    for _ in 0..4 {
                        out.push(Ins::Drop);
                    }
                }
                2 => {
                    out.push(Ins::LocLoad(i));
                    fold(out, 1);
                }
                3 => {
                    out.push(Ins::PadW);
                    out.push(Ins::LocLoadw(i));
                    fold(out, 4);
                }
                4 => {
                    out.push(Ins::LocAddr(i));
                    fold(out, 1);
                }
                5 => {
                    out.push(Ins::LocAddr(i));
                    out.push(Ins::MemLoad);
                    fold(out, 1);
                }
                _ => {
                    out.push(Ins::Push(self.rng.value()));
                    out.push(Ins::LocAddr(i));
                    out.push(Ins::MemStore);
                }
            }
        }

        fn gen_stream(&mut self, out: &mut Vec<Ins>) {
            let a = if self.allow_fail && self.rng.chance(10) { u32::MAX } else { self.addr2() };
            out.push(Ins::Push(a as u64));
            out.push(Ins::PadW);
            out.push(Ins::PadW);
            out.push(Ins::PadW);
            if self.rng.chance(50) {
                out.push(Ins::MemStream);
            } else {
                out.push(Ins::AdvPipe);
            }
            fold(out, 13);
        }

        fn gen_shuffle(&mut self, out: &mut Vec<Ins>) {
            match self.rng.below(4) {
                0 => out.push(Ins::MovUp(2 + self.rng.below(14) as u8)),
                1 => out.push(Ins::MovDn(2 + self.rng.below(14) as u8)),
                2 => out.push(Ins::Swap(1 + self.rng.below(15) as u8)),
                _ => {
                    out.push(Ins::Dup(self.rng.below(16) as u8));
                    fold(out, 1);
                }
            }
        }

        /// `idx` = number of user procedures which can be invoked from here
        fn gen_invocation(&mut self, out: &mut Vec<Ins>, kind: Kind, idx: usize, observes: &mut bool) -> bool {
            // make the caller's stack deeper than 16 around the invocation
            let extra = if self.rng.chance(55) { 1 + self.rng.below(6) as usize } else { 0 };
            let mut inner = Vec::new();
            match kind {
                Kind::Kernel => {
                    // kernel procedures can only exec other kernel procedures
                    if idx == 0 {
                        return false;
                    }
                    let t = self.rng.below(idx as u64) as usize;
                    inner.push(Ins::Exec(ProcId::Kernel(t)));
                    *observes |= self.kernel_uses_caller[t];
                }
                Kind::Main | Kind::User => {
                    let n_kernel = self.prog.kernel.len();
                    let roll = self.rng.below(100);
                    if roll < 22 && n_kernel > 0 {
                        let k = self.rng.below(n_kernel as u64) as usize;
                        inner.push(Ins::Syscall(k));
                        *observes |= self.kernel_uses_caller[k];
                    } else if idx == 0 {
                        return false;
                    } else {
                        let t = self.rng.below(idx as u64) as usize;
                        if roll < 45 {
                            inner.push(Ins::Exec(ProcId::User(t)));
                            *observes |= self.user_meta[t].observes_owner;
                        } else if roll < 70 {
                            inner.push(Ins::Call(t));
                        } else if roll < 85 {
                            // NOTE: in the unchanged code base `caller` executed in a context
                            // which was created by dyncall does not return the hash of the
                            // invoked procedure (see `--probe`), so dyncall targets which observe
                            // the owner of their context are not generated by the sweep.
                            if self.user_meta[t].observes_owner {
                                inner.push(Ins::Call(t));
                            } else {
                                inner.push(Ins::ProcRef(t));
                                inner.push(Ins::DynCall);
                                if self.rng.chance(50) {
                                    fold(&mut inner, 4);
                                } else {
                                    inner.extend([Ins::Drop, Ins::Drop, Ins::Drop, Ins::Drop]);
                                }
                            }
                        } else {
                            inner.push(Ins::ProcRef(t));
                            inner.push(Ins::DynExec);
                            *observes |= self.user_meta[t].observes_owner;
                            if self.rng.chance(50) {
                                fold(&mut inner, 4);
                            } else {
                                inner.extend([Ins::Drop, Ins::Drop, Ins::Drop, Ins::Drop]);
                            }
                        }
                    }
                }
            }
            for _ in 0..extra {
                out.push(Ins::Push(self.rng.value()));
            }
            out.extend(inner);
            if self.rng.chance(80) {
                fold(out, extra);
            } else {
                for _ in 0..extra {
                    out.push(Ins::Drop);
                }
            }
            true
        }
    }
}

// ================================================================================================
// REAL VM
// ================================================================================================

#[derive(Debug, Clone, PartialEq, Eq)]
pub enum Outcome {
    /// complete final stack, index 0 = top
    Ok(Vec<u64>),
    Fail(String),
    Panic(String),
    AssemblyError(String),
}

fn classify(err: &ExecutionError) -> String {
    match err {
        ExecutionError::InvalidStackDepthOnReturn(_) => "DepthOnReturn".into(),
        ExecutionError::MemoryAddressOutOfBounds(_) => "AddrOutOfBounds".into(),
        ExecutionError::AdviceStackReadFailed(_) => "AdviceExhausted".into(),
        ExecutionError::CallInSyscall(_) => "CallInSyscall".into(),
        ExecutionError::DynamicCodeBlockNotFound(_) => "DynTargetUnknown".into(),
        ExecutionError::CallerNotInSyscall => "CallerOutsideSyscall".into(),
        other => format!("Other({other})"),
    }
}

fn run_vm_source(
    kernel: Option<&str>,
    source: &str,
    stack_inputs: &[u64],
    advice: &[u64],
) -> Outcome {
    let assembler = match kernel {
        Some(k) => match Assembler::default().with_kernel(k) {
            Ok(a) => a,
            Err(e) => return Outcome::AssemblyError(format!("kernel: {e}")),
        },
        None => Assembler::default(),
    };
    let program = match assembler.compile(source) {
        Ok(p) => p,
        Err(e) => return Outcome::AssemblyError(format!("{e}")),
    };
    let stack_inputs = StackInputs::try_from_values(stack_inputs.iter().copied()).unwrap();
    let advice_inputs = AdviceInputs::default().with_stack_values(advice.iter().copied()).unwrap();
    let host = DefaultHost::new(MemAdviceProvider::from(advice_inputs));
    let result = catch_unwind(AssertUnwindSafe(|| {
        let mut process =
            Process::new(program.kernel().clone(), stack_inputs, host, ExecutionOptions::default());
        process.execute(&program)
    }));
    match result {
        Ok(Ok(outputs)) => Outcome::Ok(outputs.stack().to_vec()),
        Ok(Err(e)) => Outcome::Fail(classify(&e)),
        Err(p) => {
            let msg = if let Some(s) = p.downcast_ref::<String>() {
                s.clone()
            } else if let Some(s) = p.downcast_ref::<&str>() {
                s.to_string()
            } else {
                "<non-string panic payload>".into()
            };
            Outcome::Panic(msg)
        }
    }
}

fn run_vm(prog: &Prog) -> Outcome {
    run_vm_source(
        prog.kernel_source().as_deref(),
        &prog.program_source(),
        &prog.stack_inputs,
        &prog.advice,
    )
}

/// MAST roots are opaque constants for the model; they are obtained by running
/// `begin procref.<name> end` for every user procedure and reading the top word of the stack.
fn proc_hashes(prog: &Prog) -> Result<Vec<model::Word>, String> {
    let mut out = Vec::new();
    let kernel = prog.kernel_source();
    for p in &prog.procs {
        let src = format!("{}begin\n    procref.{}\nend\n", prog.procs_source(), p.name);
        match run_vm_source(kernel.as_deref(), &src, &[], &[]) {
            Outcome::Ok(st) => out.push([st[0], st[1], st[2], st[3]]),
            other => return Err(format!("cannot obtain MAST root of {}: {other:?}", p.name)),
        }
    }
    Ok(out)
}

fn expected(prog: &Prog, hashes: &[model::Word], cfg: model::Config) -> Outcome {
    match model::Model::new(prog, hashes, cfg).run() {
        Ok(st) => Outcome::Ok(st),
        Err(f) => Outcome::Fail(format!("{f:?}")),
    }
}

/// Runs model and VM; returns (model outcome, VM outcome).
fn outcomes(prog: &Prog, cfg: model::Config) -> Result<(Outcome, Outcome), String> {
    let hashes = proc_hashes(prog)?;
    Ok((expected(prog, &hashes, cfg), run_vm(prog)))
}

/// Greedy reduction of a mismatching program: removes chunks of instructions as long as the
/// model and the VM still disagree (and the program still assembles).
fn minimize(prog: &Prog, cfg: model::Config) -> Prog {
    fn still_bad(p: &Prog, cfg: model::Config) -> bool {
        match outcomes(p, cfg) {
            Ok((want, got)) => want != got && !matches!(got, Outcome::AssemblyError(_)),
            Err(_) => false,
        }
    }
    fn body_mut(p: &mut Prog, which: usize) -> &mut Vec<Ins> {
        let nk = p.kernel.len();
        let np = p.procs.len();
        if which < nk {
            &mut p.kernel[which].body
        } else if which < nk + np {
            &mut p.procs[which - nk].body
        } else {
            &mut p.main
        }
    }
    let mut best = prog.clone();
    let n_bodies = best.kernel.len() + best.procs.len() + 1;
    let mut progress = true;
    while progress {
        progress = false;
        for chunk in [64usize, 16, 8, 4, 3, 2, 1] {
            for which in 0..n_bodies {
                let mut i = 0;
                while i < body_mut(&mut best, which).len() {
                    let mut cand = best.clone();
                    let body = body_mut(&mut cand, which);
                    let end = (i + chunk).min(body.len());
                    body.drain(i..end);
                    if still_bad(&cand, cfg) {
                        best = cand;
                        progress = true;
                    } else {
                        i += 1;
                    }
                }
            }
        }
        // shrink the inputs
        while !best.stack_inputs.is_empty() {
            let mut cand = best.clone();
            cand.stack_inputs.remove(0);
            if still_bad(&cand, cfg) {
                best = cand;
                progress = true;
            } else {
                break;
            }
        }
    }
    if best.advice.len() > 16 {
        let mut cand = best.clone();
        cand.advice.clear();
        if still_bad(&cand, cfg) {
            best = cand;
        }
    }
    best
}

fn report(prog: &Prog, want: &Outcome, got: &Outcome) -> String {
    let mut s = String::new();
    s.push_str(&prog.describe());
    s.push_str(&format!("---- model (index 0 = top of the stack) ----\n{want:?}\n"));
    s.push_str(&format!("---- real VM ----\n{got:?}\n"));
    if let (Outcome::Ok(a), Outcome::Ok(b)) = (want, got) {
        if a.len() != b.len() {
            s.push_str(&format!("final depth differs: model {} vs VM {}\n", a.len(), b.len()));
        }
        for i in 0..a.len().min(b.len()) {
            if a[i] != b[i] {
                s.push_str(&format!(
                    "first difference at stack position {i}: model {} vs VM {}\n",
                    a[i], b[i]
                ));
                break;
            }
        }
    }
    s
}

/// Returns Ok(model predicts success) if the VM agrees with the model, otherwise a report.
fn check(prog: &Prog, cfg: model::Config) -> Result<bool, String> {
    let (want, got) = match outcomes(prog, cfg) {
        Ok(x) => x,
        Err(e) => return Err(format!("{e}\n{}", prog.describe())),
    };
    if want == got {
        return Ok(matches!(want, Outcome::Ok(_)));
    }
    let mut s = String::new();
    let small = minimize(prog, cfg);
    if let Ok((w, g)) = outcomes(&small, cfg) {
        s.push_str("######## offending program, automatically reduced ########\n");
        s.push_str(&report(&small, &w, &g));
        s.push_str("\n######## offending program, as generated ########\n");
    }
    s.push_str(&report(prog, &want, &got));
    Err(s)
}

// ================================================================================================
// DIRECTED SCENARIOS
// ================================================================================================

/// A few hand written scenarios (they go through exactly the same model / VM comparison as the
/// generated programs).
fn directed() -> Vec<(&'static str, Prog)> {
    use Ins::*;
    let mut out = Vec::new();

    // the example of execution_contexts.md: foo.3 calls and execs bar.1, bar syscalls baz.2
    let kernel = vec![Proc {
        name: "baz".into(),
        num_locals: 2,
        exported: true,
        body: vec![
            Push(11), LocStore(0), Push(12), LocStore(1), PadW, Caller, Push(7), Mul, Add, Push(7),
            Mul, Add, Push(7), Mul, Add, Push(7), Mul, Add, MemLoadImm(5), Add, Push(1),
            MemStoreImm(5), MemLoadImm(5), Add,
        ],
    }];
    let bar = Proc {
        name: "bar".into(),
        num_locals: 1,
        exported: false,
        body: vec![Push(21), LocStore(0), LocAddr(0), Add, Syscall(0), LocLoad(0), Add, MemLoadImm(5), Add],
    };
    let foo = Proc {
        name: "foo".into(),
        num_locals: 3,
        exported: false,
        body: vec![
            Push(31), LocStore(0), Push(32), LocStore(2), Push(9), MemStoreImm(5), Call(0),
            Exec(ProcId::User(0)), LocLoad(0), Add, LocLoad(2), Add, LocAddr(2), Add,
        ],
    };
    out.push((
        "documentation example (foo.3 / bar.1 / baz.2)",
        Prog {
            kernel,
            procs: vec![bar, foo],
            main: vec![Push(5), MemStoreImm(5), Call(1), MemLoadImm(5), Add],
            stack_inputs: (1..=20).collect(),
            advice: vec![],
        },
    ));

    // a callee cannot see / disturb the deeper part of the caller's stack, on two levels
    let leaf = Proc {
        name: "leaf".into(),
        num_locals: 0,
        exported: false,
        body: vec![Sdepth, Add, Push(3), Push(4), Push(5), Sdepth, Add, Add, Add, Add],
    };
    let mid = Proc {
        name: "mid".into(),
        num_locals: 0,
        exported: false,
        body: vec![Push(100), Push(200), Call(0), Sdepth, Add, Add, Add],
    };
    out.push((
        "two levels of call from a shallow (depth 16) root stack",
        Prog {
            kernel: vec![],
            procs: vec![leaf.clone(), mid.clone()],
            main: vec![Call(1), Sdepth, Add],
            stack_inputs: (1..=9).collect(),
            advice: vec![],
        },
    ));
    out.push((
        "two levels of call from a deep (depth 20) root stack",
        Prog {
            kernel: vec![],
            procs: vec![leaf, mid],
            main: vec![Call(1), Sdepth, Add],
            stack_inputs: (1..=20).collect(),
            advice: vec![],
        },
    ));

    // element store changes only element 0; fresh addresses read as zero in every context
    let st = Proc {
        name: "st".into(),
        num_locals: 0,
        exported: false,
        body: vec![
            PadW, MemLoadwImm(7), Add, Add, Add, Add, Push(1), Push(2), Push(3), Push(4),
            MemStorewImm(7), Drop, Drop, Drop, Drop, Push(9), MemStoreImm(7), PadW, MemLoadwImm(7),
            Push(7), Mul, Add, Push(7), Mul, Add, Push(7), Mul, Add, Push(7), Mul, Add,
        ],
    };
    out.push((
        "element store keeps elements 1..3, per context",
        Prog {
            kernel: vec![],
            procs: vec![st],
            main: vec![
                Push(5), Push(6), Push(7), Push(8), MemStorewImm(7), Call(0), Push(10),
                MemStoreImm(7), PadW, MemLoadwImm(7),
            ],
            stack_inputs: vec![],
            advice: vec![],
        },
    ));
    out
}

// ================================================================================================
// PROBES (documentation vs unchanged implementation)
// ================================================================================================

fn probes() {
    println!("==== probes: literal reading of the documentation vs the VM (informational) ====");

    // 1. caller in a context created by dyncall
    let src_kernel = "export.k0\n    caller\nend\n";
    let procs = "proc.p0\n    dropw syscall.k0\nend\n";
    let h = match run_vm_source(Some(src_kernel), &format!("{procs}begin procref.p0 end"), &[], &[]) {
        Outcome::Ok(st) => st[..4].to_vec(),
        o => {
            println!("probe 1: cannot get the hash: {o:?}");
            vec![]
        }
    };
    let via_call = run_vm_source(Some(src_kernel), &format!("{procs}begin padw call.p0 end"), &[], &[]);
    let via_dyn = run_vm_source(Some(src_kernel), &format!("{procs}begin procref.p0 dyncall end"), &[], &[]);
    println!("probe 1: MAST root of p0 (stack order)            : {h:?}");
    if let Outcome::Ok(st) = &via_call {
        println!("probe 1: `caller` when p0 was invoked via call    : {:?}", &st[..4]);
    } else {
        println!("probe 1: call: {via_call:?}");
    }
    if let Outcome::Ok(st) = &via_dyn {
        println!("probe 1: `caller` when p0 was invoked via dyncall : {:?}", &st[..4]);
        if st[..4] != h[..] {
            println!("probe 1: DEVIATION: caller does not return the hash of the procedure invoked by dyncall");
        }
    } else {
        println!("probe 1: dyncall: {via_dyn:?}");
    }

    // 2. address of the first local
    let o = run_vm_source(None, "proc.foo.3\n locaddr.0 swap drop\nend\nbegin call.foo end", &[], &[]);
    if let Outcome::Ok(st) = &o {
        println!(
            "probe 2: locaddr.0 of the first procedure of a fresh context = {} (2^30 = {}); \
             execution_contexts.md says 2^30",
            st[0],
            1u64 << 30
        );
    }
    let o = run_vm_source(
        Some("export.baz.2\n locaddr.0 swap drop\nend\n"),
        "begin syscall.baz end",
        &[],
        &[],
    );
    if let Outcome::Ok(st) = &o {
        println!(
            "probe 2: locaddr.0 of a kernel procedure invoked by syscall   = {} (2^31 = {}); \
             execution_contexts.md says 2^31",
            st[0],
            1u64 << 31
        );
    }

    // 3. mem_stream word order
    let o = run_vm_source(
        None,
        "begin push.1.2.3.4 mem_storew.10 dropw push.5.6.7.8 mem_storew.11 dropw push.10 padw padw padw mem_stream end",
        &[],
        &[],
    );
    if let Outcome::Ok(st) = &o {
        println!(
            "probe 3: mem[10]=[1,2,3,4], mem[11]=[5,6,7,8]; after mem_stream the stack is {:?} \
             (io_operations.md: `[E, D] <- [mem[a], mem[a+1]]` with E on top)",
            &st[..13]
        );
    }
    println!("==== end of probes ====");
}

// ================================================================================================
// MAIN
// ================================================================================================

fn main() {
    let args: Vec<String> = std::env::args().collect();
    let mut seed = 20260923u64;
    let mut count = 3000usize;
    let mut probe = false;
    let mut verbose = false;
    let mut i = 1;
    while i < args.len() {
        match args[i].as_str() {
            "--seed" => {
                seed = args[i + 1].parse().unwrap();
                i += 1;
            }
            "--count" => {
                count = args[i + 1].parse().unwrap();
                i += 1;
            }
            "--probe" => probe = true,
            "--verbose" => verbose = true,
            other => panic!("unknown argument {other}"),
        }
        i += 1;
    }

    // silence the default panic message of the VM (panics are caught and reported as outcomes)
    std::panic::set_hook(Box::new(|_| {}));

    if probe {
        probes();
    }

    let cfg = model::Config::default();
    let mut failures: Vec<String> = Vec::new();
    let mut n_ok = 0usize;
    let mut n_expected_fail = 0usize;
    let mut n_checked = 0usize;

    for (name, prog) in directed() {
        n_checked += 1;
        match check(&prog, cfg) {
            Ok(_) => println!("directed scenario `{name}`: ok"),
            Err(report) => {
                println!("directed scenario `{name}`: MISMATCH");
                failures.push(format!("directed scenario `{name}`\n{report}"));
            }
        }
    }

    let mut rng = gen::Rng::new(seed);
    let mut stats_calls = [0usize; 5];
    for n in 0..count {
        let prog = gen::Gen::generate(&mut rng);
        for ins in prog.procs.iter().flat_map(|p| p.body.iter()).chain(prog.main.iter()) {
            match ins {
                Ins::Exec(_) => stats_calls[0] += 1,
                Ins::Call(_) => stats_calls[1] += 1,
                Ins::Syscall(_) => stats_calls[2] += 1,
                Ins::DynCall => stats_calls[3] += 1,
                Ins::DynExec => stats_calls[4] += 1,
                _ => {}
            }
        }
        n_checked += 1;
        match check(&prog, cfg) {
            Ok(model_ok) => {
                if model_ok {
                    n_ok += 1;
                } else {
                    n_expected_fail += 1;
                }
                if verbose {
                    println!("program #{n}: ok");
                }
            }
            Err(report) => {
                println!("program #{n} (seed {seed}): MISMATCH");
                failures.push(format!("generated program #{n} (seed {seed})\n{report}"));
                if failures.len() >= 3 {
                    break;
                }
            }
        }
    }

    println!(
        "checked {n_checked} programs: {n_ok} generated programs succeed in model and VM with identical \
         final stacks, {n_expected_fail} fail in both with the same kind of error"
    );
    println!(
        "static invocation sites generated: exec {} / call {} / syscall {} / dyncall {} / dynexec {}",
        stats_calls[0], stats_calls[1], stats_calls[2], stats_calls[3], stats_calls[4]
    );

    println!("SUMMARY checked={} mismatches={}", n_checked, failures.len());
    for f in &failures {
        println!("FAILCASE {}", f.replace('\n', " | ").chars().take(1500).collect::<String>());
    }
    if failures.is_empty() {
        println!("PASS");
    } else {
        for f in &failures {
            println!("\n==================== MISMATCH ====================\n{f}");
        }
        println!("FAIL ({} mismatching program(s) shown; sweep stops after 3)", failures.len());
        std::process::exit(1);
    }
}
