//! u64probe [limb-set-size]
//! Bounded check of std::math::u64 (C16) on the limb-boundary grid: every procedure is assembled and
//! executed with /repo's assembler / processor on all operand pairs whose 32-bit limbs are taken from
//! {0, 1, 2^31, 2^32-2, 2^32-1} (and 2, 2^31-1 with size 7), shifts / rotations on all amounts 0..63,
//! and compared with native u64 / u128 arithmetic, a sentinel below the operands included ("the rest
//! of the stack is untouched").  Division procedures must fail on a zero divisor.
//! Prints `FAIL <proc> a=<hex> b=<hex> expected=.. got=..` (first 5 per procedure), exit 1 on failure.
use miden_assembly::Assembler;
use miden_processor::{execute, DefaultHost, ExecutionOptions, Program, StackInputs};

const SENT: u64 = 0xC16;

fn run(p: &Program, top_first: &[u64]) -> Result<Vec<u64>, String> {
    let mut v: Vec<u64> = top_first.to_vec();
    v.push(SENT);
    v.reverse();
    let inputs = StackInputs::try_from_values(v).unwrap();
    match execute(p, inputs, DefaultHost::default(), ExecutionOptions::default()) {
        Ok(t) => Ok(t.stack_outputs().stack().to_vec()),
        Err(e) => Err(format!("{e}")),
    }
}
fn lo(x: u64) -> u64 { x & 0xFFFF_FFFF }
fn hi(x: u64) -> u64 { x >> 32 }
fn limbs(x: u64) -> Vec<u64> { vec![hi(x), lo(x)] }

fn main() {
    let size: usize = std::env::args().nth(1).and_then(|s| s.parse().ok()).unwrap_or(5);
    let mut ls: Vec<u64> = vec![0, 1, 0x8000_0000, 0xFFFF_FFFE, 0xFFFF_FFFF];
    if size >= 7 { ls.push(2); ls.push(0x7FFF_FFFF); }
    let vals: Vec<u64> = ls.iter().flat_map(|&h| ls.iter().map(move |&l| (h << 32) | l)).collect();
    let asm = Assembler::default().with_library(&miden_stdlib::StdLibrary::default()).unwrap();
    let prog = |name: &str| asm.compile(format!("use.std::math::u64 begin exec.u64::{name} end")).unwrap();
    let b2 = |x: bool| x as u64;
    // (name, reference: (a, b) -> Some(expected top elements, top first) | None = must fail)
    type Ref = Box<dyn Fn(u64, u64) -> Option<Vec<u64>>>;
    let two: Vec<(&str, Ref)> = vec![
        ("wrapping_add", Box::new(|a, b| Some(limbs(a.wrapping_add(b))))),
        ("overflowing_add", Box::new(move |a, b| { let (c, o) = a.overflowing_add(b); Some([vec![b2(o)], limbs(c)].concat()) })),
        ("wrapping_sub", Box::new(|a, b| Some(limbs(a.wrapping_sub(b))))),
        ("overflowing_sub", Box::new(move |a, b| { let (c, o) = a.overflowing_sub(b); Some([vec![b2(o)], limbs(c)].concat()) })),
        ("wrapping_mul", Box::new(|a, b| Some(limbs(a.wrapping_mul(b))))),
        ("overflowing_mul", Box::new(|a, b| { let p = (a as u128) * (b as u128); Some([limbs((p >> 64) as u64), limbs(p as u64)].concat()) })),
        ("lt", Box::new(move |a, b| Some(vec![b2(a < b)]))), ("gt", Box::new(move |a, b| Some(vec![b2(a > b)]))),
        ("lte", Box::new(move |a, b| Some(vec![b2(a <= b)]))), ("gte", Box::new(move |a, b| Some(vec![b2(a >= b)]))),
        ("eq", Box::new(move |a, b| Some(vec![b2(a == b)]))), ("neq", Box::new(move |a, b| Some(vec![b2(a != b)]))),
        ("min", Box::new(|a, b| Some(limbs(a.min(b))))), ("max", Box::new(|a, b| Some(limbs(a.max(b))))),
        ("div", Box::new(|a, b| if b == 0 { None } else { Some(limbs(a / b)) })),
        ("mod", Box::new(|a, b| if b == 0 { None } else { Some(limbs(a % b)) })),
        ("divmod", Box::new(|a, b| if b == 0 { None } else { Some([limbs(a % b), limbs(a / b)].concat()) })),
        ("and", Box::new(|a, b| Some(limbs(a & b)))), ("or", Box::new(|a, b| Some(limbs(a | b)))), ("xor", Box::new(|a, b| Some(limbs(a ^ b)))),
    ];
    let (mut total, mut fails) = (0u64, 0u64);
    for (name, rf) in &two {
        let p = prog(name);
        let mut shown = 0;
        for &a in &vals {
            for &b in &vals {
                total += 1;
                let got = run(&p, &[hi(b), lo(b), hi(a), lo(a)]);
                let bad = match (rf(a, b), &got) {
                    (None, Err(_)) => false,
                    (None, Ok(_)) => true,
                    (Some(_), Err(_)) => true,
                    (Some(exp), Ok(st)) => { let mut e = exp.clone(); e.push(SENT); st[..e.len()] != e[..] || st[e.len()..].iter().any(|&x| x != 0) }
                };
                if bad {
                    fails += 1;
                    if shown < 5 { shown += 1; println!("FAIL {name} a={a:#018x} b={b:#018x} expected={:?} got={:?}", rf(a, b), got); }
                }
            }
        }
    }
    let one: Vec<(&str, Box<dyn Fn(u64) -> Vec<u64>>)> = vec![
        ("eqz", Box::new(move |a| vec![b2(a == 0)])),
        ("clz", Box::new(|a| vec![a.leading_zeros() as u64])), ("ctz", Box::new(|a| vec![a.trailing_zeros() as u64])),
        ("clo", Box::new(|a| vec![a.leading_ones() as u64])), ("cto", Box::new(|a| vec![a.trailing_ones() as u64])),
    ];
    for (name, rf) in &one {
        let p = prog(name);
        let mut shown = 0;
        for &a in &vals {
            total += 1;
            let got = run(&p, &[hi(a), lo(a)]);
            let mut e = rf(a); e.push(SENT);
            let bad = match &got { Err(_) => true, Ok(st) => st[..e.len()] != e[..] || st[e.len()..].iter().any(|&x| x != 0) };
            if bad { fails += 1; if shown < 5 { shown += 1; println!("FAIL {name} a={a:#018x} expected={:?} got={:?}", rf(a), got); } }
        }
    }
    let sh: Vec<(&str, Box<dyn Fn(u64, u32) -> u64>)> = vec![
        ("shl", Box::new(|a, b| a << b)), ("shr", Box::new(|a, b| a >> b)),
        ("rotl", Box::new(|a, b| a.rotate_left(b))), ("rotr", Box::new(|a, b| a.rotate_right(b))),
    ];
    for (name, rf) in &sh {
        let p = prog(name);
        let mut shown = 0;
        for &a in &vals {
            for b in 0..64u32 {
                total += 1;
                let got = run(&p, &[b as u64, hi(a), lo(a)]);
                let mut e = limbs(rf(a, b)); e.push(SENT);
                let bad = match &got { Err(_) => true, Ok(st) => st[..e.len()] != e[..] || st[e.len()..].iter().any(|&x| x != 0) };
                if bad { fails += 1; if shown < 5 { shown += 1; println!("FAIL {name} a={a:#018x} b={b} expected={:?} got={:?}", limbs(rf(a, b)), got); } }
            }
        }
    }
    println!("SUMMARY executions={total} failures={fails} limb_values={}", ls.len());
    std::process::exit(if fails > 0 { 1 } else { 0 });
}
