//! u64probe [limb-set-size]
//! Bounded check of std::math::u64 (C16) on the limb-boundary grid: every procedure is assembled and
//! executed with /repo's assembler / processor on all operand pairs whose 32-bit limbs are taken from
//! {0, 1, 2^31, 2^32-2, 2^32-1} (and 2, 2^31-1 with size 7), shifts / rotations on all amounts 0..63,
//! and compared with native u64 / u128 arithmetic, a sentinel below the operands included ("the rest
//! of the stack is untouched").  Division procedures must fail on a zero divisor.
//! Prints `FAIL <proc> a=<hex> b=<hex> expected=.. got=..` (first 5 per procedure), exit 1 on failure.
use miden_assembly::Assembler;
use miden_processor::{execute, DefaultHost, ExecutionOptions, Program, StackInputs};

const SENT: u64 = 0xC16;

fn run(p: &Program, top_first: &[u64]) -> Result<Vec<u64>, String> {
    let mut v: Vec<u64> = top_first.to_vec();
    v.push(SENT);
    v.reverse();
    let inputs = StackInputs::try_from_values(v).unwrap();
    match execute(p, inputs, DefaultHost::default(), ExecutionOptions::default()) {
        Ok(t) => Ok(t.stack_outputs().stack().to_vec()),
        Err(e) => Err(format!("{e}")),
    }
}
fn lo(x: u64) -> u64 { x & 0xFFFF_FFFF }
fn hi(x: u64) -> u64 { x >> 32 }
fn limbs(x: u64) -> Vec<u64> { vec![hi(x), lo(x)] }

fn main() {
    let size: usize = std::env::args().nth(1).and_then(|s| s.parse().ok()).unwrap_or(5);
    let mut ls: Vec<u64> = vec![0, 1, 0x8000_0000, 0xFFFF_FFFE, 0xFFFF_FFFF];
    if size >= 7 { ls.push(2); ls.push(0x7FFF_FFFF); }
    let vals: Vec<u64> = ls.iter().flat_map(|&h| ls.iter().map(move |&l| (h << 32) | l)).collect();
    let asm = Assembler::default().with_library(&miden_stdlib::StdLibrary::default()).unwrap();
    let prog = |name: &str| asm.compile(format!("use.std::math::u64 begin exec.u64::{name} end")).unwrap();
    let b2 = |x: bool| x as u64;
    // (name, reference: (a, b) -> Some(expected top elements, top first) | None = must fail)
    type Ref = Box<dyn Fn(u64, u64) -> Option<Vec<u64>>>;
    let two: Vec<(&str, Ref)> = vec![
        ("wrapping_add", Box::new(|a, b| Some(limbs(a.wrapping_add(b))))),
        ("overflowing_add", Box::new(move |a, b| { let (c, o) = a.overflowing_add(b); Some([vec![b2(o)], limbs(c)].concat()) })),
        ("wrapping_sub", Box::new(|a, b| Some(limbs(a.wrapping_sub(b))))),
        ("overflowing_sub", Box::new(move |a, b| { let (c, o) = a.overflowing_sub(b); Some([vec![b2(o)], limbs(c)].concat()) })),
        ("wrapping_mul", Box::new(|a, b| Some(limbs(a.wrapping_mul(b))))),
        ("overflowing_mul", Box::new(|a, b| { let p = (a as u128) * (b as u128); Some([limbs((p >> 64) as u64), limbs(p as u64)].concat()) })),
        ("lt", Box::new(move |a, b| Some(vec![b2(a < b)]))), ("gt", Box::new(move |a, b| Some(vec![b2(a > b)]))),
        ("lte", Box::new(move |a, b| Some(vec![b2(a <= b)]))), ("gte", Box::new(move |a, b| Some(vec![b2(a >= b)]))),
        ("eq", Box::new(move |a, b| Some(vec![b2(a == b)]))), ("neq", Box::new(move |a, b| Some(vec![b2(a != b)]))),
        ("min", Box::new(|a, b| Some(limbs(a.min(b))))), ("max", Box::new(|a, b| Some(limbs(a.max(b))))),
        ("div", Box::new(|a, b| if b == 0 { None } else { Some(limbs(a / b)) })),
        ("mod", Box::new(|a, b| if b == 0 { None } else { Some(limbs(a % b)) })),
        ("divmod", Box::new(|a, b| if b == 0 { None } else { Some([limbs(a % b), limbs(a / b)].concat()) })),
        ("and", Box::new(|a, b| Some(limbs(a & b)))), ("or", Box::new(|a, b| Some(limbs(a | b)))), ("xor", Box::new(|a, b| Some(limbs(a ^ b)))),
    ];
    let (mut total, mut fails) = (0u64, 0u64);
    for (name, rf) in &two {
        let p = prog(name);
        let mut shown = 0;
        for &a in &vals {
            for &b in &vals {
                total += 1;
                let got = run(&p, &[hi(b), lo(b), hi(a), lo(a)]);
                let bad = match (rf(a, b), &got) {
                    (None, Err(_)) => false,
                    (None, Ok(_)) => true,
                    (Some(_), Err(_)) => true,
                    (Some(exp), Ok(st)) => { let mut e = exp.clone(); e.push(SENT); st[..e.len()] != e[..] || st[e.len()..].iter().any(|&x| x != 0) }
                };
                if bad {
                    fails += 1;
                    if shown < 5 { shown += 1; println!("FAIL {name} a={a:#018x} b={b:#018x} expected={:?} got={:?}", rf(a, b), got); }
                }
            }
        }
    }
    let one: Vec<(&str, Box<dyn Fn(u64) -> Vec<u64>>)> = vec![
        ("eqz", Box::new(move |a| vec![b2(a == 0)])),
        ("clz", Box::new(|a| vec![a.leading_zeros() as u64])), ("ctz", Box::new(|a| vec![a.trailing_zeros() as u64])),
        ("clo", Box::new(|a| vec![a.leading_ones() as u64])), ("cto", Box::new(|a| vec![a.trailing_ones() as u64])),
    ];
    for (name, rf) in &one {
        let p = prog(name);
        let mut shown = 0;
        for &a in &vals {
            total += 1;
            let got = run(&p, &[hi(a), lo(a)]);
            let mut e = rf(a); e.push(SENT);
            let bad = match &got { Err(_) => true, Ok(st) => st[..e.len()] != e[..] || st[e.len()..].iter().any(|&x| x != 0) };
            if bad { fails += 1; if shown < 5 { shown += 1; println!("FAIL {name} a={a:#018x} expected={:?} got={:?}", rf(a), got); } }
        }
    }
    let sh: Vec<(&str, Box<dyn Fn(u64, u32) -> u64>)> = vec![
        ("shl", Box::new(|a, b| a << b)), ("shr", Box::new(|a, b| a >> b)),
        ("rotl", Box::new(|a, b| a.rotate_left(b))), ("rotr", Box::new(|a, b| a.rotate_right(b))),
    ];
    for (name, rf) in &sh {
        let p = prog(name);
        let mut shown = 0;
        for &a in &vals {
            for b in 0..64u32 {
                total += 1;
                let got = run(&p, &[b as u64, hi(a), lo(a)]);
                let mut e = limbs(rf(a, b)); e.push(SENT);
                let bad = match &got { Err(_) => true, Ok(st) => st[..e.len()] != e[..] || st[e.len()..].iter().any(|&x| x != 0) };
                if bad { fails += 1; if shown < 5 { shown += 1; println!("FAIL {name} a={a:#018x} b={b} expected={:?} got={:?}", limbs(rf(a, b)), got); } }
            }
        }
    }
    // ---- std::math::u256 -------------------------------------------------------------------------
    // operands are 8 little-endian 32-bit limbs; on the stack b7 is on top: [b7..b0, a7..a0, ...]
    type L = [u64; 8];
    let pats: Vec<L> = {
        let mut v: Vec<L> = vec![[0; 8], [0xFFFF_FFFF; 8], [1, 0, 0, 0, 0, 0, 0, 0], [0, 0, 0, 0, 0, 0, 0, 0x8000_0000],
                                 [0xFFFF_FFFF, 0xFFFF_FFFF, 0xFFFF_FFFF, 0xFFFF_FFFF, 0, 0, 0, 0], [0, 0, 0, 0, 0xFFFF_FFFF, 0xFFFF_FFFF, 0xFFFF_FFFF, 0xFFFF_FFFF],
                                 [0xFFFF_FFFF, 0, 0xFFFF_FFFF, 0, 0xFFFF_FFFF, 0, 0xFFFF_FFFF, 0], [1, 2, 3, 4, 5, 6, 7, 8]];
        for i in 0..8 { for x in [1u64, 0x8000_0000, 0xFFFF_FFFF] { let mut l = [0u64; 8]; l[i] = x; v.push(l); let mut m = [0xFFFF_FFFFu64; 8]; m[i] = 0xFFFF_FFFF - x; v.push(m); } }
        // pseudo-random mixes of boundary limbs (fixed LCG)
        let mut st = 0x9E37_79B9_7F4A_7C15u64;
        for _ in 0..40 { let mut l = [0u64; 8]; for k in 0..8 { st = st.wrapping_mul(6364136223846793005).wrapping_add(1442695040888963407); l[k] = match (st >> 33) % 6 { 0 => 0, 1 => 1, 2 => 0x8000_0000, 3 => 0xFFFF_FFFE, 4 => 0xFFFF_FFFF, _ => (st >> 16) & 0xFFFF_FFFF }; } v.push(l); }
        v
    };
    let asm256 = |name: &str| asm.compile(format!("use.std::math::u256 begin exec.u256::{name} end")).unwrap();
    let top_first = |a: &L, b: &L| -> Vec<u64> { let mut v: Vec<u64> = b.iter().rev().cloned().collect(); v.extend(a.iter().rev()); v };
    let out = |c: &L| -> Vec<u64> { c.iter().rev().cloned().collect() };
    let add = |a: &L, b: &L| -> L { let mut c = [0u64; 8]; let mut carry = 0u64; for i in 0..8 { let t = a[i] + b[i] + carry; c[i] = t & 0xFFFF_FFFF; carry = t >> 32; } c };
    let sub = |a: &L, b: &L| -> L { let mut c = [0u64; 8]; let mut br = 0i64; for i in 0..8 { let t = a[i] as i64 - b[i] as i64 - br; if t < 0 { c[i] = (t + (1i64 << 32)) as u64; br = 1; } else { c[i] = t as u64; br = 0; } } c };
    let mul = |a: &L, b: &L| -> L { let mut c = [0u64; 8]; for i in 0..8 { let mut carry = 0u64; for j in 0..(8 - i) { let t = c[i + j] + a[i] * b[j] + carry; c[i + j] = t & 0xFFFF_FFFF; carry = t >> 32; } } c };
    let bit = |f: fn(u64, u64) -> u64| move |a: &L, b: &L| -> L { let mut c = [0u64; 8]; for i in 0..8 { c[i] = f(a[i], b[i]); } c };
    let bin: Vec<(&str, Box<dyn Fn(&L, &L) -> Vec<u64>>)> = vec![
        ("add_unsafe", Box::new(move |a, b| out(&add(a, b)))), ("sub_unsafe", Box::new(move |a, b| out(&sub(a, b)))), ("mul_unsafe", Box::new(move |a, b| out(&mul(a, b)))),
        ("and", Box::new({ let f = bit(|x, y| x & y); move |a, b| out(&f(a, b)) })), ("or", Box::new({ let f = bit(|x, y| x | y); move |a, b| out(&f(a, b)) })),
        ("xor", Box::new({ let f = bit(|x, y| x ^ y); move |a, b| out(&f(a, b)) })), ("eq_unsafe", Box::new(move |a, b| vec![b2(a == b)])),
    ];
    for (name, rf) in &bin {
        let p = asm256(name);
        let mut shown = 0;
        for a in &pats { for b in &pats {
            total += 1;
            let got = run(&p, &top_first(a, b));
            let mut e = rf(a, b); e.push(SENT);
            let bad = match &got { Err(_) => true, Ok(st) => st[..e.len()] != e[..] || st[e.len()..].iter().any(|&x| x != 0) };
            if bad { fails += 1; if shown < 5 { shown += 1; println!("FAIL u256::{name} a={a:x?} b={b:x?} expected={:?} got={:?}", rf(a, b), got); } }
        } }
    }
    {
        let p = asm256("iszero_unsafe");
        let mut shown = 0;
        for a in &pats {
            total += 1;
            let got = run(&p, &out(a));
            let e = vec![b2(a.iter().all(|&x| x == 0)), SENT];
            let bad = match &got { Err(_) => true, Ok(st) => st[..e.len()] != e[..] || st[e.len()..].iter().any(|&x| x != 0) };
            if bad { fails += 1; if shown < 5 { shown += 1; println!("FAIL u256::iszero_unsafe a={a:x?} expected={e:?} got={got:?}"); } }
        }
    }
    println!("SUMMARY executions={total} failures={fails} limb_values={}", ls.len());
    std::process::exit(if fails > 0 { 1 } else { 0 });
}
