//! [adapted for /verif from the demo of the second C11 sub-agent: FAILCASE / SUMMARY lines; the two history probes X1 / X2 are reported as cases]
//! C11 demonstration: assembly is deterministic, history-independent and self-contained, and
//! invalid programs are rejected with an error (not a panic, not silently accepted).
//!
//! Part 1: every instruction with an immediate parameter, boundary values (ranges from the docs).
//! Part 2: every forbidden construct of the statement in every context.
//! Part 3: generated library graphs x program families x compilation histories x library orders.
//! EXTRA : probes of the unchanged code which are reported but are NOT part of the verdict.
//!
//! Prints PASS / FAIL and exits non-zero on FAIL.

use miden_assembly::{
    ast::{ModuleAst, ProgramAst},
    Assembler, Library, LibraryNamespace, LibraryPath, Module, Version,
};
use miden_core::code_blocks::CodeBlock;
use miden_processor::{DefaultHost, ExecutionOptions, Process, Program, StackInputs};
use std::{
    cell::RefCell,
    collections::BTreeSet,
    panic::{self, AssertUnwindSafe},
    sync::{
        atomic::{AtomicUsize, Ordering},
        Mutex,
    },
};

// ================================================================================================
// HARNESS
// ================================================================================================

thread_local! {
    static LAST_PANIC: RefCell<Option<String>> = RefCell::new(None);
}

fn install_panic_hook() {
    panic::set_hook(Box::new(|info| {
        let msg = info.to_string().replace('\n', " ");
        LAST_PANIC.with(|c| *c.borrow_mut() = Some(msg));
    }));
}

/// Runs `f`; a panic is turned into `Err(panic message)`.
fn guarded<T>(f: impl FnOnce() -> T) -> Result<T, String> {
    LAST_PANIC.with(|c| *c.borrow_mut() = None);
    match panic::catch_unwind(AssertUnwindSafe(f)) {
        Ok(v) => Ok(v),
        Err(_) => Err(LAST_PANIC
            .with(|c| c.borrow_mut().take())
            .unwrap_or_else(|| "panic (no message)".to_string())),
    }
}

#[derive(Clone, Debug)]
struct LibSrc {
    ns: String,
    /// (full module path, source)
    modules: Vec<(String, String)>,
}

struct ParsedLib {
    ns: LibraryNamespace,
    modules: Vec<Module>,
    deps: Vec<LibraryNamespace>,
}

impl Library for ParsedLib {
    type ModuleIterator<'a> = std::slice::Iter<'a, Module>;
    fn root_ns(&self) -> &LibraryNamespace {
        &self.ns
    }
    fn version(&self) -> &Version {
        &Version::MIN
    }
    fn modules(&self) -> Self::ModuleIterator<'_> {
        self.modules.iter()
    }
    fn dependencies(&self) -> &[LibraryNamespace] {
        &self.deps
    }
}

fn parse_lib(l: &LibSrc) -> Result<ParsedLib, String> {
    let ns = LibraryNamespace::try_from(l.ns.clone()).map_err(|e| format!("namespace: {e}"))?;
    let mut modules = Vec::new();
    for (path, src) in &l.modules {
        let path = LibraryPath::new(path).map_err(|e| format!("path: {e}"))?;
        let ast = ModuleAst::parse(src).map_err(|e| format!("module parse: {e}"))?;
        modules.push(Module::new(path, ast));
    }
    Ok(ParsedLib { ns, modules, deps: Vec::new() })
}

fn build_assembler(
    libs: &[&ParsedLib],
    kernel: Option<&str>,
    debug: bool,
) -> Result<Assembler, String> {
    let mut a = Assembler::default().with_debug_mode(debug);
    for l in libs {
        a = a.with_library(*l).map_err(|e| format!("with_library: {e}"))?;
    }
    if let Some(k) = kernel {
        a = a.with_kernel(k).map_err(|e| format!("with_kernel: {e}"))?;
    }
    Ok(a)
}

#[derive(Clone, Debug, PartialEq, Eq)]
enum Outcome {
    Ok(String),
    Err(String),
    Panic(String),
}

impl Outcome {
    /// what has to be history independent: success + MAST root, or failure
    fn key(&self) -> String {
        match self {
            Outcome::Ok(r) => format!("Ok({r})"),
            Outcome::Err(_) => "Err".to_string(),
            Outcome::Panic(_) => "PANIC".to_string(),
        }
    }
    fn is_ok(&self) -> bool {
        matches!(self, Outcome::Ok(_))
    }
    fn is_err(&self) -> bool {
        matches!(self, Outcome::Err(_))
    }
    fn short(&self) -> String {
        match self {
            Outcome::Ok(r) => format!("Ok(root={}..)", &r[..16]),
            Outcome::Err(e) => format!("Err({e})"),
            Outcome::Panic(e) => format!("PANIC({e})"),
        }
    }
}

fn hex(bytes: [u8; 32]) -> String {
    bytes.iter().map(|b| format!("{b:02x}")).collect()
}

/// A complete compilation scenario: libraries, optional kernel, program source.
#[derive(Clone, Debug)]
struct Scenario {
    libs: Vec<LibSrc>,
    kernel: Option<String>,
    program: String,
    debug: bool,
}

impl Scenario {
    fn describe(&self) -> String {
        let mut s = String::new();
        for l in &self.libs {
            for (p, src) in &l.modules {
                s.push_str(&format!("    --- module {p} ---\n{}\n", indent(src)));
            }
        }
        if let Some(k) = &self.kernel {
            s.push_str(&format!("    --- kernel ---\n{}\n", indent(k)));
        }
        s.push_str(&format!("    --- program ---\n{}\n", indent(&self.program)));
        s
    }
}

fn indent(s: &str) -> String {
    s.lines()
        .map(|l| l.trim())
        .filter(|l| !l.is_empty())
        .map(|l| format!("        {l}"))
        .collect::<Vec<_>>()
        .join("\n")
}

/// Runs a scenario on a fresh assembler. Everything (library parsing, kernel compilation, program
/// compilation) is guarded against panics.
fn run_scenario(sc: &Scenario) -> (Outcome, Option<Program>) {
    let r = guarded(|| -> Result<Program, String> {
        let parsed: Vec<ParsedLib> =
            sc.libs.iter().map(parse_lib).collect::<Result<Vec<_>, _>>()?;
        let refs: Vec<&ParsedLib> = parsed.iter().collect();
        let a = build_assembler(&refs, sc.kernel.as_deref(), sc.debug)?;
        a.compile(&sc.program).map_err(|e| format!("compile: {e}"))
    });
    match r {
        Ok(Ok(p)) => (Outcome::Ok(hex(p.hash().into())), Some(p)),
        Ok(Err(e)) => (Outcome::Err(e), None),
        Err(p) => (Outcome::Panic(p), None),
    }
}

/// Static self-containment check: every CALL / SYSCALL target reachable from the program root
/// (through the code block table) must be present in the code block table.
fn missing_call_targets(p: &Program) -> Vec<String> {
    fn walk(b: &CodeBlock, p: &Program, seen: &mut BTreeSet<[u8; 32]>, missing: &mut Vec<String>) {
        match b {
            CodeBlock::Span(_) | CodeBlock::Dyn(_) | CodeBlock::Proxy(_) => {}
            CodeBlock::Join(j) => {
                walk(j.first(), p, seen, missing);
                walk(j.second(), p, seen, missing);
            }
            CodeBlock::Split(s) => {
                walk(s.on_true(), p, seen, missing);
                walk(s.on_false(), p, seen, missing);
            }
            CodeBlock::Loop(l) => walk(l.body(), p, seen, missing),
            CodeBlock::Call(c) => {
                let h = c.fn_hash();
                let key: [u8; 32] = h.into();
                // `dyncall` is a CALL block whose target is the DYN block
                if h == CodeBlock::new_dyn().hash() {
                    return;
                }
                match p.cb_table().get(h) {
                    Some(body) => {
                        if seen.insert(key) {
                            walk(body, p, seen, missing);
                        }
                    }
                    None => missing.push(hex(key)),
                }
            }
        }
    }
    let mut seen = BTreeSet::new();
    let mut missing = Vec::new();
    walk(p.root(), p, &mut seen, &mut missing);
    missing
}

/// Executes the program (all programs of part 3 are stack neutral and must run to completion).
fn exec_check(p: &Program) -> Result<(), String> {
    let missing = missing_call_targets(p);
    if !missing.is_empty() {
        return Err(format!("call targets missing from the code block table: {missing:?}"));
    }
    let r = guarded(|| {
        let mut process = Process::new(
            p.kernel().clone(),
            StackInputs::default(),
            DefaultHost::default(),
            ExecutionOptions::default(),
        );
        process.execute(p).map(|_| ()).map_err(|e| format!("execution error: {e}"))
    });
    match r {
        Ok(r) => r,
        Err(p) => Err(format!("execution PANIC: {p}")),
    }
}

/// Collects failures of one part.
struct Report {
    part: &'static str,
    checks: usize,
    failures: Vec<String>,
    known: Vec<String>,
}

impl Report {
    fn new(part: &'static str) -> Self {
        Self { part, checks: 0, failures: Vec::new(), known: Vec::new() }
    }
    fn finish(&self) -> bool {
        const MAX: usize = 25;
        for f in self.failures.iter().take(MAX) {
            println!("FAILCASE {} :: {}", self.part, f.replace('\n', " | "));
            println!("[{}] FAIL: {f}", self.part);
        }
        if self.failures.len() > MAX {
            println!("[{}] ... {} more failures not shown", self.part, self.failures.len() - MAX);
        }
        for k in &self.known {
            println!("[{}] KNOWN-DEVIATION (excluded from the verdict): {k}", self.part);
        }
        println!(
            "[{}] {} checks, {} failures, {} known deviations excluded => {}",
            self.part,
            self.checks,
            self.failures.len(),
            self.known.len(),
            if self.failures.is_empty() { "ok" } else { "FAILED" }
        );
        self.failures.is_empty()
    }
}

// ================================================================================================
// PART 1: PARAMETER BOUNDARIES
// ================================================================================================

const P: u128 = 0xffff_ffff_0000_0001; // field modulus 2^64 - 2^32 + 1
const U8: u128 = u8::MAX as u128;
const U16: u128 = u16::MAX as u128;
const U32: u128 = u32::MAX as u128;
const U64: u128 = u64::MAX as u128;

/// One parametrised instruction: `tmpl` with `{}` replaced by the value; [lo, hi] is the valid
/// range ACCORDING TO docs/src/user_docs/assembly/*.md; `tmax` the maximum of the natural type of
/// the parameter; `locals` the number of locals of the enclosing procedure.
struct ParamCase {
    tmpl: &'static str,
    lo: u128,
    hi: u128,
    tmax: u128,
    locals: u32,
    debug: bool,
    doc: &'static str,
}

const fn pc(tmpl: &'static str, lo: u128, hi: u128, tmax: u128, doc: &'static str) -> ParamCase {
    ParamCase { tmpl, lo, hi, tmax, locals: 0, debug: false, doc }
}

fn param_cases() -> Vec<ParamCase> {
    let mut v = vec![
        // ----- field_operations.md ------------------------------------------------------------
        pc("assert.err={}", 0, U32, U32, "error code: any 32-bit value"),
        pc("assertz.err={}", 0, U32, U32, "error code: any 32-bit value"),
        pc("assert_eq.err={}", 0, U32, U32, "error code: any 32-bit value"),
        pc("assert_eqw.err={}", 0, U32, U32, "error code: any 32-bit value"),
        pc("add.{}", 0, P - 1, U64, "field element"),
        pc("sub.{}", 0, P - 1, U64, "field element"),
        pc("mul.{}", 0, P - 1, U64, "field element"),
        pc("div.{}", 1, P - 1, U64, "field element, fails if b = 0"),
        pc("exp.{}", 0, P - 1, U64, "field element"),
        // the doc row says "Fails if xx is outside [0, 63)" and, in the same cell, "exp is
        // equivalent to exp.u64"; the second sentence needs u64 to be valid, so [0, 64] is used
        pc("exp.u{}", 0, 64, U8, "exp.uxx, exp == exp.u64"),
        pc("eq.{}", 0, P - 1, U64, "field element"),
        pc("neq.{}", 0, P - 1, U64, "field element"),
        // ----- u32_operations.md --------------------------------------------------------------
        pc("u32assert.err={}", 0, U32, U32, "error code: any 32-bit value"),
        pc("u32assert2.err={}", 0, U32, U32, "error code: any 32-bit value"),
        pc("u32assertw.err={}", 0, U32, U32, "error code: any 32-bit value"),
        pc("u32overflowing_add.{}", 0, U32, U32, "u32"),
        pc("u32wrapping_add.{}", 0, U32, U32, "u32"),
        pc("u32overflowing_sub.{}", 0, U32, U32, "u32"),
        pc("u32wrapping_sub.{}", 0, U32, U32, "u32"),
        pc("u32overflowing_mul.{}", 0, U32, U32, "u32"),
        pc("u32wrapping_mul.{}", 0, U32, U32, "u32"),
        pc("u32div.{}", 1, U32, U32, "u32, fails if b = 0"),
        pc("u32mod.{}", 1, U32, U32, "u32, fails if b = 0"),
        pc("u32divmod.{}", 1, U32, U32, "u32, fails if b = 0"),
        pc("u32shl.{}", 0, 31, U8, "undefined if b > 31"),
        pc("u32shr.{}", 0, 31, U8, "undefined if b > 31"),
        pc("u32rotl.{}", 0, 31, U8, "undefined if b > 31"),
        pc("u32rotr.{}", 0, 31, U8, "undefined if b > 31"),
        // ----- stack_manipulation.md ----------------------------------------------------------
        pc("dup.{}", 0, 15, U8, "n in {0..15}"),
        pc("dupw.{}", 0, 3, U8, "n in {0..3}"),
        pc("swap.{}", 1, 15, U8, "n in {1..15}"),
        pc("swapw.{}", 1, 3, U8, "n in {1..3}"),
        pc("movup.{}", 2, 15, U8, "n in {2..15}"),
        pc("movupw.{}", 2, 3, U8, "n in {2,3}"),
        pc("movdn.{}", 2, 15, U8, "n in {2..15}"),
        pc("movdnw.{}", 2, 3, U8, "n in {2,3}"),
        // ----- io_operations.md ---------------------------------------------------------------
        pc("push.{}", 0, P - 1, U64, "valid field element"),
        pc("adv_push.{}", 1, 16, U8, "n in {1..16}"),
        // offset s: the key word must lie within the 16 directly accessible stack items
        pc("adv.push_mapval.{}", 0, 12, U8, "stack offset of a word in the top 16 items"),
        pc("adv.push_mapvaln.{}", 0, 12, U8, "stack offset of a word in the top 16 items"),
        pc("adv.insert_hdword.{}", 0, 255, U8, "domain between 0 and 255"),
        pc("mem_load.{}", 0, U32, U32, "address in [0, 2^32)"),
        pc("mem_loadw.{}", 0, U32, U32, "address in [0, 2^32)"),
        pc("mem_store.{}", 0, U32, U32, "address in [0, 2^32)"),
        pc("mem_storew.{}", 0, U32, U32, "address in [0, 2^32)"),
        // ----- events.md ----------------------------------------------------------------------
        pc("emit.{}", 0, U32, U32, "any 32-bit value"),
        pc("trace.{}", 0, U32, U32, "any 32-bit value"),
        // ----- debugging.md (debug mode on) ----------------------------------------------------
        ParamCase { debug: true, ..pc("debug.stack.{}", 1, 255, U8, "0 < n < 256") },
        ParamCase { debug: true, ..pc("debug.mem.{}", 0, U32, U32, "address") },
        ParamCase { debug: true, ..pc("debug.local.{}", 0, U16, U16, "0 <= n < 65536") },
    ];
    // ----- procedure locals: valid indexes are 0 .. num_locals - 1 ------------------------------
    for locals in [1u32, 2, 4, 255, 256, 65535] {
        for tmpl in ["locaddr.{}", "loc_load.{}", "loc_loadw.{}", "loc_store.{}", "loc_storew.{}"] {
            v.push(ParamCase {
                locals,
                ..pc(tmpl, 0, (locals - 1) as u128, U16, "local index < number of locals")
            });
        }
    }
    v
}

fn param_source(c: &ParamCase, instr: &str) -> String {
    let locals = if c.locals > 0 { format!(".{}", c.locals) } else { String::new() };
    format!("proc.t{locals}\n    push.1\n    {instr}\n    drop\nend\nbegin\n    exec.t\nend\n")
}

fn compile_fresh(src: &str, debug: bool) -> Outcome {
    run_scenario(&Scenario { libs: vec![], kernel: None, program: src.to_string(), debug }).0
}

/// deviations of the UNCHANGED code from the docs found while writing this demo; they are
/// reported separately and are not part of the verdict: (instruction text, reason)
const PART1_KNOWN: &[(&str, &str)] = &[
    ("debug.stack.256", "unchanged code accepts any u16 >= 1, debugging.md says n < 256"),
    ("debug.mem.0", "unchanged code rejects address 0, debugging.md puts no lower bound on the address"),
    ("repeat.0", "unchanged code accepts a zero count, flow_control.md says count must be greater than 0"),
];

fn part1_record(rep: &mut Report, instr: &str, msg: String) {
    if let Some((_, why)) = PART1_KNOWN.iter().find(|(i, _)| *i == instr) {
        rep.known.push(format!("{msg} -- {why}"));
    } else {
        rep.failures.push(msg);
    }
}

fn part1() -> bool {
    let mut rep = Report::new("part1");
    for c in param_cases() {
        let mut vals: Vec<u128> = vec![0, c.lo, c.hi, c.hi + 1, c.tmax, c.tmax + 1, U64, U64 + 1];
        if c.lo > 0 {
            vals.push(c.lo - 1);
        }
        vals.sort();
        vals.dedup();
        for v in vals {
            let instr = c.tmpl.replace("{}", &v.to_string());
            let src = param_source(&c, &instr);
            let expect_ok = v >= c.lo && v <= c.hi;
            let out = compile_fresh(&src, c.debug);
            rep.checks += 1;
            let good = if expect_ok { out.is_ok() } else { out.is_err() };
            if !good {
                let msg = format!(
                    "`{instr}` (proc with {} locals; doc: {}; valid [{}, {}]): expected {}, got {}",
                    c.locals,
                    c.doc,
                    c.lo,
                    c.hi,
                    if expect_ok { "acceptance" } else { "an Err" },
                    out.short()
                );
                part1_record(&mut rep, &instr, msg);
            }
        }
    }

    // ----- explicit multi-parameter / arity cases ------------------------------------------------
    let push_n = |n: usize| format!("push.{}", vec!["3"; n].join("."));
    let explicit: Vec<(String, bool, bool, u32)> = vec![
        // (instruction, expect ok, debug mode, locals)
        (push_n(2), true, false, 0),
        (push_n(16), true, false, 0),
        (push_n(17), false, false, 0),
        ("debug.mem.3.3".into(), true, true, 0),
        ("debug.mem.3.4".into(), true, true, 0),
        ("debug.mem.4.3".into(), false, true, 0),
        ("debug.mem.0.4294967295".into(), true, true, 0),
        ("debug.mem.0.4294967296".into(), false, true, 0),
        ("debug.local.0.1".into(), true, true, 2),
        ("debug.local.1.0".into(), false, true, 2),
        ("debug.local.0.65535".into(), true, true, 2),
        ("debug.local.0.65536".into(), false, true, 2),
        ("adv.push_sig.rpo_falcon512".into(), true, false, 0),
        ("adv.push_sig.nosuchscheme".into(), false, false, 0),
    ];
    for (instr, expect_ok, debug, locals) in explicit {
        let c = ParamCase { locals, debug, ..pc("", 0, 0, 0, "") };
        let out = compile_fresh(&param_source(&c, &instr), debug);
        rep.checks += 1;
        let good = if expect_ok { out.is_ok() } else { out.is_err() };
        if !good {
            rep.failures.push(format!(
                "`{instr}`: expected {}, got {}",
                if expect_ok { "acceptance" } else { "an Err" },
                out.short()
            ));
        }
    }

    // ----- repeat count: "must be an integer greater than 0" --------------------------------------
    for (count, expect_ok) in [("0", false), ("1", true), ("2", true), ("255", true)] {
        let src = format!("begin\n    repeat.{count}\n        push.1 drop\n    end\nend\n");
        let out = compile_fresh(&src, false);
        rep.checks += 1;
        let good = if expect_ok { out.is_ok() } else { out.is_err() };
        if !good {
            part1_record(&mut rep, &format!("repeat.{count}"), format!("`repeat.{count}`: unexpected {}", out.short()));
        }
    }

    // ----- local index in the program body (no locals at all) -------------------------------------
    for instr in ["locaddr.0", "loc_load.0", "loc_loadw.0", "loc_store.0", "loc_storew.0"] {
        let src = format!("begin\n    push.1\n    {instr}\n    drop\nend\n");
        let out = compile_fresh(&src, false);
        rep.checks += 1;
        if !out.is_err() {
            rep.failures.push(format!("`{instr}` in a program body: expected Err, got {}", out.short()));
        }
    }
    rep.finish()
}

// ================================================================================================
// PART 2: FORBIDDEN CONSTRUCTS IN EVERY CONTEXT
// ================================================================================================

const AUX: &str = "
export.f
    push.11 drop
end
proc.hid
    push.12 drop
end
";

/// second helper module: internal procedures which their own module calls / procrefs. (Kept apart
/// from `aux` because a kernel cannot import a module in which ANY procedure uses `call`.)
const AUXC: &str = "
proc.hidc
    push.13 drop
end
export.usec
    push.15 drop
    call.hidc
end
proc.hidr
    push.14 drop
end
export.user
    push.16 drop
    procref.hidr
    dropw
end
";

/// preamble of every module which hosts a snippet: an import and a local helper
const MP: &str = "use.lib::aux\nuse.lib::auxc\nproc.helper\n    push.1 drop\nend\n";
/// preamble of the kernel module
const MPK: &str = "use.lib::aux\nproc.helper\n    push.1 drop\nend\n";
const K2: &str = "export.k2\n    push.4 drop\nend\n";

#[derive(Clone, Copy, PartialEq, Eq, Debug)]
enum Ctx {
    /// snippet sits in the body of a program
    ProgBody,
    /// snippet sits in a local procedure of a program
    ProgProc,
    /// snippet sits in a procedure of a library module compiled for a program
    LibProc,
    /// snippet sits in a procedure of the kernel module
    KernelProc,
    /// snippet sits in a library procedure which is exec'd by a kernel procedure
    LibProcInKernel,
}

struct Site {
    name: &'static str,
    ctx: Ctx,
    /// the assembler has a kernel exporting `k2`, and the snippet is outside of the kernel
    k2_callable: bool,
    build: fn(&str) -> Scenario,
}

fn lib_with(mods: Vec<(&str, String)>) -> Vec<LibSrc> {
    let mut modules = vec![
        ("lib::aux".to_string(), AUX.to_string()),
        ("lib::auxc".to_string(), AUXC.to_string()),
    ];
    for (p, s) in mods {
        modules.push((p.to_string(), s));
    }
    vec![LibSrc { ns: "lib".into(), modules }]
}

fn sc(libs: Vec<LibSrc>, kernel: Option<String>, program: String) -> Scenario {
    Scenario { libs, kernel, program, debug: false }
}

fn m_export(x: &str) -> String {
    format!("{MP}export.e.2\n    push.0 drop\n    {x}\nend\n")
}

const M2_REEXPORT: &str = "use.lib::m\nexport.m::e->r\n";
const M3_REEXPORT: &str = "use.lib::m2\nexport.m2::r->rr\n";

fn sites() -> Vec<Site> {
    vec![
        Site { name: "program body", ctx: Ctx::ProgBody, k2_callable: false, build: |x| {
            sc(lib_with(vec![]), None, format!("{MP}begin\n    push.0 drop\n    {x}\nend\n"))
        }},
        Site { name: "program proc, reached by exec", ctx: Ctx::ProgProc, k2_callable: false, build: |x| {
            sc(lib_with(vec![]), None, format!("{MP}proc.p.2\n    push.0 drop\n    {x}\nend\nbegin\n    exec.p\nend\n"))
        }},
        Site { name: "program proc, reached by call", ctx: Ctx::ProgProc, k2_callable: false, build: |x| {
            sc(lib_with(vec![]), None, format!("{MP}proc.p.2\n    push.0 drop\n    {x}\nend\nbegin\n    call.p\nend\n"))
        }},
        Site { name: "program proc, reached by procref", ctx: Ctx::ProgProc, k2_callable: false, build: |x| {
            sc(lib_with(vec![]), None, format!("{MP}proc.p.2\n    push.0 drop\n    {x}\nend\nbegin\n    procref.p\n    dropw\nend\n"))
        }},
        Site { name: "program proc, reached by exec of exec", ctx: Ctx::ProgProc, k2_callable: false, build: |x| {
            sc(lib_with(vec![]), None, format!("{MP}proc.q.2\n    push.0 drop\n    {x}\nend\nproc.p\n    push.2 drop\n    exec.q\nend\nbegin\n    exec.p\nend\n"))
        }},
        Site { name: "program proc, never referenced", ctx: Ctx::ProgProc, k2_callable: false, build: |x| {
            sc(lib_with(vec![]), None, format!("{MP}proc.p.2\n    push.0 drop\n    {x}\nend\nbegin\n    push.1 drop\nend\n"))
        }},
        Site { name: "library export, reached by exec", ctx: Ctx::LibProc, k2_callable: false, build: |x| {
            sc(lib_with(vec![("lib::m", m_export(x))]), None, "use.lib::m\nbegin\n    exec.m::e\nend\n".into())
        }},
        Site { name: "library export, reached by call", ctx: Ctx::LibProc, k2_callable: false, build: |x| {
            sc(lib_with(vec![("lib::m", m_export(x))]), None, "use.lib::m\nbegin\n    call.m::e\nend\n".into())
        }},
        Site { name: "library export, reached by procref", ctx: Ctx::LibProc, k2_callable: false, build: |x| {
            sc(lib_with(vec![("lib::m", m_export(x))]), None, "use.lib::m\nbegin\n    procref.m::e\n    dropw\nend\n".into())
        }},
        Site { name: "library internal proc, exec'd by an export", ctx: Ctx::LibProc, k2_callable: false, build: |x| {
            let m = format!("{MP}proc.i.2\n    push.0 drop\n    {x}\nend\nexport.e\n    push.2 drop\n    exec.i\nend\n");
            sc(lib_with(vec![("lib::m", m)]), None, "use.lib::m\nbegin\n    exec.m::e\nend\n".into())
        }},
        Site { name: "library internal proc, never referenced", ctx: Ctx::LibProc, k2_callable: false, build: |x| {
            let m = format!("{MP}proc.i.2\n    push.0 drop\n    {x}\nend\nexport.e\n    push.2 drop\nend\n");
            sc(lib_with(vec![("lib::m", m)]), None, "use.lib::m\nbegin\n    exec.m::e\nend\n".into())
        }},
        Site { name: "library export, reached through a re-export", ctx: Ctx::LibProc, k2_callable: false, build: |x| {
            sc(lib_with(vec![("lib::m", m_export(x)), ("lib::m2", M2_REEXPORT.into())]), None,
               "use.lib::m2\nbegin\n    exec.m2::r\nend\n".into())
        }},
        Site { name: "library export, called through a re-export of a re-export", ctx: Ctx::LibProc, k2_callable: false, build: |x| {
            sc(lib_with(vec![("lib::m", m_export(x)), ("lib::m2", M2_REEXPORT.into()), ("lib::m3", M3_REEXPORT.into())]), None,
               "use.lib::m3\nbegin\n    call.m3::rr\nend\n".into())
        }},
        Site { name: "library export, reached through exec in another module", ctx: Ctx::LibProc, k2_callable: false, build: |x| {
            let m2 = "use.lib::m\nexport.w\n    push.3 drop\n    exec.m::e\nend\n".to_string();
            sc(lib_with(vec![("lib::m", m_export(x)), ("lib::m2", m2)]), None,
               "use.lib::m2\nbegin\n    exec.m2::w\nend\n".into())
        }},
        Site { name: "export of a module in a second library", ctx: Ctx::LibProc, k2_callable: false, build: |x| {
            let mut libs = lib_with(vec![]);
            libs.push(LibSrc { ns: "lib2".into(), modules: vec![("lib2::m".into(), m_export(x))] });
            sc(libs, None, "use.lib2::m\nbegin\n    exec.m::e\nend\n".into())
        }},
        Site { name: "kernel export", ctx: Ctx::KernelProc, k2_callable: false, build: |x| {
            let k = format!("{MPK}{K2}export.k.2\n    push.0 drop\n    {x}\nend\n");
            sc(lib_with(vec![]), Some(k), "begin\n    syscall.k\nend\n".into())
        }},
        Site { name: "kernel internal proc, exec'd by a kernel export", ctx: Ctx::KernelProc, k2_callable: false, build: |x| {
            let k = format!("{MPK}{K2}proc.i.2\n    push.0 drop\n    {x}\nend\nexport.k\n    push.2 drop\n    exec.i\nend\n");
            sc(lib_with(vec![]), Some(k), "begin\n    syscall.k\nend\n".into())
        }},
        Site { name: "kernel internal proc, never referenced", ctx: Ctx::KernelProc, k2_callable: false, build: |x| {
            let k = format!("{MPK}{K2}proc.i.2\n    push.0 drop\n    {x}\nend\nexport.k\n    push.2 drop\nend\n");
            sc(lib_with(vec![]), Some(k), "begin\n    syscall.k\nend\n".into())
        }},
        Site { name: "library export, exec'd by a kernel export", ctx: Ctx::LibProcInKernel, k2_callable: false, build: |x| {
            let k = format!("use.lib::m\n{K2}export.k\n    push.2 drop\n    exec.m::e\nend\n");
            sc(lib_with(vec![("lib::m", m_export(x))]), Some(k), "begin\n    syscall.k\nend\n".into())
        }},
        Site { name: "library export, exec'd by a kernel export through a re-export", ctx: Ctx::LibProcInKernel, k2_callable: false, build: |x| {
            let k = format!("use.lib::m2\n{K2}export.k\n    push.2 drop\n    exec.m2::r\nend\n");
            sc(lib_with(vec![("lib::m", m_export(x)), ("lib::m2", M2_REEXPORT.into())]), Some(k),
               "begin\n    syscall.k\nend\n".into())
        }},
        Site { name: "program body, assembler with a kernel", ctx: Ctx::ProgBody, k2_callable: true, build: |x| {
            sc(lib_with(vec![]), Some(K2.into()), format!("{MP}begin\n    push.0 drop\n    {x}\nend\n"))
        }},
        Site { name: "program proc, assembler with a kernel", ctx: Ctx::ProgProc, k2_callable: true, build: |x| {
            sc(lib_with(vec![]), Some(K2.into()), format!("{MP}proc.p.2\n    push.0 drop\n    {x}\nend\nbegin\n    call.p\nend\n"))
        }},
        Site { name: "library export, assembler with a kernel", ctx: Ctx::LibProc, k2_callable: true, build: |x| {
            sc(lib_with(vec![("lib::m", m_export(x))]), Some(K2.into()), "use.lib::m\nbegin\n    exec.m::e\nend\n".into())
        }},
    ]
}

#[derive(Clone, Copy, PartialEq, Eq, Debug)]
enum Expect {
    Ok,
    Err,
    /// the docs do not decide
    Skip,
}

fn in_kernel(s: &Site) -> bool {
    matches!(s.ctx, Ctx::KernelProc | Ctx::LibProcInKernel)
}

/// (snippet, class, expectation per site)
fn constructs() -> Vec<(&'static str, &'static str, fn(&Site) -> Expect)> {
    let always: fn(&Site) -> Expect = |_| Expect::Err;
    let mut v: Vec<(&'static str, &'static str, fn(&Site) -> Expect)> = vec![
        // ----- controls: show that the sites themselves are valid ---------------------------------
        ("push.5 drop", "control", |_| Expect::Ok),
        ("exec.helper", "control", |_| Expect::Ok),
        ("exec.aux::f", "control", |_| Expect::Ok),
        ("exec.auxc::usec", "control: exec of an export with a call inside", |s| {
            if in_kernel(s) { Expect::Err } else { Expect::Ok }
        }),
        ("loc_store.1", "control: last valid local index", |s| {
            if s.ctx == Ctx::ProgBody { Expect::Err } else { Expect::Ok }
        }),
        ("procref.helper dropw", "control", |s| if in_kernel(s) { Expect::Skip } else { Expect::Ok }),
        // ----- call / syscall: forbidden in a kernel (also when reached through exec) -------------
        ("call.helper", "call in kernel", |s| if in_kernel(s) { Expect::Err } else { Expect::Ok }),
        ("call.aux::f", "call in kernel", |s| if in_kernel(s) { Expect::Err } else { Expect::Ok }),
        ("call.auxc::usec", "call in kernel", |s| if in_kernel(s) { Expect::Err } else { Expect::Ok }),
        // syscall.k2: valid only outside of the kernel and only if the kernel exports k2
        ("syscall.k2", "syscall in kernel / undefined kernel procedure", |s| {
            if s.k2_callable { Expect::Ok } else { Expect::Err }
        }),
        // ----- caller: only procedures of the kernel module may use it ----------------------------
        ("caller", "caller outside of the kernel", |s| {
            if s.ctx == Ctx::KernelProc { Expect::Ok } else { Expect::Err }
        }),
    ];
    // ----- undefined procedures ---------------------------------------------------------------------
    for x in [
        "exec.nope", "call.nope", "procref.nope dropw", // no such local procedure
        "exec.aux::nope", "call.aux::nope", "procref.aux::nope dropw", // no such procedure in module
        "exec.zz::f", "call.zz::f", "procref.zz::f dropw", // module not imported
        "syscall.nope", // not a kernel procedure
        // internal (non-exported) procedures of another module are not visible
        "exec.aux::hid", "call.aux::hid", "procref.aux::hid dropw",
        // ... also when the owning module calls / procrefs them itself
        "exec.auxc::hidc", "call.auxc::hidc", "procref.auxc::hidc dropw",
        "exec.auxc::hidr", "call.auxc::hidr", "procref.auxc::hidr dropw",
        // the local helper of the kernel / of another module is not a kernel procedure
        "syscall.helper", "syscall.f", "syscall.hidc",
    ] {
        v.push((x, "undefined procedure", always));
    }
    // ----- division by a zero immediate ---------------------------------------------------------------
    for x in ["div.0", "u32div.0", "u32mod.0", "u32divmod.0", "div.0x0", "u32div.0x0"] {
        v.push((x, "division by zero immediate", always));
    }
    // ----- local index out of range (the hosting procedures have 2 locals, the body none) -------------
    for x in ["loc_load.2", "loc_loadw.2", "loc_store.2", "loc_storew.2", "locaddr.2", "loc_load.65535"] {
        v.push((x, "local index out of range", always));
    }
    // ----- parameter out of range -----------------------------------------------------------------------
    for x in [
        "adv_push.0", "adv_push.17", "u32shl.32", "u32shr.32", "u32rotl.32", "u32rotr.32", "dup.16",
        "swap.0", "swap.16", "movup.1", "movup.16", "movdn.16", "dupw.4", "swapw.0", "swapw.4",
        "movupw.1", "movupw.4", "movdnw.4", "exp.u65", "push.18446744069414584321",
        "mem_load.4294967296", "mem_storew.4294967296", "add.18446744069414584321",
        "u32wrapping_add.4294967296", "emit.4294967296",
    ] {
        v.push((x, "parameter out of range", always));
    }
    v
}

/// (site name, snippet, reason): deviations of the UNCHANGED code, reported separately
const PART2_KNOWN: &[(&str, &str, &str)] = &[
    (
        "library export, exec'd by a kernel export",
        "caller",
        "unchanged code: a library module compiled while the kernel is compiled is treated as kernel code (same root cause as the known 'caller accepted in a non-kernel procedure' case)",
    ),
    (
        "library export, exec'd by a kernel export through a re-export",
        "caller",
        "unchanged code: same as above",
    ),
];

fn part2() -> bool {
    let mut rep = Report::new("part2");
    let sites = sites();
    for (x, class, expect) in constructs() {
        for s in &sites {
            let e = expect(s);
            if e == Expect::Skip {
                continue;
            }
            let scn = (s.build)(x);
            let (out, prog) = run_scenario(&scn);
            rep.checks += 1;
            let mut problem = None;
            match e {
                Expect::Err if !out.is_err() => {
                    problem = Some(format!("expected an Err, got {}", out.short()))
                }
                Expect::Ok if !out.is_ok() => {
                    problem = Some(format!("expected acceptance, got {}", out.short()))
                }
                Expect::Ok => {
                    // an accepted program must be self-contained
                    let missing = missing_call_targets(prog.as_ref().unwrap());
                    if !missing.is_empty() {
                        problem = Some(format!("accepted, but call targets {missing:?} are not in the code block table"));
                    }
                }
                _ => {}
            }
            if let Some(p) = problem {
                let msg = format!("[{class}] `{x}` in <{}>: {p}\n{}", s.name, scn.describe());
                if let Some((_, _, why)) =
                    PART2_KNOWN.iter().find(|(sn, sx, _)| *sn == s.name && *sx == x)
                {
                    rep.known.push(format!("[{class}] `{x}` in <{}>: {p} -- {why}", s.name));
                } else {
                    rep.failures.push(msg);
                }
            }
        }
    }

    // ----- re-export of something that is not exported ---------------------------------------------------
    for target in ["aux::nope", "aux::hid", "auxc::hidc", "auxc::hidr", "zz::f"] {
        for how in ["exec", "call", "procref"] {
            let m = format!("use.lib::aux\nuse.lib::auxc\nexport.{target}->r\nexport.other\n    push.9 drop\nend\n");
            let tail = if how == "procref" { "\n    dropw" } else { "" };
            let scn = sc(
                lib_with(vec![("lib::m", m)]),
                None,
                format!("use.lib::m\nbegin\n    {how}.m::r{tail}\nend\n"),
            );
            let (out, _) = run_scenario(&scn);
            rep.checks += 1;
            if !out.is_err() {
                rep.failures.push(format!(
                    "[undefined procedure] re-export `export.{target}->r` used by {how}: expected an Err, got {}\n{}",
                    out.short(),
                    scn.describe()
                ));
            }
        }
    }

    // ----- recursion / forward references ("cannot execute itself or any subsequent procedure") -----------
    let recursion: Vec<(&str, Scenario)> = vec![
        ("self exec in program", sc(vec![], None, "proc.a\n    push.1 drop\n    exec.a\nend\nbegin\n    exec.a\nend\n".into())),
        ("self call in program", sc(vec![], None, "proc.a\n    push.1 drop\n    call.a\nend\nbegin\n    exec.a\nend\n".into())),
        ("forward exec in program", sc(vec![], None, "proc.a\n    push.1 drop\n    exec.b\nend\nproc.b\n    push.2 drop\nend\nbegin\n    exec.a\nend\n".into())),
        ("self exec in library", sc(lib_with(vec![("lib::m", "export.e\n    push.1 drop\n    exec.e\nend\n".into())]), None, "use.lib::m\nbegin\n    exec.m::e\nend\n".into())),
        ("forward call in library", sc(lib_with(vec![("lib::m", "export.e\n    push.1 drop\n    call.l\nend\nproc.l\n    push.2 drop\nend\n".into())]), None, "use.lib::m\nbegin\n    exec.m::e\nend\n".into())),
        ("circular modules", sc(lib_with(vec![
            ("lib::m", "use.lib::m2\nexport.e\n    push.1 drop\n    exec.m2::w\nend\n".into()),
            ("lib::m2", "use.lib::m\nexport.w\n    push.2 drop\n    exec.m::e\nend\n".into())]), None, "use.lib::m\nbegin\n    exec.m::e\nend\n".into())),
        ("main referenced", sc(vec![], None, "begin\n    push.1 drop\n    exec.main\nend\n".into())),
    ];
    for (name, scn) in recursion {
        let (out, _) = run_scenario(&scn);
        rep.checks += 1;
        if !out.is_err() {
            rep.failures.push(format!("[undefined procedure] {name}: expected an Err, got {}\n{}", out.short(), scn.describe()));
        }
    }

    // ----- export in an executable module -------------------------------------------------------------------
    let exports: Vec<(&str, String)> = vec![
        ("export first", "export.foo\n    push.1 drop\nend\nbegin\n    push.2 drop\nend\n".into()),
        ("export after a proc", "proc.a\n    push.1 drop\nend\nexport.foo\n    push.3 drop\nend\nbegin\n    exec.a\nend\n".into()),
        ("export between procs", "proc.a\n    push.1 drop\nend\nexport.foo\n    push.3 drop\nend\nproc.b\n    push.4 drop\nend\nbegin\n    exec.a\n    exec.b\nend\n".into()),
        ("export used by exec", "proc.a\n    push.1 drop\nend\nexport.foo\n    push.3 drop\nend\nbegin\n    exec.a\n    exec.foo\nend\n".into()),
        ("export with locals after a proc", "proc.a.1\n    push.1 drop\nend\nexport.foo.2\n    push.3 drop\nend\nbegin\n    exec.a\nend\n".into()),
        ("export after begin", "begin\n    push.2 drop\nend\nexport.foo\n    push.1 drop\nend\n".into()),
        ("re-export in a program", "use.lib::aux\nexport.aux::f\nbegin\n    push.2 drop\nend\n".into()),
        ("re-export after a proc", "use.lib::aux\nproc.a\n    push.1 drop\nend\nexport.aux::f->g\nbegin\n    exec.a\nend\n".into()),
    ];
    for (name, src) in exports {
        let scn = sc(lib_with(vec![]), None, src);
        let (out, _) = run_scenario(&scn);
        rep.checks += 1;
        if !out.is_err() {
            rep.failures.push(format!("[export in executable] {name}: expected an Err, got {}\n{}", out.short(), scn.describe()));
        }
    }
    rep.finish()
}

// ================================================================================================
// PART 3: LIBRARY GRAPHS x PROGRAMS x HISTORIES x LIBRARY ORDERS
// ================================================================================================

struct Lcg(u64);
impl Lcg {
    fn next(&mut self, n: u32) -> u32 {
        self.0 = self.0.wrapping_mul(6364136223846793005).wrapping_add(1442695040888963407);
        ((self.0 >> 33) as u32) % n
    }
}

#[derive(Clone, Debug)]
struct Prog {
    src: String,
    expect_ok: bool,
}

#[derive(Clone, Debug)]
struct Graph {
    id: usize,
    libs: Vec<LibSrc>,
    progs: Vec<Prog>,
}

const NAMESPACES: [&str; 3] = ["la", "lb", "lc"];

fn gen_graph(id: usize) -> Graph {
    let mut rng = Lcg(0x9e3779b97f4a7c15 ^ (id as u64).wrapping_mul(0x100000001b3));
    let n_modules = 2 + id % 4; // 2..=5
    let n_libs = 1 + (id / 4) % 3; // 1..=3
    let mut ns_of: Vec<&str> = Vec::new();
    let mut exports: Vec<Vec<String>> = Vec::new(); // exported names (incl. re-exports)
    let mut has_called_hid: Vec<bool> = Vec::new();
    let mut sources: Vec<String> = Vec::new();

    for i in 0..n_modules {
        // the first modules go to distinct libraries so that no library is empty
        let ns = if i < n_libs { NAMESPACES[i] } else { NAMESPACES[rng.next(n_libs as u32) as usize] };
        ns_of.push(ns);
        let mut uses = String::new();
        let mut reexp = String::new();
        let mut procs = String::new();
        let mut names: Vec<String> = vec!["f".into(), "g".into()];

        // same name in different modules; bodies drawn from a small pool so that the same body
        // shows up under different names and in different modules
        let fb = 100 + rng.next(3);
        let gb = 100 + rng.next(3);
        procs.push_str(&format!("export.f\n    push.{fb} drop\nend\n"));
        procs.push_str(&format!("export.g\n    push.{gb} drop\nend\n"));
        procs.push_str(&format!("proc.hid\n    push.{} drop\nend\n", 200 + i));
        let called = rng.next(2) == 0;
        has_called_hid.push(called);
        if called {
            procs.push_str(&format!("export.ch\n    push.{} drop\n    call.hid\nend\n", 300 + i));
            names.push("ch".into());
        }
        if rng.next(3) == 0 {
            procs.push_str(&format!(
                "export.ph\n    push.{} drop\n    procref.hid\n    dynexec\n    dropw\nend\n",
                350 + i
            ));
            names.push("ph".into());
        }

        // imports: 1 or 2 earlier modules
        let mut imports: Vec<usize> = Vec::new();
        if i > 0 {
            imports.push(rng.next(i as u32) as usize);
            if i > 1 && rng.next(2) == 0 {
                let j = rng.next(i as u32) as usize;
                if !imports.contains(&j) {
                    imports.push(j);
                }
            }
        }
        for &j in &imports {
            uses.push_str(&format!("use.{}::m{j}\n", ns_of[j]));
            let k1 = rng.next(6);
            let mut k2 = rng.next(6);
            if k2 == k1 {
                k2 = (k2 + 1) % 6;
            }
            for k in [k1, k2] {
                let tag = 400 + 10 * i as u32 + j as u32;
                // target: some export of module j (may itself be a wrapper or a re-export)
                let tgt = exports[j][rng.next(exports[j].len() as u32) as usize].clone();
                match k {
                    0 => {
                        procs.push_str(&format!("export.e{j}\n    push.{tag} drop\n    exec.m{j}::{tgt}\nend\n"));
                        names.push(format!("e{j}"));
                    }
                    1 => {
                        procs.push_str(&format!("export.c{j}\n    push.{tag} drop\n    call.m{j}::{tgt}\nend\n"));
                        names.push(format!("c{j}"));
                    }
                    2 => {
                        procs.push_str(&format!("export.p{j}\n    push.{tag} drop\n    procref.m{j}::{tgt}\n    dynexec\n    dropw\nend\n"));
                        names.push(format!("p{j}"));
                    }
                    3 => {
                        procs.push_str(&format!("export.d{j}\n    push.{tag} drop\n    procref.m{j}::{tgt}\n    dyncall\n    dropw\nend\n"));
                        names.push(format!("d{j}"));
                    }
                    4 => {
                        reexp.push_str(&format!("export.m{j}::f->r{j}\n"));
                        names.push(format!("r{j}"));
                    }
                    _ => {
                        // re-export of an arbitrary export of module j: chains of re-exports
                        reexp.push_str(&format!("export.m{j}::{tgt}->q{j}\n"));
                        names.push(format!("q{j}"));
                    }
                }
            }
        }
        sources.push(format!("{uses}{reexp}{procs}"));
        exports.push(names);
    }

    let mut libs: Vec<LibSrc> = Vec::new();
    for ns in NAMESPACES.iter().take(n_libs) {
        let modules: Vec<(String, String)> = (0..n_modules)
            .filter(|&i| ns_of[i] == *ns)
            .map(|i| (format!("{ns}::m{i}"), sources[i].clone()))
            .collect();
        libs.push(LibSrc { ns: ns.to_string(), modules });
    }

    // ----- programs ------------------------------------------------------------------------------------
    let invoke = |how: u32, i: usize, name: &str| -> String {
        match how {
            0 => format!("    exec.m{i}::{name}\n"),
            1 => format!("    call.m{i}::{name}\n"),
            2 => format!("    procref.m{i}::{name}\n    dynexec\n    dropw\n"),
            _ => format!("    procref.m{i}::{name}\n    dyncall\n    dropw\n"),
        }
    };
    let mut progs: Vec<Prog> = Vec::new();
    let mut seen = BTreeSet::new();
    // the last module is the one with the deepest dependencies: always use it
    let mut picks: Vec<(usize, String, u32)> = Vec::new();
    let last = n_modules - 1;
    for name in exports[last].iter().skip(2) {
        picks.push((last, name.clone(), rng.next(4)));
    }
    while picks.len() < 9 {
        let i = rng.next(n_modules as u32) as usize;
        let name = exports[i][rng.next(exports[i].len() as u32) as usize].clone();
        picks.push((i, name, rng.next(4)));
    }
    picks.truncate(9);
    for (i, name, how) in &picks {
        let src = format!("use.{}::m{i}\nbegin\n    push.7 drop\n{}end\n", ns_of[*i], invoke(*how, *i, name));
        if seen.insert(src.clone()) {
            progs.push(Prog { src, expect_ok: true });
        }
    }
    // a program using two modules
    {
        let (i, n1, h1) = &picks[0];
        let (j, n2, h2) = &picks[picks.len() - 1];
        let uses = if i == j {
            format!("use.{}::m{i}\n", ns_of[*i])
        } else {
            format!("use.{}::m{i}\nuse.{}::m{j}\n", ns_of[*i], ns_of[*j])
        };
        let src = format!("{uses}begin\n    push.8 drop\n{}{}end\n", invoke(*h1, *i, n1), invoke(*h2, *j, n2));
        progs.push(Prog { src, expect_ok: true });
    }
    // invalid programs: an internal procedure (one which its module calls itself, if there is
    // one), a missing procedure, caller outside of a kernel
    let hid_mod = (0..n_modules).rev().find(|&i| has_called_hid[i]).unwrap_or(0);
    let how = ["exec", "call", "procref"][id % 3];
    let tail = if how == "procref" { "\n    dropw" } else { "" };
    progs.push(Prog {
        src: format!("use.{}::m{hid_mod}\nbegin\n    push.7 drop\n    {how}.m{hid_mod}::hid{tail}\nend\n", ns_of[hid_mod]),
        expect_ok: false,
    });
    progs.push(Prog {
        src: format!("use.{}::m{last}\nbegin\n    push.7 drop\n    exec.m{last}::f\n    call.m{last}::nope\nend\n", ns_of[last]),
        expect_ok: false,
    });
    progs.push(Prog {
        src: format!("use.{}::m0\nbegin\n    push.7 drop\n    exec.m0::f\n    caller\nend\n", ns_of[0]),
        expect_ok: false,
    });
    Graph { id, libs, progs }
}

fn permutations<T: Clone>(items: &[T]) -> Vec<Vec<T>> {
    if items.len() <= 1 {
        return vec![items.to_vec()];
    }
    let mut out = Vec::new();
    for i in 0..items.len() {
        let mut rest = items.to_vec();
        let x = rest.remove(i);
        for mut p in permutations(&rest) {
            p.insert(0, x.clone());
            out.push(p);
        }
    }
    out
}

struct Part3Task {
    graph: Graph,
    /// libraries in the order in which they are added (modules possibly reversed)
    libs: Vec<LibSrc>,
    order_desc: String,
}

#[derive(Default)]
struct Part3Result {
    checks: usize,
    compilations: usize,
    failures: Vec<String>,
    /// error text depends on history (informational only)
    err_text_divergences: Vec<String>,
}

fn describe_graph(libs: &[LibSrc]) -> String {
    let mut s = String::new();
    for l in libs {
        for (p, src) in &l.modules {
            s.push_str(&format!("    --- module {p} ---\n{}\n", indent(src)));
        }
    }
    s
}

fn run_part3_task(t: &Part3Task, reference: &Mutex<Vec<Option<String>>>) -> Part3Result {
    let mut res = Part3Result::default();
    let gid = t.graph.id;
    let parsed: Vec<ParsedLib> = match t.libs.iter().map(parse_lib).collect::<Result<Vec<_>, _>>() {
        Ok(p) => p,
        Err(e) => {
            res.failures.push(format!("graph {gid}: library does not parse: {e}\n{}", describe_graph(&t.libs)));
            return res;
        }
    };
    let refs: Vec<&ParsedLib> = parsed.iter().collect();
    let asts: Vec<Option<ProgramAst>> =
        t.graph.progs.iter().map(|p| ProgramAst::parse(&p.src).ok()).collect();
    let n = t.graph.progs.len();

    let compile = |a: &Assembler, i: usize| -> (Outcome, Option<Program>) {
        let r = guarded(|| match &asts[i] {
            Some(ast) => a.compile_ast(ast).map_err(|e| e.to_string()),
            None => a.compile(&t.graph.progs[i].src).map_err(|e| e.to_string()),
        });
        match r {
            Ok(Ok(p)) => (Outcome::Ok(hex(p.hash().into())), Some(p)),
            Ok(Err(e)) => (Outcome::Err(e), None),
            Err(p) => (Outcome::Panic(p), None),
        }
    };
    let fresh_assembler = || guarded(|| build_assembler(&refs, None, false));

    // ----- fresh assembler per program --------------------------------------------------------------
    let mut fresh: Vec<Outcome> = Vec::new();
    for i in 0..n {
        let a = match fresh_assembler() {
            Ok(Ok(a)) => a,
            other => {
                res.failures.push(format!(
                    "graph {gid} ({}): assembler cannot be built: {:?}\n{}",
                    t.order_desc,
                    other.err().or(Some("Err".into())),
                    describe_graph(&t.libs)
                ));
                return res;
            }
        };
        let (out, prog) = compile(&a, i);
        res.compilations += 1;
        res.checks += 1;
        let p = &t.graph.progs[i];
        if p.expect_ok != out.is_ok() || matches!(out, Outcome::Panic(_)) {
            res.failures.push(format!(
                "graph {gid} ({}), fresh assembler: program expected to be {} but got {}\n{}    --- program ---\n{}",
                t.order_desc,
                if p.expect_ok { "accepted" } else { "rejected with an Err" },
                out.short(),
                describe_graph(&t.libs),
                indent(&p.src)
            ));
        }
        if let Some(prog) = &prog {
            if let Err(e) = exec_check(prog) {
                res.failures.push(format!(
                    "graph {gid} ({}), fresh assembler: assembled program does not run: {e}\n{}    --- program ---\n{}",
                    t.order_desc,
                    describe_graph(&t.libs),
                    indent(&p.src)
                ));
            }
        }
        // the result must not depend on the order in which libraries / modules were added
        {
            let mut r = reference.lock().unwrap();
            match &r[i] {
                None => r[i] = Some(out.key()),
                Some(k) if *k != out.key() => res.failures.push(format!(
                    "graph {gid}: result depends on the library order: {} gives {}, another order gave {k}\n{}    --- program ---\n{}",
                    t.order_desc,
                    out.key(),
                    describe_graph(&t.libs),
                    indent(&p.src)
                )),
                _ => {}
            }
        }
        fresh.push(out);
    }

    // ----- ONE shared assembler, all histories of up to 3 earlier compilations ----------------------------
    let mut prefixes: Vec<Vec<usize>> = vec![];
    for a in 0..n {
        prefixes.push(vec![a]);
        for b in 0..n {
            prefixes.push(vec![a, b]);
            for c in 0..n {
                prefixes.push(vec![a, b, c]);
            }
        }
    }
    for prefix in &prefixes {
        for target in 0..n {
            let a = match fresh_assembler() {
                Ok(Ok(a)) => a,
                _ => unreachable!("assembler was built before"),
            };
            for &h in prefix {
                let _ = compile(&a, h);
                res.compilations += 1;
            }
            let (out, prog) = compile(&a, target);
            res.compilations += 1;
            res.checks += 1;
            let seq = || {
                let mut s = String::new();
                for (k, &h) in prefix.iter().enumerate() {
                    s.push_str(&format!("    --- earlier compilation #{} ---\n{}\n", k + 1, indent(&t.graph.progs[h].src)));
                }
                s.push_str(&format!("    --- program ---\n{}", indent(&t.graph.progs[target].src)));
                s
            };
            if out.key() != fresh[target].key() {
                res.failures.push(format!(
                    "graph {gid} ({}): history dependence: fresh assembler gives {}, after {} earlier compilation(s) {}\n{}{}",
                    t.order_desc,
                    fresh[target].short(),
                    prefix.len(),
                    out.short(),
                    describe_graph(&t.libs),
                    seq()
                ));
            } else if let (Outcome::Err(e1), Outcome::Err(e2)) = (&fresh[target], &out) {
                if e1 != e2 && res.err_text_divergences.len() < 3 {
                    res.err_text_divergences.push(format!(
                        "graph {gid}: fresh: Err({e1}); after history {prefix:?}: Err({e2}); program:\n{}",
                        indent(&t.graph.progs[target].src)
                    ));
                }
            }
            if let Some(prog) = &prog {
                if let Err(e) = exec_check(prog) {
                    res.failures.push(format!(
                        "graph {gid} ({}): program assembled after {} earlier compilation(s) does not run: {e}\n{}{}",
                        t.order_desc,
                        prefix.len(),
                        describe_graph(&t.libs),
                        seq()
                    ));
                }
            }
            if res.failures.len() > 200 {
                return res;
            }
        }
    }
    res
}

fn part3(n_graphs: usize) -> bool {
    let mut rep = Report::new("part3");
    let mut tasks: Vec<(usize, Part3Task)> = Vec::new();
    let mut references: Vec<Mutex<Vec<Option<String>>>> = Vec::new();
    for id in 0..n_graphs {
        let g = gen_graph(id);
        references.push(Mutex::new(vec![None; g.progs.len()]));
        let idxs: Vec<usize> = (0..g.libs.len()).collect();
        for (k, perm) in permutations(&idxs).into_iter().enumerate() {
            for rev in [false, true] {
                // module order inside the libraries: as generated, or reversed (only once, for the
                // first library order, to bound the run time)
                if rev && k != 0 {
                    continue;
                }
                let libs: Vec<LibSrc> = perm
                    .iter()
                    .map(|&i| {
                        let mut l = g.libs[i].clone();
                        if rev {
                            l.modules.reverse();
                        }
                        l
                    })
                    .collect();
                let order_desc = format!(
                    "libraries added in order {:?}{}",
                    libs.iter().map(|l| l.ns.as_str()).collect::<Vec<_>>(),
                    if rev { ", modules reversed" } else { "" }
                );
                tasks.push((id, Part3Task { graph: g.clone(), libs, order_desc }));
            }
        }
    }

    let next = AtomicUsize::new(0);
    let results: Mutex<Vec<(usize, Part3Result)>> = Mutex::new(Vec::new());
    let n_threads = std::thread::available_parallelism().map(|n| n.get()).unwrap_or(4).min(8);
    std::thread::scope(|s| {
        for _ in 0..n_threads {
            s.spawn(|| loop {
                let k = next.fetch_add(1, Ordering::SeqCst);
                if k >= tasks.len() {
                    break;
                }
                let (id, t) = &tasks[k];
                let r = run_part3_task(t, &references[*id]);
                results.lock().unwrap().push((k, r));
            });
        }
    });
    let mut results = results.into_inner().unwrap();
    results.sort_by_key(|(k, _)| *k);
    let mut compilations = 0;
    let mut divergences = Vec::new();
    for (_, r) in results {
        rep.checks += r.checks;
        compilations += r.compilations;
        rep.failures.extend(r.failures);
        divergences.extend(r.err_text_divergences);
    }
    println!(
        "[part3] {} library graphs, {} (graph, library order) combinations, {} compilations",
        n_graphs,
        tasks.len(),
        compilations
    );
    if !divergences.is_empty() {
        println!(
            "[part3] INFO (not part of the verdict): the error TEXT of a rejected program depends on the history, e.g.\n    {}",
            divergences[0].replace('\n', "\n    ")
        );
    }
    rep.finish()
}

// ================================================================================================
// EXTRA: probes of the unchanged code, reported but NOT part of the verdict
// ================================================================================================

fn extra() {
    println!("[extra] probes below are informational and excluded from the verdict");

    // X1: a module whose re-exports are processed before one of its own procedures fails
    {
        let bad = "use.lib::aux\nexport.aux::f->rf\nexport.b\n    push.1\n    loc_load.0\n    drop\nend\n";
        let lib = parse_lib(&lib_with(vec![("lib::bad", bad.into())])[0]).unwrap();
        let prog = "use.lib::bad\nbegin\n    push.7 drop\n    exec.bad::rf\nend\n";
        let r = guarded(|| {
            let a = build_assembler(&[&lib], None, false).unwrap();
            let first = a.compile(prog).map(|p| hex(p.hash().into())).map_err(|e| e.to_string());
            let second = a.compile(prog).map(|p| hex(p.hash().into())).map_err(|e| e.to_string());
            (first, second)
        });
        match r {
            Ok((first, second)) => {
                let same = first.is_ok() == second.is_ok();
                println!(
                    "[extra] X1 same program compiled twice on one assembler, module with a re-export and an invalid procedure: 1st = {}, 2nd = {} => {}",
                    first.as_ref().map(|_| "Ok").unwrap_or("Err"),
                    second.as_ref().map(|_| "Ok").unwrap_or("Err"),
                    if same { "consistent" } else { "HISTORY DEPENDENT (unchanged code)" }
                );
                if !same {
                    println!("FAILCASE x1 :: re-export alias of a module that fails to compile stays in the procedure cache: 1st compilation {:?}, 2nd {:?} | module lib::bad: {} | program: {}", first, second, bad.replace('\n', " / "), prog.replace('\n', " / "));
                    println!("        module lib::bad:\n{}\n        program:\n{}", indent(bad), indent(prog));
                    println!("        1st: {first:?}\n        2nd: {second:?}");
                }
            }
            Err(p) => println!("[extra] X1 panicked: {p}"),
        }
    }

    // X2: two procedures with the same MAST root but different call sets (procref vs. literal push)
    {
        let r = guarded(|| -> Result<String, String> {
            let tgt_root = Assembler::default()
                .compile("begin\n    push.77 drop\nend\n")
                .map_err(|e| e.to_string())?
                .hash();
            let elems: Vec<String> =
                tgt_root.as_elements().iter().map(|e| e.as_int().to_string()).collect();
            let t = "export.tgt\n    push.77 drop\nend\n".to_string();
            let a1 = "use.lib::t\nexport.viaref\n    procref.t::tgt\n    dynexec\n    dropw\nend\n".to_string();
            let a2 = format!("export.viapush\n    push.{}\n    dynexec\n    dropw\nend\n", elems.join("."));
            let libs = lib_with(vec![("lib::t", t), ("lib::a1", a1), ("lib::a2", a2.clone())]);
            let lib = parse_lib(&libs[0])?;
            let prog_a = "use.lib::a1\nbegin\n    push.7 drop\n    exec.a1::viaref\nend\n";
            let prog_b = "use.lib::a2\nbegin\n    push.7 drop\n    exec.a2::viapush\nend\n";
            let fresh = build_assembler(&[&lib], None, false)?;
            let pa = fresh.compile(prog_a).map_err(|e| e.to_string())?;
            let fresh_run = exec_check(&pa);
            let shared = build_assembler(&[&lib], None, false)?;
            let _ = shared.compile(prog_b);
            let pa2 = shared.compile(prog_a).map_err(|e| e.to_string())?;
            let shared_run = exec_check(&pa2);
            Ok(format!(
                "fresh: root {}.. runs: {:?}; after compiling the literal-push twin first: root {}.. runs: {:?} => {}\n        module lib::a2:\n{}",
                &hex(pa.hash().into())[..16],
                fresh_run,
                &hex(pa2.hash().into())[..16],
                shared_run,
                if fresh_run.is_ok() == shared_run.is_ok() { "consistent" } else { "HISTORY DEPENDENT (unchanged code)" },
                indent(&a2)
            ))
        });
        match r {
            Ok(Ok(m)) => {
                if m.contains("HISTORY DEPENDENT") {
                    println!("FAILCASE x2 :: same MAST root cached with a different call set: {}", m.replace('\n', " | "));
                }
                println!("[extra] X2 same MAST root cached with a different call set: {m}")
            }
            other => println!("[extra] X2 could not be evaluated: {other:?}"),
        }
    }
}

// ================================================================================================
// MAIN
// ================================================================================================

fn main() {
    install_panic_hook();
    let n_graphs: usize = std::env::args().nth(1).and_then(|s| s.parse().ok()).unwrap_or(24);
    let ok1 = part1();
    let ok2 = part2();
    let ok3 = part3(n_graphs);
    extra();
    println!("SUMMARY graphs={} parts_ok={}{}{}", n_graphs, ok1 as u8, ok2 as u8, ok3 as u8);
    if ok1 && ok2 && ok3 {
        println!("PASS");
    } else {
        println!("FAIL");
        std::process::exit(1);
    }
}
