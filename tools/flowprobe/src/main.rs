//! flowprobe: bounded stand-in `flow_reference` for C06 (adapted from the demo written by the independent mutation
//! sub-agent for C06: reference interpreter of a MASM subset written from the docs, generated nestings; the size of
//! the random group is taken from RANDOM_COUNT; machine-readable FAILCASE / SUMMARY lines added).
//! C06 demonstration: control flow and procedure inlining follow the documented semantics.
//!
//! This program contains
//!   * an INDEPENDENT reference interpreter for a small MASM subset (written from
//!     docs/src/user_docs/assembly/flow_control.md, code_organization.md and io_operations.md; it
//!     interprets the source-level AST directly and knows nothing about MAST, spans, joins, fmp...),
//!   * a generator of many programs (systematic shape grids + seeded random programs),
//!   * a driver which runs every program through the real assembler + processor and compares the
//!     final stack (all elements) and success / failure with the reference, and additionally
//!     compares every program with the same program in which `exec` calls to procedures without
//!     locals are replaced by the textual body of the procedure (exec-vs-inline equivalence).
//!
//! Exit code 0 and a final line `PASS` if nothing deviates, exit code 1 and `FAIL` otherwise.

use std::collections::{HashMap, VecDeque};
use std::panic::{catch_unwind, AssertUnwindSafe};

use assembly::{ast::ModuleAst, Assembler, LibraryNamespace, LibraryPath, MaslLibrary, Module, Version};
use processor::{
    AdviceInputs, DefaultHost, ExecutionOptions, MemAdviceProvider, Program, StackInputs,
};

/// Modulus of the Miden base field.
const P: u64 = 0xFFFF_FFFF_0000_0001;

// SOURCE LEVEL AST
// ================================================================================================

#[derive(Clone, Debug, PartialEq)]
enum Op {
    Push(u64),
    Add,
    Mul,
    AddImm(u64),
    MulImm(u64),
    Drop,
    Dup(u8),
    Swap,
    MemLoad(u32),
    MemStore(u32),
    LocLoad(u16),
    LocStore(u16),
    AdvPush,
}

#[derive(Clone, Debug, PartialEq)]
enum Target {
    Local(String),
    Imported { alias: String, name: String },
}

#[derive(Clone, Debug, PartialEq)]
enum Node {
    Op(Op),
    /// if.true <then> [else <else>] end; `None` means that there is no `else` keyword at all,
    /// `Some(vec![])` is an explicit but empty else branch.
    If(Vec<Node>, Option<Vec<Node>>),
    While(Vec<Node>),
    Repeat(u32, Vec<Node>),
    Exec(Target),
}

#[derive(Clone, Debug)]
struct Proc {
    name: String,
    export: bool,
    locals: u16,
    body: Vec<Node>,
}

/// (module path, alias)
type Import = (String, String);

#[derive(Clone, Debug)]
struct ModuleDef {
    path: String,
    imports: Vec<Import>,
    procs: Vec<Proc>,
}

#[derive(Clone, Debug)]
struct ProgramDef {
    imports: Vec<Import>,
    procs: Vec<Proc>,
    body: Vec<Node>,
}

// PRINTER (AST -> MASM text)
// ================================================================================================

fn print_op(op: &Op) -> String {
    match op {
        Op::Push(v) => format!("push.{v}"),
        Op::Add => "add".into(),
        Op::Mul => "mul".into(),
        Op::AddImm(v) => format!("add.{v}"),
        Op::MulImm(v) => format!("mul.{v}"),
        Op::Drop => "drop".into(),
        Op::Dup(n) => format!("dup.{n}"),
        Op::Swap => "swap".into(),
        Op::MemLoad(a) => format!("mem_load.{a}"),
        Op::MemStore(a) => format!("mem_store.{a}"),
        Op::LocLoad(i) => format!("loc_load.{i}"),
        Op::LocStore(i) => format!("loc_store.{i}"),
        Op::AdvPush => "adv_push.1".into(),
    }
}

fn print_body(nodes: &[Node], ind: usize, out: &mut String) {
    let pad = "    ".repeat(ind);
    let mut line = String::new();
    let flush = |line: &mut String, out: &mut String| {
        if !line.is_empty() {
            out.push_str(&pad);
            out.push_str(line.trim_end());
            out.push('\n');
            line.clear();
        }
    };
    for n in nodes {
        match n {
            Node::Op(op) => {
                line.push_str(&print_op(op));
                line.push(' ');
            }
            Node::Exec(Target::Local(name)) => {
                line.push_str(&format!("exec.{name} "));
            }
            Node::Exec(Target::Imported { alias, name }) => {
                line.push_str(&format!("exec.{alias}::{name} "));
            }
            Node::If(t, e) => {
                flush(&mut line, out);
                out.push_str(&format!("{pad}if.true\n"));
                print_body(t, ind + 1, out);
                if let Some(e) = e {
                    out.push_str(&format!("{pad}else\n"));
                    print_body(e, ind + 1, out);
                }
                out.push_str(&format!("{pad}end\n"));
            }
            Node::While(b) => {
                flush(&mut line, out);
                out.push_str(&format!("{pad}while.true\n"));
                print_body(b, ind + 1, out);
                out.push_str(&format!("{pad}end\n"));
            }
            Node::Repeat(k, b) => {
                flush(&mut line, out);
                out.push_str(&format!("{pad}repeat.{k}\n"));
                print_body(b, ind + 1, out);
                out.push_str(&format!("{pad}end\n"));
            }
        }
    }
    flush(&mut line, out);
}

fn print_imports(imports: &[Import], out: &mut String) {
    for (path, alias) in imports {
        let last = path.rsplit("::").next().unwrap();
        if last == alias {
            out.push_str(&format!("use.{path}\n"));
        } else {
            out.push_str(&format!("use.{path}->{alias}\n"));
        }
    }
}

fn print_procs(procs: &[Proc], out: &mut String) {
    for p in procs {
        let kw = if p.export { "export" } else { "proc" };
        if p.locals > 0 {
            out.push_str(&format!("{kw}.{}.{}\n", p.name, p.locals));
        } else {
            out.push_str(&format!("{kw}.{}\n", p.name));
        }
        print_body(&p.body, 1, out);
        out.push_str("end\n");
    }
}

fn print_module(m: &ModuleDef) -> String {
    let mut out = String::new();
    print_imports(&m.imports, &mut out);
    print_procs(&m.procs, &mut out);
    out
}

fn print_program(p: &ProgramDef) -> String {
    let mut out = String::new();
    print_imports(&p.imports, &mut out);
    print_procs(&p.procs, &mut out);
    out.push_str("begin\n");
    print_body(&p.body, 1, &mut out);
    out.push_str("end\n");
    out
}

// REFERENCE INTERPRETER
// ================================================================================================
//
// Semantics implemented here (from the documentation):
//  * the operand stack has at least 16 elements, missing elements are zeros;
//  * if.true pops the top; 1 -> then-branch, 0 -> else-branch (nothing if absent), otherwise the
//    execution fails;
//  * while.true pops the top; 1 -> body, after the body the stack is popped again (1 -> body again,
//    0 -> exit, otherwise fail); 0 -> skip; otherwise fail;
//  * repeat.n is n copies of its body;
//  * exec.f behaves as the body of f, executed with a fresh frame of `num_locals` locals which is
//    private to this activation of f;
//  * exec.m::f resolves `m` through the `use` statements of the module which contains the exec and
//    `f` among the procedures exported from that module.

struct World {
    modules: Vec<ModuleDef>,
}

#[derive(Clone, Copy)]
struct Scope<'a> {
    procs: &'a [Proc],
    /// only procs[..visible] can be invoked from the current body
    visible: usize,
    imports: &'a [Import],
}

#[derive(Debug, Clone, PartialEq)]
enum Halt {
    /// execution fails according to the documentation
    Fail(String),
    /// step budget exhausted (program is skipped)
    Budget,
    /// the program relies on something the documentation does not define (program is skipped)
    Undefined(String),
}

struct Machine<'w> {
    world: &'w World,
    /// operand stack, top is the LAST element; always at least 16 elements
    stack: Vec<u64>,
    mem: HashMap<u32, u64>,
    adv: VecDeque<u64>,
    steps: u64,
    budget: u64,
}

fn fadd(a: u64, b: u64) -> u64 {
    ((a as u128 + b as u128) % P as u128) as u64
}
fn fmul(a: u64, b: u64) -> u64 {
    ((a as u128 * b as u128) % P as u128) as u64
}

impl<'w> Machine<'w> {
    fn new(world: &'w World, init_top_first: &[u64], adv: &[u64], budget: u64) -> Self {
        let mut stack: Vec<u64> = init_top_first.iter().rev().cloned().collect();
        while stack.len() < 16 {
            stack.insert(0, 0);
        }
        Machine {
            world,
            stack,
            mem: HashMap::new(),
            adv: adv.iter().cloned().collect(),
            steps: 0,
            budget,
        }
    }

    fn tick(&mut self) -> Result<(), Halt> {
        self.steps += 1;
        if self.steps > self.budget {
            Err(Halt::Budget)
        } else {
            Ok(())
        }
    }

    fn push(&mut self, v: u64) {
        self.stack.push(v % P);
    }

    /// Removes the top element. Within one instruction the stack may temporarily get shallower
    /// than 16 elements (the missing elements are zeros); `normalize()` is called after every
    /// instruction / decision to bring the depth back to at least 16.
    fn pop(&mut self) -> u64 {
        self.stack.pop().unwrap_or(0)
    }

    fn normalize(&mut self) {
        while self.stack.len() < 16 {
            self.stack.insert(0, 0);
        }
    }

    fn op(&mut self, op: &Op, frame: &mut [Option<u64>]) -> Result<(), Halt> {
        let r = self.op_inner(op, frame);
        self.normalize();
        r
    }

    fn op_inner(&mut self, op: &Op, frame: &mut [Option<u64>]) -> Result<(), Halt> {
        match op {
            Op::Push(v) => self.push(*v),
            Op::Add => {
                let b = self.pop();
                let a = self.pop();
                self.push(fadd(a, b));
            }
            Op::Mul => {
                let b = self.pop();
                let a = self.pop();
                self.push(fmul(a, b));
            }
            Op::AddImm(k) => {
                let a = self.pop();
                self.push(fadd(a, *k % P));
            }
            Op::MulImm(k) => {
                let a = self.pop();
                self.push(fmul(a, *k % P));
            }
            Op::Drop => {
                self.pop();
            }
            Op::Dup(n) => {
                let v = self.stack[self.stack.len() - 1 - *n as usize];
                self.push(v);
            }
            Op::Swap => {
                let b = self.pop();
                let a = self.pop();
                self.push(b);
                self.push(a);
            }
            Op::MemLoad(a) => {
                let v = *self.mem.get(a).unwrap_or(&0);
                self.push(v);
            }
            Op::MemStore(a) => {
                let v = self.pop();
                self.mem.insert(*a, v);
            }
            Op::LocLoad(i) => match frame.get(*i as usize) {
                Some(Some(v)) => {
                    let v = *v;
                    self.push(v)
                }
                Some(None) => {
                    return Err(Halt::Undefined(format!("read of local {i} before it is written")))
                }
                None => return Err(Halt::Undefined(format!("local index {i} out of range"))),
            },
            Op::LocStore(i) => {
                let v = self.pop();
                match frame.get_mut(*i as usize) {
                    Some(slot) => *slot = Some(v),
                    None => return Err(Halt::Undefined(format!("local index {i} out of range"))),
                }
            }
            Op::AdvPush => match self.adv.pop_front() {
                Some(v) => self.push(v),
                None => return Err(Halt::Fail("advice stack is empty".into())),
            },
        }
        Ok(())
    }

    fn resolve<'a>(&self, t: &Target, scope: Scope<'a>) -> Result<(&'a Proc, Scope<'a>), Halt>
    where
        'w: 'a,
    {
        match t {
            Target::Local(name) => {
                for j in 0..scope.visible {
                    if &scope.procs[j].name == name {
                        return Ok((
                            &scope.procs[j],
                            Scope { procs: scope.procs, visible: j, imports: scope.imports },
                        ));
                    }
                }
                Err(Halt::Undefined(format!("local procedure {name} is not defined before use")))
            }
            Target::Imported { alias, name } => {
                let path = scope
                    .imports
                    .iter()
                    .find(|(_, a)| a == alias)
                    .map(|(p, _)| p)
                    .ok_or_else(|| Halt::Undefined(format!("module alias {alias} not imported")))?;
                let world: &'w World = self.world;
                let module = world
                    .modules
                    .iter()
                    .find(|m| &m.path == path)
                    .ok_or_else(|| Halt::Undefined(format!("module {path} does not exist")))?;
                for (j, p) in module.procs.iter().enumerate() {
                    if p.export && &p.name == name {
                        return Ok((
                            p,
                            Scope { procs: &module.procs, visible: j, imports: &module.imports },
                        ));
                    }
                }
                Err(Halt::Undefined(format!("{path}::{name} is not exported")))
            }
        }
    }

    fn run(&mut self, body: &[Node], scope: Scope<'_>, frame: &mut [Option<u64>]) -> Result<(), Halt> {
        for n in body {
            self.tick()?;
            match n {
                Node::Op(op) => self.op(op, frame)?,
                Node::If(t, e) => {
                    let c = self.pop();
                    self.normalize();
                    if c == 1 {
                        self.run(t, scope, frame)?;
                    } else if c == 0 {
                        if let Some(e) = e {
                            self.run(e, scope, frame)?;
                        }
                    } else {
                        return Err(Halt::Fail(format!("if.true on non-binary value {c}")));
                    }
                }
                Node::While(b) => loop {
                    let c = self.pop();
                    self.normalize();
                    if c == 1 {
                        self.tick()?;
                        self.run(b, scope, frame)?;
                    } else if c == 0 {
                        break;
                    } else {
                        return Err(Halt::Fail(format!("while.true on non-binary value {c}")));
                    }
                },
                Node::Repeat(k, b) => {
                    for _ in 0..*k {
                        self.tick()?;
                        self.run(b, scope, frame)?;
                    }
                }
                Node::Exec(t) => {
                    let (proc, inner) = self.resolve(t, scope)?;
                    let mut fresh: Vec<Option<u64>> = vec![None; proc.locals as usize];
                    self.run(&proc.body, inner, &mut fresh)?;
                }
            }
        }
        Ok(())
    }
}

/// Result of the reference: final stack (top first, >= 16 elements) or a halt reason.
fn reference(world: &World, prog: &ProgramDef, init: &[u64], adv: &[u64]) -> Result<Vec<u64>, Halt> {
    let mut m = Machine::new(world, init, adv, 6_000);
    let scope = Scope { procs: &prog.procs, visible: prog.procs.len(), imports: &prog.imports };
    let mut no_locals: Vec<Option<u64>> = Vec::new();
    m.run(&prog.body, scope, &mut no_locals)?;
    Ok(m.stack.iter().rev().cloned().collect())
}

// EXEC -> TEXTUAL INLINING
// ================================================================================================

/// A procedure is "pure" if neither it nor anything it (transitively) execs has locals.
fn is_pure(world: &World, proc: &Proc, scope: Scope<'_>) -> bool {
    if proc.locals != 0 {
        return false;
    }
    body_pure(world, &proc.body, scope)
}

fn lookup<'a>(world: &'a World, t: &Target, scope: Scope<'a>) -> Option<(&'a Proc, Scope<'a>)> {
    match t {
        Target::Local(name) => (0..scope.visible).find(|&j| &scope.procs[j].name == name).map(|j| {
            (&scope.procs[j], Scope { procs: scope.procs, visible: j, imports: scope.imports })
        }),
        Target::Imported { alias, name } => {
            let path = &scope.imports.iter().find(|(_, a)| a == alias)?.0;
            let module = world.modules.iter().find(|m| &m.path == path)?;
            let j = module.procs.iter().position(|p| p.export && &p.name == name)?;
            Some((
                &module.procs[j],
                Scope { procs: &module.procs, visible: j, imports: &module.imports },
            ))
        }
    }
}

fn body_pure(world: &World, body: &[Node], scope: Scope<'_>) -> bool {
    body.iter().all(|n| match n {
        Node::Op(_) => true,
        Node::If(t, e) => {
            body_pure(world, t, scope) && e.as_ref().map_or(true, |e| body_pure(world, e, scope))
        }
        Node::While(b) | Node::Repeat(_, b) => body_pure(world, b, scope),
        Node::Exec(t) => match lookup(world, t, scope) {
            Some((p, s)) => is_pure(world, p, s),
            None => false,
        },
    })
}

/// Replaces every exec of a pure procedure by the (recursively inlined) body of the procedure.
/// Returns the new body and the number of replaced exec instructions.
fn inline_body(world: &World, body: &[Node], scope: Scope<'_>, count: &mut usize) -> Vec<Node> {
    let mut out = Vec::new();
    for n in body {
        match n {
            Node::Op(_) => out.push(n.clone()),
            Node::If(t, e) => out.push(Node::If(
                inline_body(world, t, scope, count),
                e.as_ref().map(|e| inline_body(world, e, scope, count)),
            )),
            Node::While(b) => out.push(Node::While(inline_body(world, b, scope, count))),
            Node::Repeat(k, b) => out.push(Node::Repeat(*k, inline_body(world, b, scope, count))),
            Node::Exec(t) => match lookup(world, t, scope) {
                Some((p, s)) if is_pure(world, p, s) => {
                    *count += 1;
                    out.extend(inline_body(world, &p.body, s, count));
                }
                _ => out.push(n.clone()),
            },
        }
    }
    out
}

fn inline_program(world: &World, prog: &ProgramDef) -> Option<ProgramDef> {
    let mut count = 0;
    let scope = Scope { procs: &prog.procs, visible: prog.procs.len(), imports: &prog.imports };
    let body = inline_body(world, &prog.body, scope, &mut count);
    // local procedures which are kept (they have locals) are inlined inside as well
    let mut procs = Vec::new();
    for (j, p) in prog.procs.iter().enumerate() {
        let s = Scope { procs: &prog.procs, visible: j, imports: &prog.imports };
        let mut p2 = p.clone();
        p2.body = inline_body(world, &p.body, s, &mut count);
        procs.push(p2);
    }
    if count == 0 {
        return None;
    }
    Some(ProgramDef { imports: prog.imports.clone(), procs, body })
}

// RNG
// ================================================================================================

struct Rng(u64);
impl Rng {
    fn next(&mut self) -> u64 {
        // splitmix64
        self.0 = self.0.wrapping_add(0x9E37_79B9_7F4A_7C15);
        let mut z = self.0;
        z = (z ^ (z >> 30)).wrapping_mul(0xBF58_476D_1CE4_E5B9);
        z = (z ^ (z >> 27)).wrapping_mul(0x94D0_49BB_1331_11EB);
        z ^ (z >> 31)
    }
    fn below(&mut self, n: u64) -> u64 {
        self.next() % n
    }
    fn pct(&mut self, p: u64) -> bool {
        self.below(100) < p
    }
}

// SKELETONS AND THEIR INSTANTIATION
// ================================================================================================

/// Shape of a program; markers, conditions, locals prologues etc. are filled in by the builder.
#[derive(Clone, Debug)]
enum Sk {
    /// a span of plain instructions (a "marker")
    S,
    /// if without else
    I(Vec<Sk>),
    /// if with else
    E(Vec<Sk>, Vec<Sk>),
    W(Vec<Sk>),
    R(u32, Vec<Sk>),
    /// exec of a fresh local procedure with the given number of locals and the given body
    X(u16, Vec<Sk>),
    /// exec of an imported procedure
    Xi(&'static str, &'static str),
}

#[derive(Clone, Copy, PartialEq, Debug)]
enum CondMode {
    /// every decision is preceded by adv_push.1
    Adv,
    /// decisions consume whatever is on the stack (control blocks become adjacent), markers are
    /// stack neutral
    Stack,
    /// random mix of the two and of literal pushes, markers of all kinds
    Mixed,
}

const LOCAL_NAMES: [&str; 8] = ["foo", "bar", "helper", "sel", "lp", "baz", "qux", "main2"];

struct Builder {
    rng: Rng,
    next_id: u64,
    mode: CondMode,
    procs: Vec<Proc>,
}

impl Builder {
    fn new(seed: u64, mode: CondMode) -> Self {
        Builder { rng: Rng(seed), next_id: 2, mode, procs: Vec::new() }
    }

    fn id(&mut self) -> u64 {
        self.next_id += 1;
        self.next_id
    }

    fn acc_marker(&mut self) -> Vec<Node> {
        let id = self.id();
        vec![
            Node::Op(Op::MemLoad(0)),
            Node::Op(Op::MulImm(31)),
            Node::Op(Op::AddImm(id)),
            Node::Op(Op::MemStore(0)),
        ]
    }

    fn marker(&mut self) -> Vec<Node> {
        if self.mode != CondMode::Mixed {
            return self.acc_marker();
        }
        match self.rng.below(100) {
            0..=54 => self.acc_marker(),
            55..=69 => {
                let id = if self.rng.pct(30) { self.rng.below(2) } else { self.id() };
                vec![Node::Op(Op::Push(id))]
            }
            70..=79 => {
                let id = self.id();
                vec![Node::Op(Op::MulImm(3)), Node::Op(Op::AddImm(id))]
            }
            80..=84 => vec![Node::Op(Op::Drop)],
            85..=89 => vec![Node::Op(Op::Swap)],
            90..=94 => vec![Node::Op(Op::Dup(1))],
            _ => vec![Node::Op(Op::Add)],
        }
    }

    /// instructions which put the condition for the next decision onto the stack
    fn cond(&mut self, loop_continuation: bool) -> Vec<Node> {
        match self.mode {
            CondMode::Adv => vec![Node::Op(Op::AdvPush)],
            CondMode::Stack => vec![],
            CondMode::Mixed => match self.rng.below(100) {
                0..=49 => vec![Node::Op(Op::AdvPush)],
                50..=74 => vec![],
                _ => {
                    let v = match self.rng.below(10) {
                        0..=3 => 0,
                        4..=7 => 1,
                        8 => 2,
                        _ => P - 1,
                    };
                    // a literal 1 as loop continuation never terminates
                    let v = if loop_continuation && v == 1 { 0 } else { v };
                    vec![Node::Op(Op::Push(v))]
                }
            },
        }
    }

    fn build(&mut self, sk: &[Sk]) -> Vec<Node> {
        let mut out = Vec::new();
        for s in sk {
            match s {
                Sk::S => out.extend(self.marker()),
                Sk::I(t) => {
                    out.extend(self.cond(false));
                    let t = self.build(t);
                    out.push(Node::If(t, None));
                }
                Sk::E(t, e) => {
                    out.extend(self.cond(false));
                    let t = self.build(t);
                    let e = self.build(e);
                    out.push(Node::If(t, Some(e)));
                }
                Sk::W(b) => {
                    out.extend(self.cond(false));
                    let mut b = self.build(b);
                    b.extend(self.cond(true));
                    out.push(Node::While(b));
                }
                Sk::R(k, b) => {
                    let b = self.build(b);
                    out.push(Node::Repeat(*k, b));
                }
                Sk::X(locals, b) => {
                    let inner = self.build(b);
                    let body = self.wrap_locals(*locals, inner);
                    let idx = self.procs.len();
                    let name = if idx < LOCAL_NAMES.len() {
                        LOCAL_NAMES[idx].to_string()
                    } else {
                        format!("p{idx}")
                    };
                    self.procs.push(Proc { name: name.clone(), export: false, locals: *locals, body });
                    out.push(Node::Exec(Target::Local(name)));
                }
                Sk::Xi(alias, name) => {
                    if imported_needs_cond(alias, name) {
                        out.extend(self.cond(false));
                    }
                    out.push(Node::Exec(Target::Imported {
                        alias: alias.to_string(),
                        name: name.to_string(),
                    }));
                }
            }
        }
        out
    }

    /// Procedure body which first writes all of its locals, then runs `inner`, then reads all of
    /// its locals back (either onto the stack or folded into the accumulator at mem[0]).
    fn wrap_locals(&mut self, locals: u16, inner: Vec<Node>) -> Vec<Node> {
        if locals == 0 {
            return inner;
        }
        let tag = self.id();
        let mut body = Vec::new();
        let mut order: Vec<u16> = (0..locals).collect();
        if self.rng.pct(50) {
            order.reverse();
        }
        for &i in &order {
            body.push(Node::Op(Op::Push(tag * 100 + i as u64 + 7)));
            body.push(Node::Op(Op::LocStore(i)));
        }
        // sometimes the prologue is separated from the inner body by nothing at all, so that the
        // inner body's first block directly follows
        body.extend(inner);
        let on_stack = self.mode == CondMode::Mixed && self.rng.pct(40);
        for i in 0..locals {
            body.push(Node::Op(Op::LocLoad(i)));
            if !on_stack {
                body.push(Node::Op(Op::MemLoad(0)));
                body.push(Node::Op(Op::MulImm(31)));
                body.push(Node::Op(Op::Add));
                body.push(Node::Op(Op::MemStore(0)));
            }
        }
        body
    }

    fn finish(mut self, sk: &[Sk]) -> ProgramDef {
        let mut body = self.build(sk);
        // expose the accumulator
        body.push(Node::Op(Op::MemLoad(0)));
        ProgramDef { imports: default_imports(), procs: self.procs, body }
    }
}

fn default_imports() -> Vec<Import> {
    vec![
        ("lib::a".to_string(), "a".to_string()),
        ("lib::b".to_string(), "b".to_string()),
        ("lib::c::a".to_string(), "ca".to_string()),
    ]
}

fn imported_needs_cond(alias: &str, name: &str) -> bool {
    name == "sel" || (name == "lp" && alias == "a")
}

// THE LIBRARY (modules with colliding procedure names)
// ================================================================================================

fn m(id: u64) -> Vec<Node> {
    vec![
        Node::Op(Op::MemLoad(0)),
        Node::Op(Op::MulImm(31)),
        Node::Op(Op::AddImm(id)),
        Node::Op(Op::MemStore(0)),
    ]
}

fn with_locals(tag: u64, locals: u16, inner: Vec<Node>) -> Vec<Node> {
    let mut body = Vec::new();
    for i in 0..locals {
        body.push(Node::Op(Op::Push(tag * 100 + i as u64)));
        body.push(Node::Op(Op::LocStore(i)));
    }
    body.extend(inner);
    for i in (0..locals).rev() {
        body.push(Node::Op(Op::LocLoad(i)));
        body.push(Node::Op(Op::MemLoad(0)));
        body.push(Node::Op(Op::MulImm(31)));
        body.push(Node::Op(Op::Add));
        body.push(Node::Op(Op::MemStore(0)));
    }
    body
}

fn cat(parts: Vec<Vec<Node>>) -> Vec<Node> {
    parts.into_iter().flatten().collect()
}

fn exl(name: &str) -> Vec<Node> {
    vec![Node::Exec(Target::Local(name.to_string()))]
}
fn exi(alias: &str, name: &str) -> Vec<Node> {
    vec![Node::Exec(Target::Imported { alias: alias.to_string(), name: name.to_string() })]
}

fn proc(name: &str, export: bool, locals: u16, body: Vec<Node>) -> Proc {
    Proc { name: name.to_string(), export, locals, body }
}

fn build_world() -> World {
    let a = ModuleDef {
        path: "lib::a".into(),
        imports: vec![],
        procs: vec![
            proc("helper", false, 0, m(901)),
            proc("foo", true, 0, cat(vec![m(902), exl("helper")])),
            proc("bar", true, 2, with_locals(903, 2, cat(vec![exl("foo"), m(904)]))),
            proc("sel", true, 0, vec![Node::If(m(905), Some(m(906)))]),
            proc(
                "lp",
                true,
                0,
                vec![Node::While(cat(vec![m(907), vec![Node::Op(Op::AdvPush)]]))],
            ),
        ],
    };
    let b = ModuleDef {
        path: "lib::b".into(),
        imports: vec![],
        procs: vec![
            proc("pad0", false, 0, m(911)),
            proc("helper", false, 1, with_locals(912, 1, m(913))),
            proc("bar", true, 0, m(914)),
            proc("foo", true, 3, with_locals(915, 3, cat(vec![exl("helper"), exl("pad0"), m(916)]))),
            proc("sel", true, 0, vec![Node::If(m(917), None)]),
            proc("lp", true, 0, vec![Node::Repeat(2, m(918))]),
        ],
    };
    let ca = ModuleDef {
        path: "lib::c::a".into(),
        imports: vec![("lib::a".into(), "a".into()), ("lib::b".into(), "bb".into())],
        procs: vec![
            proc("helper", false, 0, cat(vec![m(921), exi("a", "foo")])),
            proc(
                "foo",
                true,
                1,
                with_locals(922, 1, cat(vec![exl("helper"), exi("bb", "foo"), m(923)])),
            ),
            proc("bar", true, 0, cat(vec![exi("a", "bar"), exl("foo"), m(924)])),
            proc("sel", true, 0, vec![Node::If(vec![], Some(m(925)))]),
            proc(
                "lp",
                true,
                0,
                vec![
                    Node::Op(Op::AdvPush),
                    Node::While(vec![
                        Node::Op(Op::AdvPush),
                        Node::If(m(926), None),
                        Node::Op(Op::AdvPush),
                    ]),
                ],
            ),
        ],
    };
    World { modules: vec![a, b, ca] }
}

fn build_library(world: &World) -> MaslLibrary {
    let ns = LibraryNamespace::new("lib").unwrap();
    let mut modules = Vec::new();
    for md in &world.modules {
        let src = print_module(md);
        let ast = ModuleAst::parse(&src).unwrap_or_else(|e| panic!("library module {} does not parse: {e}\n{src}", md.path));
        let path = LibraryPath::new(&md.path).unwrap();
        modules.push(Module::new(path, ast));
    }
    MaslLibrary::new(ns, Version::MIN, false, modules, vec![]).unwrap()
}

// REAL VM
// ================================================================================================

#[derive(Debug, Clone, PartialEq)]
enum Real {
    AsmErr(String),
    ExecErr(String),
    Panic(String),
    Ok(Vec<u64>),
}

fn compile(lib: &MaslLibrary, src: &str) -> Result<Program, Real> {
    let r = catch_unwind(AssertUnwindSafe(|| {
        let asm = Assembler::default().with_library(lib).map_err(|e| format!("{e}"))?;
        asm.compile(src).map_err(|e| format!("{e}"))
    }));
    match r {
        Ok(Ok(p)) => Ok(p),
        Ok(Err(e)) => Err(Real::AsmErr(e)),
        Err(_) => Err(Real::Panic("assembler panicked".into())),
    }
}

fn execute(program: &Program, init_top_first: &[u64], adv: &[u64]) -> Real {
    let r = catch_unwind(AssertUnwindSafe(|| {
        let stack_inputs =
            StackInputs::try_from_values(init_top_first.iter().rev().cloned()).unwrap();
        let advice = AdviceInputs::default().with_stack_values(adv.iter().cloned()).unwrap();
        let host = DefaultHost::new(MemAdviceProvider::from(advice));
        let options = ExecutionOptions::new(Some(1 << 17), 64, false).unwrap();
        match processor::execute(program, stack_inputs, host, options) {
            Ok(trace) => Real::Ok(trace.stack_outputs().stack().to_vec()),
            Err(e) => Real::ExecErr(format!("{e}")),
        }
    }));
    match r {
        Ok(r) => r,
        Err(_) => Real::Panic("processor panicked".into()),
    }
}

// INPUT GENERATION
// ================================================================================================

fn cond_value(rng: &mut Rng, profile: u64) -> u64 {
    match profile % 4 {
        // mostly ones
        0 => match rng.below(10) {
            0..=6 => 1,
            _ => 0,
        },
        // fair bits
        1 => rng.below(2),
        // bits with some non-binary values
        2 => match rng.below(20) {
            0..=8 => 0,
            9..=16 => 1,
            17 => 2,
            18 => P - 1,
            _ => 3 + rng.below(5),
        },
        // mostly zeros
        _ => match rng.below(10) {
            0..=6 => 0,
            7..=8 => 1,
            _ => 2,
        },
    }
}

fn gen_inputs(rng: &mut Rng, profile: u64) -> (Vec<u64>, Vec<u64>) {
    let init: Vec<u64> = (0..16).map(|_| cond_value(rng, profile)).collect();
    let mut adv: Vec<u64> = (0..40).map(|_| cond_value(rng, profile)).collect();
    // single non-binary value at a random decision point for the otherwise binary profiles
    if profile % 8 == 5 {
        let k = rng.below(12) as usize;
        adv[k] = if rng.pct(50) { 2 } else { P - 1 };
    }
    adv.extend(std::iter::repeat(0).take(64));
    (init, adv)
}

// PROGRAM GENERATION
// ================================================================================================

fn seqs<T: Clone>(alphabet: &[T], max_len: usize) -> Vec<Vec<T>> {
    let mut all: Vec<Vec<T>> = vec![vec![]];
    let mut frontier: Vec<Vec<T>> = vec![vec![]];
    for _ in 0..max_len {
        let mut next = Vec::new();
        for s in &frontier {
            for a in alphabet {
                let mut t = s.clone();
                t.push(a.clone());
                next.push(t);
            }
        }
        all.extend(next.iter().cloned());
        frontier = next;
    }
    all
}

fn rand_sk(rng: &mut Rng, depth: u32, max_len: u64) -> Vec<Sk> {
    let len = rng.below(max_len + 1);
    let mut out = Vec::new();
    for _ in 0..len {
        if depth == 0 {
            out.push(Sk::S);
            continue;
        }
        let inner_len = 3;
        let item = match rng.below(100) {
            0..=29 => Sk::S,
            30..=41 => Sk::I(rand_sk(rng, depth - 1, inner_len)),
            42..=53 => Sk::E(rand_sk(rng, depth - 1, inner_len), rand_sk(rng, depth - 1, inner_len)),
            54..=65 => Sk::W(rand_sk(rng, depth - 1, inner_len)),
            66..=75 => Sk::R(1 + rng.below(3) as u32, rand_sk(rng, depth - 1, inner_len)),
            76..=91 => {
                let locals = [0, 0, 0, 1, 2, 3, 4][rng.below(7) as usize];
                Sk::X(locals, rand_sk(rng, depth - 1, inner_len))
            }
            _ => {
                let alias = ["a", "b", "ca"][rng.below(3) as usize];
                let name = ["foo", "bar", "sel", "lp"][rng.below(4) as usize];
                Sk::Xi(alias, name)
            }
        };
        out.push(item);
    }
    out
}

struct Case {
    group: &'static str,
    mode: CondMode,
    sk: Vec<Sk>,
}

fn generate_cases() -> Vec<Case> {
    let mut cases = Vec::new();

    // ---- group 1: systematic nestings, depth 3 ----------------------------------------------
    // leaf-level control blocks (depth 3) have a single span or nothing inside
    let leaf: Vec<Sk> = vec![
        Sk::S,
        Sk::I(vec![Sk::S]),
        Sk::E(vec![Sk::S], vec![Sk::S]),
        Sk::W(vec![Sk::S]),
        Sk::R(2, vec![Sk::S]),
        Sk::X(0, vec![Sk::S]),
    ];
    let mut inner_bodies = seqs(&leaf, 2); // 43 bodies of 0..2 blocks
    inner_bodies.push(vec![Sk::I(vec![])]);
    inner_bodies.push(vec![Sk::E(vec![], vec![Sk::S])]);
    inner_bodies.push(vec![Sk::E(vec![Sk::S], vec![])]);
    inner_bodies.push(vec![Sk::W(vec![])]);
    inner_bodies.push(vec![Sk::R(3, vec![])]);
    inner_bodies.push(vec![Sk::X(1, vec![])]);
    inner_bodies.push(vec![Sk::S, Sk::W(vec![Sk::S]), Sk::S]);
    inner_bodies.push(vec![Sk::I(vec![Sk::S]), Sk::S, Sk::I(vec![Sk::S])]);
    inner_bodies.push(vec![Sk::R(2, vec![Sk::S]), Sk::W(vec![Sk::S]), Sk::X(2, vec![Sk::S])]);

    let n_inner = inner_bodies.len();
    let outer_kinds = 6usize; // S I E W R X
    let make_outer = |kind: usize, j: usize, pos: usize| -> Sk {
        let body = inner_bodies[j % n_inner].clone();
        let alt = inner_bodies[(j * 7 + 3 + pos) % n_inner].clone();
        match kind {
            0 => Sk::S,
            1 => Sk::I(body),
            2 => Sk::E(body, alt),
            3 => Sk::W(body),
            4 => Sk::R(2 + (j % 2) as u32, body),
            _ => Sk::X(((j + pos) % 5) as u16, body),
        }
    };
    let kinds: Vec<usize> = (0..outer_kinds).collect();
    for outer in seqs(&kinds, 3) {
        if outer.iter().all(|&k| k == 0) && !outer.is_empty() {
            continue; // only spans
        }
        // all inner bodies for short outer sequences, a rotating sample for length 3
        let (start, step) = if outer.len() <= 2 { (0, 1) } else { (outer.iter().sum::<usize>() % 5, 5) };
        let mut j = start;
        while j < n_inner {
            for mode in [CondMode::Adv, CondMode::Stack] {
                let sk: Vec<Sk> =
                    outer.iter().enumerate().map(|(pos, &k)| make_outer(k, j, pos)).collect();
                cases.push(Case { group: "nest", mode, sk });
            }
            j += step;
            if outer.is_empty() {
                break;
            }
        }
    }

    // ---- group 2: block counts 1..9 ---------------------------------------------------------
    let ctl: Vec<(&'static str, Box<dyn Fn(usize) -> Sk>)> = vec![
        ("I", Box::new(|_| Sk::I(vec![Sk::S]))),
        ("E", Box::new(|_| Sk::E(vec![Sk::S], vec![Sk::S]))),
        ("Ee", Box::new(|_| Sk::E(vec![Sk::S], vec![]))),
        ("Et", Box::new(|_| Sk::E(vec![], vec![Sk::S]))),
        ("W", Box::new(|_| Sk::W(vec![Sk::S]))),
        ("R", Box::new(|i| Sk::R(1 + (i % 3) as u32, vec![Sk::S]))),
        ("Rc", Box::new(|_| Sk::R(2, vec![Sk::I(vec![Sk::S])]))),
        ("X0", Box::new(|_| Sk::X(0, vec![Sk::S]))),
        ("X2", Box::new(|i| Sk::X(1 + (i % 4) as u16, vec![Sk::S]))),
        ("Xc", Box::new(|_| Sk::X(0, vec![Sk::W(vec![Sk::S])]))),
        ("Xi", Box::new(|i| Sk::Xi(["a", "b", "ca"][i % 3], ["foo", "bar"][i % 2]))),
    ];
    for n in 1..=9usize {
        for (_, mk) in &ctl {
            for pattern in 0..6 {
                let sk: Vec<Sk> = (0..n)
                    .map(|i| {
                        let is_ctl = match pattern {
                            0 => true,               // only control blocks
                            1 => i % 2 == 1,         // S C S C ...
                            2 => i % 2 == 0,         // C S C S ...
                            3 => i == 0,             // control block first
                            4 => i == n - 1,         // control block last
                            _ => i == n / 2,         // control block in the middle
                        };
                        if is_ctl {
                            mk(i)
                        } else if pattern >= 3 && i % 2 == 1 {
                            // spans are merged by the assembler; break them up with a different
                            // control kind so that the number of blocks really is n
                            Sk::R(1, vec![Sk::I(vec![])])
                        } else {
                            Sk::S
                        }
                    })
                    .collect();
                for mode in [CondMode::Adv, CondMode::Stack] {
                    cases.push(Case { group: "count", mode, sk: sk.clone() });
                    // the same sequence as a loop body, a branch and a procedure body
                    cases.push(Case { group: "count", mode, sk: vec![Sk::W(sk.clone())] });
                    cases.push(Case { group: "count", mode, sk: vec![Sk::E(sk.clone(), sk.clone())] });
                    cases.push(Case {
                        group: "count",
                        mode,
                        sk: vec![Sk::S, Sk::X((n % 3) as u16, sk.clone())],
                    });
                }
            }
        }
    }

    // ---- group 3: nested procedures with 0..4 locals, three deep ------------------------------
    for l1 in 0..=4u16 {
        for l2 in 0..=4u16 {
            for l3 in 0..=4u16 {
                for shape in 0..8 {
                    let p3 = Sk::X(l3, vec![Sk::S]);
                    let p2_body = match shape {
                        0 => vec![p3],
                        1 => vec![Sk::S, p3, Sk::S],
                        2 => vec![Sk::I(vec![p3])],
                        3 => vec![Sk::E(vec![Sk::S], vec![p3]), Sk::S],
                        4 => vec![Sk::W(vec![p3])],
                        5 => vec![Sk::R(2, vec![p3])],
                        6 => vec![p3, Sk::I(vec![Sk::S])],
                        _ => vec![Sk::S, Sk::W(vec![Sk::S, p3]), Sk::Xi("b", "foo")],
                    };
                    let p2 = Sk::X(l2, p2_body);
                    let p1_body = match shape % 4 {
                        0 => vec![p2],
                        1 => vec![p2.clone(), p2],
                        2 => vec![Sk::S, Sk::I(vec![p2]), Sk::S],
                        _ => vec![Sk::R(2, vec![p2]), Sk::Xi("ca", "foo")],
                    };
                    let sk = vec![Sk::S, Sk::X(l1, p1_body), Sk::S];
                    let mode = if shape % 2 == 0 { CondMode::Adv } else { CondMode::Mixed };
                    cases.push(Case { group: "locals", mode, sk });
                }
            }
        }
    }

    // ---- group 4: imported procedures with colliding names ----------------------------------
    let imported: Vec<(&'static str, &'static str)> = ["a", "b", "ca"]
        .iter()
        .flat_map(|a| ["foo", "bar", "sel", "lp"].iter().map(move |n| (*a, *n)))
        .collect();
    for (i, &(a1, n1)) in imported.iter().enumerate() {
        for (j, &(a2, n2)) in imported.iter().enumerate() {
            let x1 = Sk::Xi(a1, n1);
            let x2 = Sk::Xi(a2, n2);
            let variants: Vec<Vec<Sk>> = vec![
                vec![x1.clone(), x2.clone()],
                vec![Sk::S, x1.clone(), Sk::S, x2.clone(), Sk::S],
                // local procedures named foo / bar / helper which exec the imported ones
                vec![Sk::X(0, vec![x1.clone()]), Sk::X(((i + j) % 3) as u16, vec![x2.clone(), Sk::S])],
                vec![Sk::E(vec![x1.clone()], vec![x2.clone()]), Sk::W(vec![x2.clone()])],
            ];
            for (k, sk) in variants.into_iter().enumerate() {
                let mode = if k % 2 == 0 { CondMode::Adv } else { CondMode::Stack };
                cases.push(Case { group: "import", mode, sk });
            }
        }
    }

    // ---- group 5: seeded random programs, depth up to 4 ---------------------------------------
    let mut rng = Rng(0xC06);
    let random_count: u64 = std::env::var("RANDOM_COUNT").ok().and_then(|s| s.parse().ok()).unwrap_or(24_000);
    for i in 0..random_count {
        let depth = 1 + (i % 4) as u32;
        let top_len = [3, 5, 9][(i % 3) as usize];
        let sk = rand_sk(&mut rng, depth, top_len);
        let mode = match i % 5 {
            0 => CondMode::Adv,
            1 => CondMode::Stack,
            _ => CondMode::Mixed,
        };
        cases.push(Case { group: "random", mode, sk });
    }

    cases
}


// PROBES OF THE UNCHANGED CODE (reported, never part of the verdict)
// ================================================================================================

/// Runs a handful of hand written programs which are outside of what the documentation defines
/// (or outside of the generated subset) and prints what the assembler / processor do with them.
/// The output is informational only.
fn probes(lib: &MaslLibrary) {
    let probes: Vec<(&str, &str)> = vec![
        (
            "two imports with the same module name (lib::a and lib::c::a, no alias)",
            "use.lib::a\nuse.lib::c::a\nbegin exec.a::foo mem_load.0 end",
        ),
        (
            "same as above, imports in the other order",
            "use.lib::c::a\nuse.lib::a\nbegin exec.a::foo mem_load.0 end",
        ),
        (
            "alias equal to the name of another imported module (lib::b->a and lib::a)",
            "use.lib::b->a\nuse.lib::a\nbegin exec.a::bar mem_load.0 end",
        ),
        ("repeat.0 (documentation: count must be greater than 0)", "begin push.7 repeat.0 push.9 end end"),
        ("if.true whose only instruction is a decorator", "begin push.1 if.true debug.stack end push.5 end"),
        ("procedure with locals and an empty body", "proc.foo.3 end begin push.5 exec.foo end"),
    ];
    println!("---- probes (informational, excluded from the verdict) ----");
    for (what, src) in probes {
        let outcome = match compile(lib, src) {
            Ok(p) => match execute(&p, &[], &[]) {
                Real::Ok(s) => format!("runs, top of final stack = {:?}", &s[..4]),
                other => format!("{other:?}"),
            },
            Err(e) => format!("{e:?}"),
        };
        println!("probe: {what}\n       source : {}\n       outcome: {outcome}", src.replace('\n', " | "));
    }
    // the same decorator-only branch with the assembler in debug mode
    let src = "begin push.1 if.true debug.stack end push.5 end";
    let r = catch_unwind(AssertUnwindSafe(|| {
        Assembler::default().with_debug_mode(true).compile(src).map(|_| ()).map_err(|e| format!("{e}"))
    }));
    let outcome = match r {
        Ok(Ok(())) => "assembles".to_string(),
        Ok(Err(e)) => format!("assembly error: {e}"),
        Err(_) => "ASSEMBLER PANICKED".to_string(),
    };
    println!("probe: decorator-only branch, assembler in debug mode\n       source : {src}\n       outcome: {outcome}");
    println!("-----------------------------------------------------------");
}

// DRIVER
// ================================================================================================

fn verdict(expected: &Result<Vec<u64>, Halt>, real: &Real) -> bool {
    match (expected, real) {
        (Ok(e), Real::Ok(r)) => e == r,
        (Err(Halt::Fail(_)), Real::ExecErr(_)) => true,
        _ => false,
    }
}

#[derive(Default)]
struct Stats {
    programs: usize,
    executions: usize,
    skipped_budget: usize,
    skipped_undefined: usize,
    ok_runs: usize,
    fail_runs: usize,
    inline_programs: usize,
    inline_executions: usize,
    mismatches: usize,
    inline_mismatches: usize,
}

fn main() {
    std::panic::set_hook(Box::new(|_| {}));
    let max_reports: usize =
        std::env::var("MAX_REPORTS").ok().and_then(|s| s.parse().ok()).unwrap_or(6);

    let world = build_world();
    let lib = build_library(&world);

    // sanity check of the orientation of inputs / outputs
    {
        let p = compile(&lib, "begin push.5 push.7 end").expect("sanity program must compile");
        let r = execute(&p, &[11, 12], &[]);
        match r {
            Real::Ok(s) => assert_eq!(&s[..4], &[7, 5, 11, 12], "unexpected stack orientation"),
            other => panic!("sanity program failed: {other:?}"),
        }
    }

    probes(&lib);
    if std::env::var("PROBES_ONLY").is_ok() {
        return;
    }

    let cases = generate_cases();
    println!("generated {} programs", cases.len());

    let mut stats = Stats::default();
    let mut per_group: HashMap<&'static str, (usize, usize)> = HashMap::new();
    let mut reports = 0usize;
    let mut input_rng = Rng(0x5EED);

    for (idx, case) in cases.iter().enumerate() {
        let builder = Builder::new(0xABCD_0000 + idx as u64, case.mode);
        let prog = builder.finish(&case.sk);
        let src = print_program(&prog);
        stats.programs += 1;
        let entry = per_group.entry(case.group).or_insert((0, 0));
        entry.0 += 1;

        let inlined = inline_program(&world, &prog);
        let inlined_src = inlined.as_ref().map(print_program);

        let compiled = compile(&lib, &src);
        let compiled_inl = inlined_src.as_ref().map(|s| compile(&lib, s));
        if inlined.is_some() {
            stats.inline_programs += 1;
        }

        let n_inputs = match case.group {
            "random" => 5,
            "locals" => 3,
            _ => 6,
        };
        let mut program_failed = false;
        for k in 0..n_inputs {
            let profile = (idx as u64).wrapping_mul(3) + k;
            let (init, adv) = gen_inputs(&mut input_rng, profile);

            let expected = reference(&world, &prog, &init, &adv);
            match &expected {
                Err(Halt::Budget) => {
                    stats.skipped_budget += 1;
                    continue;
                }
                Err(Halt::Undefined(why)) => {
                    stats.skipped_undefined += 1;
                    if stats.skipped_undefined <= 3 {
                        println!("note: program skipped, reference undefined: {why}\n{src}");
                    }
                    continue;
                }
                Ok(_) => stats.ok_runs += 1,
                Err(Halt::Fail(_)) => stats.fail_runs += 1,
            }

            // the reference must not be able to tell the inlined program from the original
            if let Some(inl) = &inlined {
                let e2 = reference(&world, inl, &init, &adv);
                let same = match (&expected, &e2) {
                    (Ok(a), Ok(b)) => a == b,
                    (Err(Halt::Fail(_)), Err(Halt::Fail(_))) => true,
                    (_, Err(Halt::Budget)) => true,
                    _ => false,
                };
                assert!(same, "BUG IN THE DEMO: reference distinguishes inlined program\n{src}");
            }

            let real = match &compiled {
                Ok(p) => execute(p, &init, &adv),
                Err(e) => e.clone(),
            };
            stats.executions += 1;
            let ok = verdict(&expected, &real);
            if !ok {
                stats.mismatches += 1;
                program_failed = true;
                if reports < max_reports {
                    reports += 1;
                    println!("--------------------------------------------------------------");
                    println!("MISMATCH (vm vs reference) in program #{idx} [group {}, {:?}]", case.group, case.mode);
                    println!("FAILCASE vm-vs-reference group={} :: {} :: inputs={:?} advice={:?} :: reference={:?} :: vm={:?}", case.group, src.replace('\n', " ").split_whitespace().collect::<Vec<_>>().join(" "), init, &adv[..8], expected, real);
                    println!("{src}");
                    println!("stack inputs (top first): {init:?}");
                    println!("advice stack            : {:?}", &adv[..40]);
                    println!("reference: {expected:?}");
                    println!("real vm  : {real:?}");
                }
            }

            if let Some(ci) = &compiled_inl {
                let real_inl = match ci {
                    Ok(p) => execute(p, &init, &adv),
                    Err(e) => e.clone(),
                };
                stats.inline_executions += 1;
                let same = match (&real, &real_inl) {
                    (Real::Ok(a), Real::Ok(b)) => a == b,
                    (Real::ExecErr(_), Real::ExecErr(_)) => true,
                    _ => false,
                };
                if !same {
                    stats.inline_mismatches += 1;
                    program_failed = true;
                    if reports < max_reports {
                        reports += 1;
                        println!("--------------------------------------------------------------");
                        println!("MISMATCH (exec vs textual inlining) in program #{idx} [group {}, {:?}]", case.group, case.mode);
                        println!("FAILCASE exec-vs-inline group={} :: {} :: inputs={:?} advice={:?} :: vm-exec={:?} :: vm-inlined={:?}", case.group, src.replace('\n', " ").split_whitespace().collect::<Vec<_>>().join(" "), init, &adv[..8], real, real_inl);
                        println!("--- with exec:\n{src}");
                        println!("--- inlined:\n{}", inlined_src.as_ref().unwrap());
                        println!("stack inputs (top first): {init:?}");
                        println!("advice stack            : {:?}", &adv[..40]);
                        println!("reference     : {expected:?}");
                        println!("vm with exec  : {real:?}");
                        println!("vm inlined    : {real_inl:?}");
                    }
                }
            }
        }
        if program_failed {
            per_group.get_mut(case.group).unwrap().1 += 1;
        }
    }

    println!("==============================================================");
    println!("programs generated              : {}", stats.programs);
    println!("executions compared             : {}", stats.executions);
    println!("  reference succeeded           : {}", stats.ok_runs);
    println!("  reference failed (documented) : {}", stats.fail_runs);
    println!("  skipped (step budget)         : {}", stats.skipped_budget);
    println!("  skipped (undefined)           : {}", stats.skipped_undefined);
    println!("programs with inlined twin      : {}", stats.inline_programs);
    println!("exec-vs-inline executions       : {}", stats.inline_executions);
    let mut groups: Vec<_> = per_group.iter().collect();
    groups.sort();
    for (g, (n, bad)) in groups {
        println!("  group {g:7}: {n:6} programs, {bad:6} deviating");
    }
    println!("vm vs reference mismatches      : {}", stats.mismatches);
    println!("exec vs inline mismatches       : {}", stats.inline_mismatches);
    println!("SUMMARY programs={} executions={} inline_executions={} mismatches={} inline_mismatches={}", stats.programs, stats.executions, stats.inline_executions, stats.mismatches, stats.inline_mismatches);
    if stats.mismatches == 0 && stats.inline_mismatches == 0 {
        println!("PASS");
    } else {
        println!("FAIL");
        std::process::exit(1);
    }
}
