// Included into rules.rs.
//
// classify() is consulted ONLY for substitutions that no transition constraint caught. It returns
//   (Some(reason), _)  the cell is not an enforced cell: the documentation assigns it to a bus /
//                      multiset argument, the advice provider or the decoder, or explicitly leaves
//                      it to the prover; this AIR version implements none of those buses
//   (_, Some(reason))  the documentation (or the design) would want the cell pinned, but the
//                      UNCHANGED code already leaves it free; reported separately, not part of the
//                      verdict
//   (None, None)       an enforced cell was altered and nothing noticed  ==> FAIL

use miden_air::trace::decoder::{IS_CALL_FLAG_COL_IDX, IS_SYSCALL_FLAG_COL_IDX};
use miden_air::trace::{
    chiplets::{MEMORY_D0_COL_IDX, MEMORY_D1_COL_IDX, MEMORY_D_INV_COL_IDX},
    DECODER_TRACE_OFFSET,
};

const X_CTX: &str = "sys.ctx': execution-context switches are tied to CALL/SYSCALL/END through the decoder's block stack table (virtual table p1, docs/src/design/decoder/main.md); no transition constraint is documented for it";
const X_FMP: &str = "sys.fmp' on operations other than FMPUPDATE: docs/src/design/main.md + stack/system_ops.md define fmp constraints for FMPADD / FMPUPDATE only (save / restore across calls goes through the block stack table)";
const X_H0: &str = "stack.h0 at depth 16: docs/src/design/stack/main.md - 'the prover can set h0 to any value' when b0 = 16";
const X_B1: &str = "stack.b1' on operations that do not shift right: docs/src/design/stack/main.md pins b1' directly only on right shifts; on left shifts it comes from the overflow table (virtual table p1), on no-shift operations no constraint is documented";
const X_B0_END: &str = "stack.b0' on the END of a CALL / SYSCALL block: depth is restored from the block stack table (virtual table p1, docs/src/design/decoder/main.md; TODO in air/src/constraints/stack/overflow/mod.rs)";
const X_S15: &str = "stack.s15' on a left shift with a non-empty overflow table: taken from the overflow table (virtual table p1, docs/src/design/stack/main.md 'Left shift')";
const X_HELPER_UNUSED: &str = "u32 helper register not used by this operation (docs/src/design/stack/u32_ops.md)";
const X_HELPER_M: &str = "u32 helper m of the element-validity check when v_lo = 0: docs/src/design/stack/u32_ops.md - the constraint holds for any m if v_lo = 0";
const X_ADVICE: &str = "value supplied by the advice provider (ADVPOP / ADVPOPW: docs/src/design/stack/io_ops.md)";
const X_PUSH: &str = "PUSH immediate: comes from the decoder's op group table (virtual table p3, docs/src/design/decoder/main.md)";
const X_MEMBUS: &str = "value read from memory: tied to the memory chiplet by the chiplets bus b_chip (docs/src/design/stack/io_ops.md)";
const X_BITBUS: &str = "U32AND / U32XOR result: tied to the bitwise chiplet by the chiplets bus b_chip (docs/src/design/stack/u32_ops.md)";
const X_HASHBUS: &str = "HPERM / MRUPDATE result: tied to the hasher chiplet by the chiplets bus b_chip (docs/src/design/stack/crypto_ops.md)";
const P_OOS: &str = "stack position after CALLER / DYN / SYSCALL / MSTREAM / PIPE / FRIE2F4 / RCOMBBASE which no bus supplies: these operations are outside the operation classes this AIR version enforces directly (no crypto_ops constraints, io_ops has SDEPTH only, SYSCALL / DYN / CALLER are missing from the composite no-shift flags)";

const X_KERNEL: &str = "kernel ROM / padding rows of the chiplets trace: no constraints in this AIR version (docs/src/design/chiplets/kernel_rom.md: chiplets bus + virtual table)";
const X_PADCOL: &str = "unused padding column of the bitwise / memory chiplet";
const X_SEL_SWITCH: &str = "chiplets selector switched 0 -> 1 one row early: docs/src/design/chiplets/main.md only requires selectors to be binary and to change 0 -> 1";
const X_HS0: &str = "hasher.s0 inside a cycle / at the start of a new computation: docs/src/design/chiplets/hasher.md - 's0 should be unconstrained' except after ABP / MPA / MVA / MUA; the transition label is tied to the request by the chiplets bus";
const X_HS2: &str = "hasher.s2 on an output row (HOUT vs SOUT): copy constraint is switched off by f_out'; the label is tied to the request by the chiplets bus (docs/src/design/chiplets/hasher.md)";
const X_HNEW: &str = "hasher state / node index on the first row of a new computation: docs/src/design/chiplets/hasher.md - 'when a computation is completed the next hasher state is unconstrained', 'we should be able to set i to an arbitrary value'; inputs are tied to the request by the chiplets bus";
const X_HRATE: &str = "hasher rate elements absorbed on ABP: tied to the request by the chiplets bus (v_abp, docs/src/design/chiplets/hasher.md)";
const X_HSIB: &str = "sibling half of the hasher state after MPA / MVA / MUA: supplied non-deterministically, tied by the sibling table (virtual table p1) / chiplets bus (docs/src/design/chiplets/hasher.md)";
const P_HCAP: &str = "hasher capacity h0..h3 on the row after MPA / MVA / MUA: neither docs/src/design/chiplets/hasher.md nor the code constrains it (only the digest copy is enforced)";
const X_MBUS: &str = "memory ctx / addr / clk / s0 / written value where the row starts a new context or address: tied to the requesting operation by the chiplets bus b_chip (docs/src/design/chiplets/memory.md: clk is ordered only within one ctx/addr)";
const X_MWRITE: &str = "memory v0..v3 of a write: tied to the requesting operation by the chiplets bus b_chip (docs/src/design/chiplets/memory.md)";
const X_MDINV: &str = "memory d_inv' when neither ctx nor addr changes: every documented constraint uses it only through n0 = dctx * t' and n1 = daddr * t', both 0 here (docs/src/design/chiplets/memory.md)";
const X_MALT: &str = "substituted ctx' / addr' forms another VALID transition (context change / address change / same address with the same delta d0', d1' and a consistent d_inv'): accepted by design, the actual value is tied to the request by the chiplets bus";
const P_MFIRST: &str = "first row of the memory chiplet: no memory constraint covers it (memory_flag is built from the CURRENT row's selectors), so s1 / d0 / d1 / d_inv are free there";
const P_MLAST: &str = "last row of the memory chiplet: memory_flag contains (1 - s2'), so 's0 (1 - s1) v_i = 0' is not applied to it and the value of a first read is free there";
const X_RM_LAST: &str = "range.m on the last constrained row: its outgoing row pair is exempt (ProcessorAir sets 2 transition exemptions)";
const X_RV_ALT: &str = "range.v': substituted value with a legal delta and multiplicity 0 (or on the exempt last row) - another valid range-checker table (docs/src/design/range.md: only the deltas are constrained)";
const X_ROW0: &str = "cell of trace row 0: pinned by a boundary assertion / supplied by the bus, there is no preceding row pair";

pub fn print_exclusions() {
    println!("== cells excluded from the enumeration verdict (not enforced by transition constraints of this AIR version)");
    println!("   not enumerated at all: decoder columns (docs/src/design/decoder/main.md - no decoder constraints in this AIR), sys.in_syscall / sys.fn_hash,");
    println!("   auxiliary columns other than b_range (decoder p1-p3, stack overflow p1, chiplets bus b_chip, chiplets virtual table - not implemented in evaluate_aux_transition),");
    println!("   kernel ROM / padding rows of the chiplets trace.");
    println!("   enumerated, and excused only if NO constraint fires:");
    for x in [
        X_CTX, X_FMP, X_H0, X_B1, X_B0_END, X_S15, X_HELPER_UNUSED, X_HELPER_M, X_ADVICE, X_PUSH, X_MEMBUS,
        X_BITBUS, X_HASHBUS, X_KERNEL, X_PADCOL, X_SEL_SWITCH, X_HS0, X_HS2, X_HNEW, X_HRATE, X_HSIB,
        X_MBUS, X_MWRITE, X_MDINV, X_MALT, X_RM_LAST, X_RV_ALT, X_ROW0,
    ] {
        println!("     - {x}");
    }
    println!("   cells the UNCHANGED code leaves free (reported separately with first row / cell):");
    for x in [P_OOS, P_HCAP, P_MFIRST, P_MLAST] {
        println!("     - {x}");
    }
    println!("   rule for chiplet / range-checker cells: a substitution must be caught as the NEXT row of the pair (r-1, r); for columns with");
    println!("   documented single-row constraints (selectors, bit columns, memory v on a first read, hasher i, range m / v) being caught as the");
    println!("   CURRENT row of the pair (r, r+1) also counts. Stack / system cells must be caught in their own row pair.");
}

fn is_left_shift(f: &FrameInfo) -> bool {
    let op = f.opcode;
    (32..48).contains(&op)
        || op == 76
        || op == 78
        || op == 84
        || op == 85
        || op == 116
        || op == 88
        || (op == 112 && f.cur[DECODER_TRACE_OFFSET + miden_air::trace::decoder::IS_LOOP_FLAG_COL_IDX].as_int() == 1)
}

fn is_right_shift(op: u8) -> bool {
    (48..64).contains(&op) || op == 100 || op == 72
}

fn range_delta_ok(d: u64) -> bool {
    matches!(d, 0 | 1 | 3 | 9 | 27 | 81 | 243 | 729 | 2187)
}

pub fn classify(
    f: &FrameInfo,
    cell: &Cell,
    honest: Felt,
    wrong: Felt,
) -> (Option<&'static str>, Option<&'static str>) {
    let ex = |s: &'static str| (Some(s), None);
    let pre = |s: &'static str| (None, Some(s));
    let none = (None, None);
    let col = cell.col;
    let op = f.opcode;
    let _ = honest;

    // ---- system ----
    if col == CTX_COL_IDX {
        return ex(X_CTX);
    }
    if col == FMP_COL_IDX {
        return if op != 47 { ex(X_FMP) } else { none };
    }
    // ---- stack bookkeeping ----
    if col == H0_COL_IDX {
        return if f.depth == 16 { ex(X_H0) } else { none };
    }
    if col == B1_COL_IDX {
        return if !is_right_shift(op) { ex(X_B1) } else { none };
    }
    if col == B0_COL_IDX {
        let call_end = f.cur[DECODER_TRACE_OFFSET + IS_CALL_FLAG_COL_IDX].as_int() == 1
            || f.cur[DECODER_TRACE_OFFSET + IS_SYSCALL_FLAG_COL_IDX].as_int() == 1;
        return if op == 112 && call_end { ex(X_B0_END) } else { none };
    }
    // ---- u32 helpers ----
    if (DECODER_USER_OP_HELPERS_OFFSET..DECODER_USER_OP_HELPERS_OFFSET + 6).contains(&col) {
        let i = col - DECODER_USER_OP_HELPERS_OFFSET;
        if i == 5 {
            return ex(X_HELPER_UNUSED);
        }
        if i == 4 {
            if matches!(op, 64 | 66 | 70 | 74 | 76) {
                return ex(X_HELPER_UNUSED);
            }
            let h0 = f.cur[DECODER_USER_OP_HELPERS_OFFSET].as_int();
            let h1 = f.cur[DECODER_USER_OP_HELPERS_OFFSET + 1].as_int();
            if matches!(op, 68 | 72 | 78) && h0 == 0 && h1 == 0 {
                return ex(X_HELPER_M);
            }
        }
        return none;
    }
    // ---- stack positions ----
    if (STACK_TRACE_OFFSET..STACK_TRACE_OFFSET + 16).contains(&col) {
        let i = col - STACK_TRACE_OFFSET;
        if i == 15 && is_left_shift(f) && f.depth > 16 {
            return ex(X_S15);
        }
        match op {
            61 if i == 0 => return ex(X_ADVICE),
            14 if i < 4 => return ex(X_ADVICE),
            100 if i == 0 => return ex(X_PUSH),
            7 if i == 0 => return ex(X_MEMBUS),
            44 if i < 4 => return ex(X_MEMBUS),
            83 | 82 if i < 8 => return ex(X_MEMBUS),
            38 | 39 if i == 0 => return ex(X_BITBUS),
            80 if i < 12 => return ex(X_HASHBUS),
            96 if i < 4 => return ex(X_HASHBUS),
            9 | 88 | 104 | 83 | 82 | 40 | 89 => return pre(P_OOS),
            _ => return none,
        }
    }
    // ---- range checker ----
    if col == M_COL_IDX {
        if cell.side == Side::Cur {
            return none;
        }
        return if f.last_frame { ex(X_RM_LAST) } else { none };
    }
    if col == V_COL_IDX {
        if cell.side == Side::Cur {
            return if f.row == 0 { ex(X_ROW0) } else { none };
        }
        let d = (wrong - f.cur[V_COL_IDX]).as_int();
        let m_next = f.next[M_COL_IDX].as_int();
        return if range_delta_ok(d) && (m_next == 0 || f.last_frame) { ex(X_RV_ALT) } else { none };
    }
    // ---- chiplets ----
    if (CHIPLETS_OFFSET..CHIPLETS_OFFSET + CHIPLETS_WIDTH).contains(&col) {
        let k = col - CHIPLETS_OFFSET;
        let (chip, own) = match cell.side {
            Side::Cur => (f.chip_cur, f.cur),
            Side::Next => (f.chip_next, f.next),
        };
        let c = |r: &[Felt], k: usize| r[CHIPLETS_OFFSET + k].as_int();
        match chip {
            Chip::Other => {
                return if k >= 3 { ex(X_KERNEL) } else { none };
            }
            Chip::Bitwise => {
                if k >= 15 {
                    return ex(X_PADCOL);
                }
                if k == 1 && wrong.as_int() == 1 && cell.side == Side::Next {
                    return ex(X_SEL_SWITCH);
                }
                return none;
            }
            Chip::Hasher => {
                if cell.side == Side::Cur {
                    // trace row 0: first row of the first computation
                    return if k == 1 || k >= 4 { ex(X_ROW0) } else { none };
                }
                if f.chip_cur != Chip::Hasher {
                    return none;
                }
                let p = (f.chip_row_cur + 1) % 8; // cycle position of the NEXT row
                let (cs0, cs1, cs2) = (c(f.cur, 1), c(f.cur, 2), c(f.cur, 3));
                let cur_is_out = p == 0 && cs0 == 0 && cs1 == 0;
                if k == 1 {
                    return if p != 0 || cur_is_out { ex(X_HS0) } else { none };
                }
                if k == 3 {
                    let out_next = p == 7 && c(f.next, 1) == 0 && c(f.next, 2) == 0;
                    return if out_next { ex(X_HS2) } else { none };
                }
                if k == 16 {
                    return if cur_is_out { ex(X_HNEW) } else { none };
                }
                if (4..16).contains(&k) && p == 0 {
                    let j = k - 4;
                    if cur_is_out {
                        return ex(X_HNEW);
                    }
                    if (cs0, cs1, cs2) == (1, 0, 0) {
                        return if j >= 4 { ex(X_HRATE) } else { none };
                    }
                    if cs0 == 1 {
                        // MPA / MVA / MUA
                        let i_cur = f.cur[CHIPLETS_OFFSET + 16];
                        let i_next = f.next[CHIPLETS_OFFSET + 16];
                        let b = (i_cur - i_next - i_next).as_int();
                        if j < 4 {
                            return pre(P_HCAP);
                        }
                        if (j < 8 && b == 1) || (j >= 8 && b == 0) {
                            return ex(X_HSIB);
                        }
                    }
                }
                return none;
            }
            Chip::Memory => {
                if k >= 15 {
                    return ex(X_PADCOL);
                }
                if cell.side == Side::Cur {
                    return none;
                }
                let write_next = c(own, 3) == 0;
                if f.chip_cur != Chip::Memory {
                    // first row of the memory chiplet
                    return match k {
                        3 | 5 | 6 | 7 => ex(X_MBUS),
                        8..=11 if write_next => ex(X_MWRITE),
                        8..=11 if f.next_is_last_of_chip => pre(P_MLAST),
                        4 | 12 | 13 | 14 => pre(P_MFIRST),
                        _ => none,
                    };
                }
                let dctx = f.next[MEMORY_CTX_COL_IDX] - f.cur[MEMORY_CTX_COL_IDX];
                let daddr = f.next[MEMORY_ADDR_COL_IDX] - f.cur[MEMORY_ADDR_COL_IDX];
                let changed = dctx != Felt::new(0) || daddr != Felt::new(0);
                let t = f.next[MEMORY_D_INV_COL_IDX];
                let delta = f.next[MEMORY_D1_COL_IDX] * Felt::new(65536) + f.next[MEMORY_D0_COL_IDX];
                let one = Felt::new(1);
                match k {
                    7 if changed => return ex(X_MBUS),
                    6 if dctx != Felt::new(0) => return ex(X_MBUS),
                    3 if changed => return ex(X_MBUS),
                    8..=11 if write_next => return ex(X_MWRITE),
                    8..=11 if c(own, 4) == 0 && f.next_is_last_of_chip => return pre(P_MLAST),
                    14 if !changed => return ex(X_MDINV),
                    5 | 6 => {
                        // does the substituted row pair form another valid transition?
                        let dc = if k == 5 { wrong - f.cur[MEMORY_CTX_COL_IDX] } else { dctx };
                        let da = if k == 6 { wrong - f.cur[MEMORY_ADDR_COL_IDX] } else { daddr };
                        let dclk = f.next[MEMORY_CLK_COL_IDX] - f.cur[MEMORY_CLK_COL_IDX] - one;
                        let zero = Felt::new(0);
                        let n0 = dc * t;
                        let n1 = da * t;
                        let valid = if dc != zero {
                            n0 == one && dc == delta
                        } else if da != zero {
                            n1 == one && da == delta
                        } else {
                            dclk == delta
                        };
                        // s1' = 0 is required unless it is a read of the same ctx/addr
                        let s1_ok = if dc == zero && da == zero && !write_next { c(own, 4) == 1 } else { c(own, 4) == 0 };
                        if valid && s1_ok {
                            return ex(X_MALT);
                        }
                    }
                    _ => {}
                }
                return none;
            }
        }
    }
    none
}
