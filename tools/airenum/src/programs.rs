//! The family of programs whose honest traces are fault-enumerated.

use vm_core::{
    crypto::merkle::{MerkleStore, MerkleTree},
    Felt, Word,
};

pub const P_MINUS_1: u64 = 18446744069414584320; // p - 1, p = 2^64 - 2^32 + 1
const U32MAX: u64 = 0xFFFF_FFFF;

pub struct Prog {
    pub name: String,
    pub src: String,
    /// initial stack, TOP FIRST
    pub stack: Vec<u64>,
    pub adv: Vec<u64>,
    pub store: Option<MerkleStore>,
    pub kernel: Option<String>,
    /// long trace: enumerate only a subset of the (very repetitive) rows, see main.rs
    pub light: bool,
}

fn filler(ops: &[u64], depth: usize) -> Vec<u64> {
    let mut st = ops.to_vec();
    let mut i = 0u64;
    while st.len() < depth {
        st.push(9001 + 13 * i);
        i += 1;
    }
    st
}

fn leaf(v: u64) -> Word {
    [Felt::new(v), Felt::new(v + 100), Felt::new(v + 200), Felt::new(v + 300)]
}

fn tree8() -> (Vec<Word>, MerkleTree, MerkleStore) {
    let leaves: Vec<Word> = (1..=8u64).map(leaf).collect();
    let tree = MerkleTree::new(leaves.clone()).unwrap();
    let store: MerkleStore = MerkleStore::from(&tree);
    (leaves, tree, store)
}

fn w(word: &Word) -> Vec<u64> {
    // top-first representation of a word on the stack: element 3 is on top
    vec![word[3].as_int(), word[2].as_int(), word[1].as_int(), word[0].as_int()]
}

struct Spec {
    tag: String,
    /// either a bare body (wrapped into begin..end) or a full source (contains "begin")
    body: String,
    ops: Vec<u64>,
    adv: Vec<u64>,
    store: Option<MerkleStore>,
    kernel: Option<String>,
}

fn s(tag: &str, body: &str, ops: &[u64]) -> Spec {
    Spec {
        tag: tag.into(),
        body: body.into(),
        ops: ops.to_vec(),
        adv: vec![],
        store: None,
        kernel: None,
    }
}

fn single_op_specs() -> Vec<Spec> {
    let mut v = Vec::new();
    // ---- field ops ----
    v.push(s("eqz_zero", "eq.0", &[0]));
    v.push(s("eqz_nonzero", "eq.0", &[5]));
    v.push(s("neg", "neg", &[5]));
    v.push(s("neg_zero", "neg", &[0]));
    v.push(s("inv", "inv", &[7]));
    v.push(s("inv_one", "inv", &[1]));
    v.push(s("incr", "add.1", &[9]));
    v.push(s("incr_wrap", "add.1", &[P_MINUS_1]));
    v.push(s("not0", "not", &[0]));
    v.push(s("not1", "not", &[1]));
    v.push(s("eq_same", "eq", &[3, 3]));
    v.push(s("eq_diff", "eq", &[3, 4]));
    v.push(s("add", "add", &[3, 4]));
    v.push(s("add_wrap", "add", &[P_MINUS_1, 1]));
    v.push(s("mul", "mul", &[3, 4]));
    v.push(s("mul_big", "mul", &[P_MINUS_1, P_MINUS_1]));
    v.push(s("mul_zero", "mul", &[0, 5]));
    v.push(s("and11", "and", &[1, 1]));
    v.push(s("and10", "and", &[1, 0]));
    v.push(s("and00", "and", &[0, 0]));
    v.push(s("or00", "or", &[0, 0]));
    v.push(s("or10", "or", &[1, 0]));
    v.push(s("or11", "or", &[1, 1]));
    v.push(s("expacc", "exp.u4", &[5, 3]));
    v.push(s("ext2mul", "ext2mul", &[3, 5, 7, 11]));
    v.push(s("sub_div", "sub div", &[3, 10, 21]));
    // ---- system ops ----
    v.push(s("assert", "assert", &[1]));
    v.push(s("clk", "clk", &[]));
    v.push(s("sdepth", "sdepth", &[]));
    v.push(s(
        "locals_fmp",
        "proc.foo.2 locaddr.0 drop locaddr.1 drop push.5 loc_store.1 loc_load.1 drop end begin exec.foo end",
        &[],
    ));
    // ---- stack manipulation ----
    v.push(s("swap", "swap", &[]));
    for n in 2..=8 {
        v.push(s(&format!("movup{n}"), &format!("movup.{n}"), &[]));
        v.push(s(&format!("movdn{n}"), &format!("movdn.{n}"), &[]));
    }
    v.push(s("movup15", "movup.15", &[]));
    v.push(s("movdn15", "movdn.15", &[]));
    v.push(s("swapw", "swapw", &[]));
    v.push(s("swapw2", "swapw.2", &[]));
    v.push(s("swapw3", "swapw.3", &[]));
    v.push(s("swapdw", "swapdw", &[]));
    v.push(s("drop", "drop", &[]));
    v.push(s("dropw", "dropw", &[]));
    v.push(s("padw", "padw", &[]));
    v.push(s("push", "push.77 push.0 push.1 push.18446744069414584320", &[]));
    for n in 0..16 {
        v.push(s(&format!("dup{n}"), &format!("dup.{n}"), &[]));
    }
    v.push(s("cswap1", "cswap", &[1, 31, 32]));
    v.push(s("cswap0", "cswap", &[0, 31, 32]));
    v.push(s("cswapw1", "cswapw", &[1, 31, 32, 33, 34, 41, 42, 43, 44]));
    v.push(s("cswapw0", "cswapw", &[0, 31, 32, 33, 34, 41, 42, 43, 44]));
    v.push(s("cdrop", "cdrop", &[1, 31, 32]));
    // ---- u32 ops ----
    let pairs: [(u64, u64); 6] = [
        (0, 0),
        (U32MAX, U32MAX),
        (1, U32MAX),
        (U32MAX, 0),
        (0x1234_5678, 0x9ABC_DEF0),
        (65536, 65535),
    ];
    for (i, (a, b)) in pairs.iter().enumerate() {
        v.push(s(&format!("u32add_{i}"), "u32overflowing_add", &[*b, *a]));
        v.push(s(&format!("u32sub_{i}"), "u32overflowing_sub", &[*b, *a]));
        v.push(s(&format!("u32mul_{i}"), "u32overflowing_mul", &[*b, *a]));
        v.push(s(&format!("u32assert2_{i}"), "u32assert2", &[*b, *a]));
        v.push(s(&format!("u32and_{i}"), "u32and", &[*b, *a]));
        v.push(s(&format!("u32xor_{i}"), "u32xor", &[*b, *a]));
        v.push(s(&format!("u32add3_{i}"), "u32overflowing_add3", &[*b, *a, U32MAX - (i as u64)]));
        v.push(s(&format!("u32madd_{i}"), "u32overflowing_madd", &[*b, *a, U32MAX - (i as u64)]));
        if *b != 0 {
            v.push(s(&format!("u32div_{i}"), "u32divmod", &[*b, *a]));
        }
    }
    v.push(s("u32and_hi", "u32and", &[0x8000_0000, 0x8000_0001]));
    v.push(s("u32xor_alt", "u32xor", &[0xAAAA_AAAA, 0x5555_5555]));
    v.push(s("u32div_7", "u32divmod", &[7, 100]));
    v.push(s("u32div_1", "u32divmod", &[1, U32MAX]));
    v.push(s("u32split_pm1", "u32split", &[P_MINUS_1]));
    v.push(s("u32split_0", "u32split", &[0]));
    v.push(s("u32split_2p32", "u32split", &[1 << 32]));
    v.push(s("u32split_mix", "u32split", &[0x1234_5678_0000_0CD0]));
    v.push(s("u32split_himax", "u32split", &[0xFFFF_FFFF_0000_0000]));
    v.push(s("u32_misc", "u32lt", &[5, 3]));
    // all powers of three as range-checker deltas: 3280 = 1 + 3 + ... + 2187
    v.push(s("u32assert2_rc", "u32assert2", &[3280, 13120 << 16 | 6560]));
    // ---- io ops ----
    let mut sp = s("adv_loadw", "adv_loadw", &[]);
    sp.adv = vec![11, 12, 13, 14];
    v.push(sp);
    let mut sp = s("adv_push", "adv_push.1", &[]);
    sp.adv = vec![77];
    v.push(sp);
    v.push(s("mem_storew", "mem_storew", &[40, 1, 2, 3, 4]));
    v.push(s("mem_loadw", "mem_loadw", &[40]));
    v.push(s("mem_store", "mem_store", &[41, 99]));
    v.push(s("mem_load", "mem_load", &[42]));
    v.push(s(
        "mem_stream",
        "mem_stream",
        &[1, 2, 3, 4, 5, 6, 7, 8, 9, 10, 11, 12, 50],
    ));
    let mut sp = s("adv_pipe", "adv_pipe", &[1, 2, 3, 4, 5, 6, 7, 8, 9, 10, 11, 12, 60]);
    sp.adv = vec![21, 22, 23, 24, 25, 26, 27, 28];
    v.push(sp);
    // ---- crypto ops ----
    v.push(s("hperm", "hperm", &[1, 2, 3, 4, 5, 6, 7, 8, 9, 10, 11, 12]));
    v.push(s("hperm_zero", "hperm", &[0, 0, 0, 0, 0, 0, 0, 0, 0, 0, 0, 0]));
    v.push(s("hmerge", "hmerge", &[1, 2, 3, 4, 5, 6, 7, 8]));
    v.push(s("hash", "hash", &[1, 2, 3, 4]));
    {
        let (leaves, tree, store) = tree8();
        let root = w(&tree.root());
        for idx in [0u64, 3, 5, 7] {
            // mtree_get: [d, i, R, ...]
            let mut ops = vec![3, idx];
            ops.extend(&root);
            let mut sp = s(&format!("mtree_get_{idx}"), "mtree_get", &ops);
            sp.store = Some(store.clone());
            v.push(sp);
            // mtree_verify: [V, d, i, R, ...]
            let mut ops = w(&leaves[idx as usize]);
            ops.extend([3, idx]);
            ops.extend(&root);
            let mut sp = s(&format!("mtree_verify_{idx}"), "mtree_verify", &ops);
            sp.store = Some(store.clone());
            v.push(sp);
            // mtree_set: [d, i, R, V', ...]
            let mut ops = vec![3, idx];
            ops.extend(&root);
            ops.extend(w(&leaf(50 + idx)));
            let mut sp = s(&format!("mtree_set_{idx}"), "mtree_set", &ops);
            sp.store = Some(store.clone());
            v.push(sp);
        }
        // mtree_merge: [R, L, ...]
        let (_, tree_b, store_b) = {
            let leaves: Vec<Word> = (21..=28u64).map(leaf).collect();
            let t = MerkleTree::new(leaves.clone()).unwrap();
            let st: MerkleStore = MerkleStore::from(&t);
            (leaves, t, st)
        };
        let mut ops = w(&tree_b.root());
        ops.extend(&root);
        let mut st = store.clone();
        st.extend(store_b.inner_nodes());
        let mut sp = s("mtree_merge", "mtree_merge", &ops);
        sp.store = Some(st);
        v.push(sp);
    }
    {
        // fri_ext2fold4: 17 inputs (top first)
        let mut inp: Vec<u64> = (0..17u64).map(|i| 1_000_003 * (i + 1) + 17).collect();
        // build_test convention in the repo's test: inputs[16] is the top. We construct in that
        // convention and then reverse.
        inp[7] = 2;
        inp[4] = inp[13];
        inp[5] = inp[14];
        inp.reverse();
        v.push(s("fri_ext2fold4", "fri_ext2fold4", &inp));
    }
    // ---- control flow ----
    v.push(s("if_true", "if.true add else mul end", &[1, 3, 4]));
    v.push(s("if_false", "if.true add else mul end", &[0, 3, 4]));
    v.push(s("while", "while.true eq.5 end", &[1, 5, 7]));
    v.push(s("while_skip", "while.true eq.5 end", &[0, 5, 7]));
    v.push(s("call", "proc.foo add end begin call.foo end", &[3, 4]));
    v.push(s(
        "call_nested",
        "proc.bar mul end proc.foo add call.bar end begin call.foo call.foo end",
        &[3, 4, 5, 6, 7],
    ));
    let mut sp = s("syscall_caller", "proc.foo syscall.kfoo end begin call.foo end", &[3, 4]);
    sp.kernel = Some("export.kfoo caller add end".into());
    v.push(sp);
    v.push(s("dynexec", "proc.foo add end begin procref.foo dynexec end", &[3, 4]));
    v.push(s("dyncall", "proc.foo add end begin procref.foo dyncall end", &[3, 4]));
    v.push(s("respan", "repeat.80 swap end", &[]));
    v.push(s("noop_pad", "repeat.8 swap end push.3 swap push.4 repeat.7 swap end push.5", &[]));
    v.push(s("join_many", "if.true swap else drop end if.true add else mul end", &[1, 3, 1, 4]));
    v
}

pub fn all_programs() -> Vec<Prog> {
    let mut progs = Vec::new();
    for spec in single_op_specs() {
        for depth in [16usize, 17, 20] {
            if spec.ops.len() > depth {
                continue;
            }
            let src = if spec.body.contains("begin") {
                spec.body.clone()
            } else {
                format!("begin {} end", spec.body)
            };
            progs.push(Prog {
                name: format!("{}@d{}", spec.tag, depth),
                src,
                stack: filler(&spec.ops, depth),
                adv: spec.adv.clone(),
                store: spec.store.clone(),
                kernel: spec.kernel.clone(),
                light: false,
            });
        }
    }

    // ---- memory chiplet programs -------------------------------------------------------------
    // consecutive addresses / consecutive clocks / re-access / new address / large address gaps
    progs.push(Prog {
        name: "mem_addr_clk".into(),
        src: "begin
                push.1.2.3.4
                mem_storew.0 mem_storew.1 mem_storew.2 mem_storew.3
                mem_loadw.1 mem_loadw.1 mem_loadw.100
                mem_storew.100
                push.7 mem_store.200 push.8 mem_store.202 push.9 mem_store.204
                mem_load.200 drop mem_load.5000 drop
                mem_storew.70000 mem_storew.4294967295 mem_loadw.65536 mem_loadw.65537
                mem_loadw.3 mem_storew.2
                dropw
              end"
            .into(),
        stack: filler(&[], 16),
        adv: vec![],
        store: None,
        kernel: None,
        light: false,
    });
    // plain sequence of stores to consecutive addresses (no later re-access, so the rows stay
    // adjacent in the memory trace); word stores are 2 cycles apart, element stores 4 cycles
    progs.push(Prog {
        name: "mem_consecutive_stores".into(),
        src: "begin
                push.1.2.3.4
                mem_storew.10 mem_storew.11 mem_storew.12 mem_storew.13 mem_storew.14
                dropw
                push.7 mem_store.20 push.8 mem_store.23 push.9 mem_store.26
                mem_load.40 drop mem_load.42 drop
              end"
            .into(),
        stack: filler(&[], 16),
        adv: vec![],
        store: None,
        kernel: None,
        light: false,
    });
    // bitwise chiplet followed directly by the memory chiplet
    progs.push(Prog {
        name: "bitwise_then_memory".into(),
        src: "begin
                push.4294967295 push.65535 u32and push.255 u32xor
                mem_store.3 mem_load.3 mem_load.4 drop drop
              end"
            .into(),
        stack: filler(&[], 17),
        adv: vec![],
        store: None,
        kernel: None,
        light: false,
    });
    // the same address accessed in consecutive clock cycles (clock delta - 1 = 0)
    progs.push(Prog {
        name: "mem_same_addr_consecutive_clk".into(),
        src: "begin mem_storew mem_storew mem_loadw drop drop drop end".into(),
        stack: filler(&[5, 5, 5, 0, 0, 0], 16),
        adv: vec![],
        store: None,
        kernel: None,
        light: false,
    });
    progs.push(Prog {
        name: "mem_same_addr_consecutive_clk@d20".into(),
        src: "begin mem_storew mem_storew mem_storew mem_loadw drop drop end".into(),
        stack: filler(&[9, 9, 9, 9, 1, 2, 3], 20),
        adv: vec![],
        store: None,
        kernel: None,
        light: false,
    });
    // several memory contexts (root context + two CALLs + nested CALL), first access is a read
    progs.push(Prog {
        name: "mem_contexts".into(),
        src: "proc.bar
                mem_load.1 drop push.3 mem_store.1 mem_load.1 drop
              end
              proc.baz
                push.8 mem_store.0 push.9 mem_store.0 mem_load.0 drop
              end
              proc.foo
                mem_load.0 drop push.5 mem_store.3 mem_load.3 drop
                padw mem_loadw.7 dropw
                call.bar
                push.1.2.3.4 mem_storew.0 dropw
              end
              begin
                mem_load.0 drop
                push.11.12.13.14 mem_storew.0 dropw
                call.foo
                mem_load.0 drop
                call.foo
                call.bar
                call.baz
                mem_load.3 drop
                push.6 mem_store.9 mem_load.9 drop
              end"
            .into(),
        stack: filler(&[], 16),
        adv: vec![],
        store: None,
        kernel: None,
        light: false,
    });
    // a context whose last access holds an all-zero word, followed by a read in a new context
    progs.push(Prog {
        name: "mem_contexts_zero_word".into(),
        src: "proc.foo mem_load.2 drop mem_load.2 drop end
              begin mem_load.9 drop call.foo call.foo mem_load.9 drop end"
            .into(),
        stack: filler(&[], 16),
        adv: vec![],
        store: None,
        kernel: None,
        light: false,
    });
    // rcomb_base: two memory reads per operation; mem_stream / adv_pipe
    {
        let mut adv = Vec::new();
        for i in 0..8u64 {
            adv.push(100 + i);
        }
        for i in 0..32u64 {
            adv.push(7_000_000_007 * (i + 3));
        }
        for i in 0..8u64 {
            adv.extend([31 + i, 97 + 2 * i, 0, 0]);
        }
        progs.push(Prog {
            name: "rcomb_base".into(),
            src: "begin
                    push.0 padw adv_pipe
                    repeat.4 adv_pipe end
                    repeat.4 adv_pipe end
                    dropw dropw dropw drop
                    push.10 push.2 push.0
                    padw padw padw
                    mem_stream
                    repeat.8 rcomb_base end
                    dropw dropw dropw dropw
                  end"
                .into(),
            stack: filler(&[], 16),
            adv,
            store: None,
            kernel: None,
            light: false,
        });
    }
    // range checker with many looked-up values
    progs.push(Prog {
        name: "range_many".into(),
        src: "begin
                push.0 push.1 u32assert2 drop drop
                push.4294967295 push.65535 u32assert2 drop drop
                push.65536 push.131073 u32assert2 drop drop
                push.3280 push.429916160 u32assert2 drop drop
                push.6 push.5 u32overflowing_mul drop drop
                push.65534 push.65533 u32overflowing_add drop drop
                push.3 mem_store.2000 push.3 mem_store.5280
              end"
            .into(),
        stack: filler(&[], 16),
        adv: vec![],
        store: None,
        kernel: None,
        light: false,
    });
    // clock gap larger than 2^16 between two accesses of the same address (long trace)
    progs.push(Prog {
        name: "mem_clk_gap_gt_2p16".into(),
        src: "begin
                push.21 mem_store.4 mem_load.4 drop
                push.9000 push.1
                while.true sub.1 dup neq.0 end
                drop
                mem_load.4 drop push.22 mem_store.4 mem_load.6 drop
              end"
            .into(),
        stack: filler(&[], 16),
        adv: vec![],
        store: None,
        kernel: None,
        light: true,
    });
    progs
}
