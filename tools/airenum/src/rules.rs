//! Which cells of a row pair are enumerated, and which undetected substitutions are excluded
//! because the documentation assigns the cell to a bus / multiset argument (or to the decoder /
//! advice provider) which this AIR version does not implement.

use crate::{op_name, Cell, Chip, FrameInfo, Side, B0_COL_IDX, B1_COL_IDX, H0_COL_IDX};
use miden_air::trace::{
    chiplets::{
        MEMORY_ADDR_COL_IDX, MEMORY_CLK_COL_IDX, MEMORY_CTX_COL_IDX, MEMORY_TRACE_OFFSET,
    },
    decoder::DECODER_USER_OP_HELPERS_OFFSET,
    range::{B_RANGE_COL_IDX, M_COL_IDX, V_COL_IDX},
    CHIPLETS_OFFSET, CHIPLETS_WIDTH, CLK_COL_IDX, CTX_COL_IDX, FMP_COL_IDX, STACK_TRACE_OFFSET,
};
use vm_core::Felt;

pub fn describe(f: &FrameInfo) -> String {
    format!(
        "op {} depth {} | chiplets {:?}[{}]->{:?}",
        op_name(f.opcode),
        f.depth,
        f.chip_cur,
        f.chip_row_cur,
        f.chip_next
    )
}

pub fn memory_kind(cur: &[Felt], next: &[Felt]) -> &'static str {
    let dc = next[MEMORY_CTX_COL_IDX] != cur[MEMORY_CTX_COL_IDX];
    let da = next[MEMORY_ADDR_COL_IDX] != cur[MEMORY_ADDR_COL_IDX];
    let dclk = (next[MEMORY_CLK_COL_IDX] - cur[MEMORY_CLK_COL_IDX]).as_int();
    let rd = next[MEMORY_TRACE_OFFSET].as_int() == 1;
    match (dc, da, rd) {
        (true, _, true) => "ctx change, read",
        (true, _, false) => "ctx change, write",
        (false, true, true) => "addr change, read",
        (false, true, false) => "addr change, write",
        (false, false, true) => {
            if dclk == 1 {
                "same addr, clk+1, read"
            } else if dclk > 65536 {
                "same addr, clk gap > 2^16, read"
            } else {
                "same addr, read"
            }
        }
        (false, false, false) => {
            if dclk == 1 {
                "same addr, clk+1, write"
            } else if dclk > 65536 {
                "same addr, clk gap > 2^16, write"
            } else {
                "same addr, write"
            }
        }
    }
}

fn main_cell(side: Side, col: usize) -> Cell {
    Cell { side, aux: false, col }
}

pub fn candidate_cells(f: &FrameInfo, light: bool) -> Vec<Cell> {
    let mut c = Vec::new();
    let vm_rows = !light || f.row < 600;
    if vm_rows {
        // system
        c.push(main_cell(Side::Next, CLK_COL_IDX));
        c.push(main_cell(Side::Next, FMP_COL_IDX));
        c.push(main_cell(Side::Next, CTX_COL_IDX));
        // stack
        for i in 0..16 {
            c.push(main_cell(Side::Next, STACK_TRACE_OFFSET + i));
        }
        c.push(main_cell(Side::Next, B0_COL_IDX));
        c.push(main_cell(Side::Next, B1_COL_IDX));
        c.push(main_cell(Side::Cur, H0_COL_IDX));
        // helper registers of u32 operations
        if (64..80).contains(&f.opcode) {
            for i in 0..6 {
                c.push(main_cell(Side::Cur, DECODER_USER_OP_HELPERS_OFFSET + i));
            }
        }
    }
    // chiplets
    let chip_rows = match f.chip_cur {
        Chip::Other => false,
        Chip::Hasher => !light || f.chip_row_cur < 128 || f.chip_cur != f.chip_next,
        _ => true,
    };
    if chip_rows {
        for k in 0..CHIPLETS_WIDTH {
            c.push(main_cell(Side::Next, CHIPLETS_OFFSET + k));
            if f.row == 0 {
                // the very first trace row has no preceding row pair
                c.push(main_cell(Side::Cur, CHIPLETS_OFFSET + k));
            }
        }
    }
    // range checker
    let rc_rows = !light
        || f.row < 600
        || f.cur[V_COL_IDX] != f.next[V_COL_IDX]
        || f.cur[M_COL_IDX] != Felt::new(0);
    if rc_rows {
        if f.row == 0 {
            c.push(main_cell(Side::Cur, M_COL_IDX));
            c.push(main_cell(Side::Cur, V_COL_IDX));
        }
        c.push(main_cell(Side::Next, M_COL_IDX));
        c.push(main_cell(Side::Next, V_COL_IDX));
        c.push(Cell { side: Side::Cur, aux: true, col: B_RANGE_COL_IDX });
        c.push(Cell { side: Side::Next, aux: true, col: B_RANGE_COL_IDX });
    }
    c
}

/// Columns for which the documentation defines constraints on the values of a single (current)
/// row: selector / bit columns must be binary, `v = 0` on a first read, `f_out * i = 0`, the
/// multiplicity of a range-checker row enters the LogUp term of its own row, ...
/// A cell of such a column counts as pinned if the substitution is caught either as the NEXT row of
/// the pair (r-1, r) or as the CURRENT row of the pair (r, r+1). All other chiplet cells must be
/// caught as the NEXT row of the pair (r-1, r).
pub fn has_current_row_constraint(chip: Chip, col: usize) -> bool {
    if col == M_COL_IDX || col == V_COL_IDX {
        return true;
    }
    if !(CHIPLETS_OFFSET..CHIPLETS_OFFSET + CHIPLETS_WIDTH).contains(&col) {
        return false;
    }
    let k = col - CHIPLETS_OFFSET;
    match chip {
        Chip::Hasher => k <= 3 || k == 16,
        Chip::Bitwise => k <= 14,
        Chip::Memory => k <= 4 || (8..=11).contains(&k),
        Chip::Other => k <= 2,
    }
}

pub fn agg_key(f: &FrameInfo, cell: &Cell, cname: &str) -> String {
    let col = cell.col;
    if (CHIPLETS_OFFSET..CHIPLETS_OFFSET + CHIPLETS_WIDTH).contains(&col) {
        let pos = match f.chip_cur {
            Chip::Hasher | Chip::Bitwise => format!("cycle row {}", f.chip_row_cur % 8),
            Chip::Memory => {
                if f.chip_next == Chip::Memory {
                    memory_kind(f.cur, f.next).to_string()
                } else {
                    "last row".to_string()
                }
            }
            Chip::Other => "-".into(),
        };
        let hs = if f.chip_cur == Chip::Hasher {
            format!(
                " sel({}{}{})->({}{}{})",
                f.cur[CHIPLETS_OFFSET + 1].as_int(),
                f.cur[CHIPLETS_OFFSET + 2].as_int(),
                f.cur[CHIPLETS_OFFSET + 3].as_int(),
                f.next[CHIPLETS_OFFSET + 1].as_int(),
                f.next[CHIPLETS_OFFSET + 2].as_int(),
                f.next[CHIPLETS_OFFSET + 3].as_int()
            )
        } else {
            String::new()
        };
        return format!(
            "chiplets {:?}->{:?} {}{} | {:?} {}",
            f.chip_cur, f.chip_next, pos, hs, cell.side, cname
        );
    }
    if col == M_COL_IDX || col == V_COL_IDX {
        return format!("range | {:?} {}", cell.side, cname);
    }
    let regime = if f.depth == 16 { "d=16" } else { "d>16" };
    format!("op {:<10} {} | {:?} {}", op_name(f.opcode), regime, cell.side, cname)
}

pub fn owner_constraints(cell: &str, names: &[String]) -> Vec<String> {
    let pick = |p: &str| names.iter().filter(|n| n.starts_with(p)).cloned().collect::<Vec<_>>();
    if cell.contains("memory.") {
        pick("memory")
    } else if cell.contains("hasher.") {
        pick("hasher")
    } else if cell.contains("bitwise.") {
        pick("bitwise")
    } else if cell.contains("chiplets.") {
        pick("chiplets")
    } else if cell.contains("range.") {
        pick("range")
    } else if cell.contains("stack.b") || cell.contains("stack.h0") {
        pick("stack.overflow")
    } else if cell.contains("stack.s") {
        pick("stack.general")
    } else {
        pick("system")
    }
}

include!("exclusions.rs");

