//! [adapted for /verif from the demo of the fourth C04 sub-agent: FAILCASE / SUMMARY lines; the list of free cells is printed, not written to a file]
//! C04 fault enumeration: for every row pair of every honest trace and every enforced cell,
//! substitute wrong values and require that at least one main or auxiliary transition constraint of
//! the real `ProcessorAir` evaluates to non-zero.
//!
//! usage: c04-fault-enum [--explore] [--only <substring>] [--threads N]

mod programs;
mod rules;

use miden_air::{
    trace::{
        decoder::{DECODER_OP_BITS_OFFSET, DECODER_USER_OP_HELPERS_OFFSET},
        range::{M_COL_IDX, V_COL_IDX},
        AUX_TRACE_RAND_ELEMENTS, CHIPLETS_OFFSET, CHIPLETS_WIDTH, CLK_COL_IDX, CTX_COL_IDX,
        FMP_COL_IDX, STACK_TRACE_OFFSET, TRACE_WIDTH,
    },
    ProcessorAir, ProvingOptions, PublicInputs,
};
use miden_assembly::Assembler;
use miden_processor::{
    AdviceInputs, DefaultHost, ExecutionOptions, ExecutionTrace, MemAdviceProvider,
};
use programs::{Prog, P_MINUS_1};
use std::collections::{BTreeMap, BTreeSet};
use std::sync::Mutex;
use vm_core::{Felt, FieldElement, QuadExtension, StackInputs, StarkField};
#[allow(unused_imports)]
use StarkField as _;
use winter_air::{Air, AuxTraceRandElements, EvaluationFrame};
use winter_prover::Trace;

pub type Q = QuadExtension<Felt>;

// absolute column indices of the stack bookkeeping columns (the constants in
// miden_air::trace::stack are relative to STACK_TRACE_OFFSET)
pub const B0_COL_IDX: usize = STACK_TRACE_OFFSET + 16;
pub const B1_COL_IDX: usize = STACK_TRACE_OFFSET + 17;
pub const H0_COL_IDX: usize = STACK_TRACE_OFFSET + 18;

pub const NUM_CHALLENGE_SETS: usize = 3;

// CELLS
// ================================================================================================

#[derive(Clone, Copy, PartialEq, Eq, PartialOrd, Ord, Debug)]
pub enum Side {
    Cur,
    Next,
}

#[derive(Clone, Copy, PartialEq, Eq, PartialOrd, Ord, Debug)]
pub enum Chip {
    Hasher,
    Bitwise,
    Memory,
    /// kernel ROM / padding rows (s0 = s1 = s2 = 1)
    Other,
}

#[derive(Clone, Debug)]
pub struct Cell {
    pub side: Side,
    pub aux: bool,
    pub col: usize,
}

/// Everything the rules need to know about a row pair.
pub struct FrameInfo<'a> {
    pub row: usize,
    pub cur: &'a [Felt],
    pub next: &'a [Felt],
    pub opcode: u8,
    pub depth: u64,
    pub chip_cur: Chip,
    pub chip_next: Chip,
    /// row index inside the chiplet (for the 8-row cycles of hasher / bitwise)
    pub chip_row_cur: usize,
    pub first_chip_row_next: bool,
    /// the row pair (row+1, row+2) is exempt from transition constraints
    pub last_frame: bool,
    /// the next row is the last row of its chiplet
    pub next_is_last_of_chip: bool,
}

pub fn chip_of(row: &[Felt]) -> Chip {
    let s0 = row[CHIPLETS_OFFSET].as_int();
    let s1 = row[CHIPLETS_OFFSET + 1].as_int();
    let s2 = row[CHIPLETS_OFFSET + 2].as_int();
    if s0 == 0 {
        Chip::Hasher
    } else if s1 == 0 {
        Chip::Bitwise
    } else if s2 == 0 {
        Chip::Memory
    } else {
        Chip::Other
    }
}

pub fn opcode_of(row: &[Felt]) -> u8 {
    let mut op = 0u8;
    for i in 0..7 {
        op |= (row[DECODER_OP_BITS_OFFSET + i].as_int() as u8 & 1) << i;
    }
    op
}

pub fn op_name(op: u8) -> &'static str {
    match op {
        0 => "NOOP", 1 => "EQZ", 2 => "NEG", 3 => "INV", 4 => "INCR", 5 => "NOT", 6 => "FMPADD",
        7 => "MLOAD", 8 => "SWAP", 9 => "CALLER", 10 => "MOVUP2", 11 => "MOVDN2", 12 => "MOVUP3",
        13 => "MOVDN3", 14 => "ADVPOPW", 15 => "EXPACC", 16 => "MOVUP4", 17 => "MOVDN4",
        18 => "MOVUP5", 19 => "MOVDN5", 20 => "MOVUP6", 21 => "MOVDN6", 22 => "MOVUP7",
        23 => "MOVDN7", 24 => "SWAPW", 25 => "EXT2MUL", 26 => "MOVUP8", 27 => "MOVDN8",
        28 => "SWAPW2", 29 => "SWAPW3", 30 => "SWAPDW", 32 => "ASSERT", 33 => "EQ", 34 => "ADD",
        35 => "MUL", 36 => "AND", 37 => "OR", 38 => "U32AND", 39 => "U32XOR", 40 => "FRIE2F4",
        41 => "DROP", 42 => "CSWAP", 43 => "CSWAPW", 44 => "MLOADW", 45 => "MSTORE",
        46 => "MSTOREW", 47 => "FMPUPDATE", 48 => "PAD", 49 => "DUP0", 50 => "DUP1", 51 => "DUP2",
        52 => "DUP3", 53 => "DUP4", 54 => "DUP5", 55 => "DUP6", 56 => "DUP7", 57 => "DUP9",
        58 => "DUP11", 59 => "DUP13", 60 => "DUP15", 61 => "ADVPOP", 62 => "SDEPTH", 63 => "CLK",
        64 => "U32ADD", 66 => "U32SUB", 68 => "U32MUL", 70 => "U32DIV", 72 => "U32SPLIT",
        74 => "U32ASSERT2", 76 => "U32ADD3", 78 => "U32MADD", 80 => "HPERM", 81 => "MPVERIFY",
        82 => "PIPE", 83 => "MSTREAM", 84 => "SPLIT", 85 => "LOOP", 86 => "SPAN", 87 => "JOIN",
        88 => "DYN", 89 => "RCOMBBASE", 96 => "MRUPDATE", 100 => "PUSH", 104 => "SYSCALL",
        108 => "CALL", 112 => "END", 116 => "REPEAT", 120 => "RESPAN", 124 => "HALT",
        _ => "?",
    }
}

pub fn col_name(col: usize, chip: Chip) -> String {
    if col == CLK_COL_IDX {
        return "sys.clk".into();
    }
    if col == FMP_COL_IDX {
        return "sys.fmp".into();
    }
    if col == CTX_COL_IDX {
        return "sys.ctx".into();
    }
    if (DECODER_USER_OP_HELPERS_OFFSET..DECODER_USER_OP_HELPERS_OFFSET + 6).contains(&col) {
        return format!("decoder.user_op_helper[{}]", col - DECODER_USER_OP_HELPERS_OFFSET);
    }
    if (STACK_TRACE_OFFSET..STACK_TRACE_OFFSET + 16).contains(&col) {
        return format!("stack.s{}", col - STACK_TRACE_OFFSET);
    }
    if col == B0_COL_IDX {
        return "stack.b0".into();
    }
    if col == B1_COL_IDX {
        return "stack.b1".into();
    }
    if col == H0_COL_IDX {
        return "stack.h0".into();
    }
    if col == M_COL_IDX {
        return "range.m".into();
    }
    if col == V_COL_IDX {
        return "range.v".into();
    }
    if (CHIPLETS_OFFSET..CHIPLETS_OFFSET + CHIPLETS_WIDTH).contains(&col) {
        let k = col - CHIPLETS_OFFSET;
        let n = match chip {
            Chip::Hasher => match k {
                0 => "chiplets.s0".to_string(),
                1..=3 => format!("hasher.s{}", k - 1),
                4..=15 => format!("hasher.h{}", k - 4),
                _ => "hasher.i".to_string(),
            },
            Chip::Bitwise => match k {
                0 | 1 => format!("chiplets.s{k}"),
                2 => "bitwise.sel".into(),
                3 => "bitwise.a".into(),
                4 => "bitwise.b".into(),
                5..=8 => format!("bitwise.a{}", k - 5),
                9..=12 => format!("bitwise.b{}", k - 9),
                13 => "bitwise.zp".into(),
                14 => "bitwise.z".into(),
                _ => format!("bitwise.pad{}", k - 15),
            },
            Chip::Memory => match k {
                0..=2 => format!("chiplets.s{k}"),
                3 | 4 => format!("memory.s{}", k - 3),
                5 => "memory.ctx".into(),
                6 => "memory.addr".into(),
                7 => "memory.clk".into(),
                8..=11 => format!("memory.v{}", k - 8),
                12 => "memory.d0".into(),
                13 => "memory.d1".into(),
                14 => "memory.d_inv".into(),
                _ => format!("memory.pad{}", k - 15),
            },
            Chip::Other => format!("chiplets.col{k}"),
        };
        return n;
    }
    format!("col{col}")
}

// CONSTRAINT NAMES
// ================================================================================================

fn constraint_names() -> Vec<String> {
    use miden_air::stack::{field_ops, io_ops, overflow, stack_manipulation, system_ops, u32_ops};
    let mut n = vec!["system: clk' = clk + 1".to_string()];
    let ov = ["stack.overflow: depth b0", "stack.overflow: flag h0", "stack.overflow: b1' = clk on right shift", "stack.overflow: s15' = 0 on left shift with empty table"];
    assert_eq!(overflow::get_transition_constraint_count(), ov.len());
    n.extend(ov.iter().map(|s| s.to_string()));
    let so = ["stack.system_ops: ASSERT", "stack.system_ops: FMPADD", "stack.system_ops: FMPUPDATE", "stack.system_ops: CLK"];
    assert_eq!(system_ops::get_transition_constraint_count(), so.len());
    n.extend(so.iter().map(|s| s.to_string()));
    for i in 0..field_ops::get_transition_constraint_count() {
        n.push(format!("stack.field_ops[{i}]"));
    }
    for i in 0..stack_manipulation::get_transition_constraint_count() {
        n.push(format!("stack.stack_manipulation[{i}]"));
    }
    for i in 0..u32_ops::get_transition_constraint_count() {
        n.push(format!("stack.u32_ops[{i}]"));
    }
    for i in 0..io_ops::get_transition_constraint_count() {
        n.push(format!("stack.io_ops[{i}]"));
    }
    for i in 0..16 {
        n.push(format!("stack.general: position {i}"));
    }
    n.push("stack.general: top binary".into());
    n.push("range: v' - v in {0,1,3,...,2187}".into());
    for s in ["s0 binary", "s1 binary", "s2 binary", "s0 0->1 only", "s1 0->1 only", "s2 0->1 only"] {
        n.push(format!("chiplets.selectors: {s}"));
    }
    let h = [
        "s0 binary", "s1 binary", "s2 binary", "s1 copied", "s2 copied", "s0' = 0 after ABP/MPA/MVA/MUA",
        "no (s0=0,s1=1) on last cycle row", "i = 0 on output", "index shift bit binary", "i copied",
    ];
    for s in h {
        n.push(format!("hasher: {s}"));
    }
    for i in 0..12 {
        n.push(format!("hasher: RPO round, state element {i}"));
    }
    for i in 0..4 {
        n.push(format!("hasher: capacity element {i} copied on ABP"));
    }
    for i in 0..4 {
        n.push(format!("hasher: digest element {i} copied on MPA/MVA/MUA"));
    }
    for i in 0..17 {
        n.push(format!("bitwise[{i}]"));
    }
    let m = [
        "s0 binary", "s1 binary", "s1' = 1 on a read of the same ctx/addr", "s1' = 0 otherwise",
        "d_inv: n0 binary", "d_inv: (1-n0)*(ctx'-ctx) = 0", "d_inv: (1-n0)*n1 binary",
        "d_inv: (1-n0)*(1-n1)*(addr'-addr) = 0", "delta = 2^16*d1' + d0'",
        "v0 = 0 on init read", "v1 = 0 on init read", "v2 = 0 on init read", "v3 = 0 on init read",
        "v0' = v0 on copy read", "v1' = v1 on copy read", "v2' = v2 on copy read", "v3' = v3 on copy read",
    ];
    for s in m {
        n.push(format!("memory: {s}"));
    }
    n
}

// HONEST TRACE + AIR
// ================================================================================================

struct Honest {
    idx: usize,
    name: String,
    light: bool,
    air: ProcessorAir,
    main: Vec<Vec<Felt>>,
    /// aux rows, one matrix per challenge set
    aux: Vec<Vec<Vec<Q>>>,
    rand: Vec<AuxTraceRandElements<Q>>,
    periodic: Vec<Vec<Felt>>,
    /// number of row pairs to which transition constraints apply
    num_frames: usize,
}

fn build(idx: usize, p: &Prog) -> Honest {
    let mut asm = Assembler::default()
        .with_library(&miden_stdlib::StdLibrary::default())
        .expect("stdlib");
    if let Some(k) = &p.kernel {
        asm = asm.with_kernel(k).expect("kernel");
    }
    let program = asm.compile(&p.src).unwrap_or_else(|e| panic!("{}: compile: {e}", p.name));
    let mut vals: Vec<Felt> = p.stack.iter().map(|&v| Felt::new(v)).collect();
    vals.reverse(); // StackInputs::new expects the top of the stack LAST
    let stack_inputs = StackInputs::new(vals);
    let mut adv = AdviceInputs::default().with_stack_values(p.adv.clone()).unwrap();
    if let Some(st) = &p.store {
        adv = adv.with_merkle_store(st.clone());
    }
    let host = DefaultHost::new(MemAdviceProvider::from(adv));
    let mut trace: ExecutionTrace =
        miden_processor::execute(&program, stack_inputs.clone(), host, ExecutionOptions::default())
            .unwrap_or_else(|e| panic!("{}: execute: {e}", p.name));
    let pub_inputs =
        PublicInputs::new(trace.program_info().clone(), stack_inputs, trace.stack_outputs().clone());
    let air = ProcessorAir::new(trace.get_info(), pub_inputs, ProvingOptions::default().into());

    let n = trace.length();
    let width = trace.main_segment().num_cols();
    assert_eq!(width, TRACE_WIDTH);
    let mut main = vec![vec![Felt::ZERO; width]; n];
    for (r, row) in main.iter_mut().enumerate() {
        trace.main_segment().read_row_into(r, row);
    }
    // deterministic pseudo-random challenges (three independent vectors)
    let mut aux = Vec::new();
    let mut rand = Vec::new();
    let mut seed = 0x9E37_79B9_7F4A_7C15u64 ^ (n as u64);
    let mut next = || {
        seed ^= seed << 13;
        seed ^= seed >> 7;
        seed ^= seed << 17;
        Felt::new(seed % P_MINUS_1)
    };
    for _ in 0..NUM_CHALLENGE_SETS {
        let r: Vec<Q> = (0..AUX_TRACE_RAND_ELEMENTS).map(|_| Q::new(next(), next())).collect();
        let seg = trace.build_aux_segment::<Q>(&[], &r).expect("aux segment");
        let mut rows = vec![vec![Q::ZERO; seg.num_cols()]; n];
        for (i, row) in rows.iter_mut().enumerate() {
            seg.read_row_into(i, row);
        }
        aux.push(rows);
        let mut are = AuxTraceRandElements::new();
        are.add_segment_elements(r);
        rand.push(are);
    }
    let periodic = air.get_periodic_column_values();
    let num_frames = n - air.context().num_transition_exemptions();
    Honest { idx, name: p.name.clone(), light: p.light, air, main, aux, rand, periodic, num_frames }
}

struct Evaluator<'a> {
    h: &'a Honest,
    main_res: Vec<Felt>,
    aux_res: Vec<Q>,
}

impl<'a> Evaluator<'a> {
    fn new(h: &'a Honest) -> Self {
        let nm = h.air.context().num_main_transition_constraints();
        let na = h.air.context().num_aux_transition_constraints();
        Self { h, main_res: vec![Felt::ZERO; nm], aux_res: vec![Q::ZERO; na] }
    }

    fn periodic(&self, row: usize) -> Vec<Felt> {
        self.h.periodic.iter().map(|c| c[row % c.len()]).collect()
    }

    /// Returns (indices of non-zero main constraints, non-zero aux for any challenge set).
    fn eval(
        &mut self,
        row: usize,
        main: &EvaluationFrame<Felt>,
        aux: &[EvaluationFrame<Q>],
        per: &[Felt],
    ) -> (bool, bool) {
        let _ = row;
        self.main_res.iter_mut().for_each(|v| *v = Felt::ZERO);
        self.h.air.evaluate_transition(main, per, &mut self.main_res);
        let main_nz = self.main_res.iter().any(|v| *v != Felt::ZERO);
        let mut aux_nz = false;
        for (k, af) in aux.iter().enumerate() {
            self.aux_res.iter_mut().for_each(|v| *v = Q::ZERO);
            self.h.air.evaluate_aux_transition(main, af, per, &self.h.rand[k], &mut self.aux_res);
            if self.aux_res.iter().any(|v| *v != Q::ZERO) {
                aux_nz = true;
            }
        }
        (main_nz, aux_nz)
    }
}

// FAULT ENUMERATION
// ================================================================================================

pub struct Undetected {
    pub prog_idx: usize,
    pub prog: String,
    pub row: usize,
    pub what: String, // row description (op / chiplet)
    pub cell: String,
    pub honest: String,
    pub wrong: String,
    pub key: String, // aggregation key for --explore
    pub excluded: Option<&'static str>,
    pub preexisting: Option<&'static str>,
}

fn wrong_values(v: Felt, neighbours: &[Felt]) -> Vec<(Felt, &'static str)> {
    let mut out: Vec<(Felt, &'static str)> = vec![
        (v + Felt::ONE, "v+1"),
        (v - Felt::ONE, "v-1"),
        (Felt::ZERO, "0"),
        (Felt::ONE, "1"),
        (Felt::new(P_MINUS_1), "p-1"),
        (Felt::new(v.as_int() ^ 1), "bit 0 flipped"),
        (Felt::new((v.as_int() ^ (1 << 16)) % (P_MINUS_1 + 1)), "bit 16 flipped"),
        (Felt::new((v.as_int() ^ (1 << 31)) % (P_MINUS_1 + 1)), "bit 31 flipped"),
    ];
    let tags = ["left neighbour cell", "right neighbour cell", "same column, other row of the pair", "same column, row before/after the pair"];
    for (i, nb) in neighbours.iter().enumerate() {
        out.push((*nb, tags[i.min(3)]));
    }
    let mut seen = BTreeSet::new();
    out.retain(|(w, _)| *w != v && seen.insert(w.as_int()));
    out
}

fn frame_info<'a>(h: &'a Honest, row: usize, chip_start: &BTreeMap<usize, usize>) -> FrameInfo<'a> {
    let cur = &h.main[row];
    let next = &h.main[row + 1];
    let chip_cur = chip_of(cur);
    let chip_next = chip_of(next);
    // index of the row inside its chiplet
    let start = chip_start.range(..=row).next_back().map(|(s, _)| *s).unwrap_or(0);
    FrameInfo {
        row,
        cur,
        next,
        opcode: opcode_of(cur),
        depth: cur[B0_COL_IDX].as_int(),
        chip_cur,
        chip_next,
        chip_row_cur: row - start,
        first_chip_row_next: chip_cur != chip_next,
        last_frame: row + 1 >= h.num_frames,
        next_is_last_of_chip: row + 2 >= h.main.len() || chip_of(&h.main[row + 2]) != chip_next,
    }
}

fn enumerate_rows(h: &Honest, rows: &[usize], explore: bool, sink: &Mutex<Vec<Undetected>>, counters: &Mutex<(u64, u64)>) {
    let mut ev = Evaluator::new(h);
    // chiplet start rows
    let mut chip_start = BTreeMap::new();
    let mut prev = None;
    for (r, row) in h.main.iter().enumerate() {
        let c = chip_of(row);
        if Some(c) != prev {
            chip_start.insert(r, 0usize);
            prev = Some(c);
        }
    }
    let mut local = Vec::new();
    let (mut n_cells, mut n_subst) = (0u64, 0u64);
    let n = h.main.len();
    for &row in rows {
        let info = frame_info(h, row, &chip_start);
        let per = ev.periodic(row);
        let mut mf = EvaluationFrame::from_rows(h.main[row].clone(), h.main[row + 1].clone());
        let mut afs: Vec<EvaluationFrame<Q>> = (0..NUM_CHALLENGE_SETS)
            .map(|k| EvaluationFrame::from_rows(h.aux[k][row].clone(), h.aux[k][row + 1].clone()))
            .collect();

        // the following row pair (row+1, row+2), used for the second role of chiplet / range cells
        let has_follow = row + 1 < h.num_frames;
        let per2 = ev.periodic(row + 1);
        let mut mf2 = if has_follow {
            Some(EvaluationFrame::from_rows(h.main[row + 1].clone(), h.main[row + 2].clone()))
        } else {
            None
        };
        let afs2: Vec<EvaluationFrame<Q>> = if has_follow {
            (0..NUM_CHALLENGE_SETS)
                .map(|k| EvaluationFrame::from_rows(h.aux[k][row + 1].clone(), h.aux[k][row + 2].clone()))
                .collect()
        } else {
            Vec::new()
        };

        let cells = rules::candidate_cells(&info, h.light);
        for cell in cells {
            n_cells += 1;
            if cell.aux {
                // b_range: substitute in every challenge set's aux frame
                for which in 0..5 {
                    let mut names = "";
                    for k in 0..NUM_CHALLENGE_SETS {
                        let v = if cell.side == Side::Cur { h.aux[k][row][cell.col] } else { h.aux[k][row + 1][cell.col] };
                        let other = if cell.side == Side::Cur { h.aux[k][row + 1][cell.col] } else { h.aux[k][row][cell.col] };
                        let (wv, nm) = match which {
                            0 => (v + Q::ONE, "v+1"),
                            1 => (v - Q::ONE, "v-1"),
                            2 => (Q::ZERO, "0"),
                            3 => (Q::ONE, "1"),
                            _ => (other + other - v + Q::new(Felt::ZERO, Felt::ONE), "other row's value, perturbed"),
                        };
                        names = nm;
                        let wv = if wv == v { v + Q::new(Felt::new(2), Felt::ZERO) } else { wv };
                        if cell.side == Side::Cur { afs[k].current_mut()[cell.col] = wv } else { afs[k].next_mut()[cell.col] = wv }
                    }
                    n_subst += 1;
                    let (m, a) = ev.eval(row, &mf, &afs, &per);
                    for k in 0..NUM_CHALLENGE_SETS {
                        if cell.side == Side::Cur { afs[k].current_mut()[cell.col] = h.aux[k][row][cell.col] } else { afs[k].next_mut()[cell.col] = h.aux[k][row + 1][cell.col] }
                    }
                    if !m && !a {
                        local.push(Undetected {
                            prog_idx: h.idx, prog: h.name.clone(), row, what: rules::describe(&info),
                            cell: format!("{:?} aux.b_range", cell.side), honest: "(per challenge set)".into(),
                            wrong: names.into(), key: format!("aux b_range {:?}", cell.side),
                            excluded: None, preexisting: None,
                        });
                    }
                }
                continue;
            }
            let (v, other) = match cell.side {
                Side::Cur => (h.main[row][cell.col], h.main[row + 1][cell.col]),
                Side::Next => (h.main[row + 1][cell.col], h.main[row][cell.col]),
            };
            let own_row = if cell.side == Side::Cur { &h.main[row] } else { &h.main[row + 1] };
            let far = match cell.side {
                Side::Cur => if row > 0 { h.main[row - 1][cell.col] } else { v },
                Side::Next => if row + 2 < n { h.main[row + 2][cell.col] } else { v },
            };
            let nbs = [
                if cell.col > 0 { own_row[cell.col - 1] } else { v },
                if cell.col + 1 < TRACE_WIDTH { own_row[cell.col + 1] } else { v },
                other,
                far,
            ];
            for (wv, wname) in wrong_values(v, &nbs) {
                n_subst += 1;
                match cell.side {
                    Side::Cur => mf.current_mut()[cell.col] = wv,
                    Side::Next => mf.next_mut()[cell.col] = wv,
                }
                let (mut m, a) = ev.eval(row, &mf, &afs, &per);
                match cell.side {
                    Side::Cur => mf.current_mut()[cell.col] = v,
                    Side::Next => mf.next_mut()[cell.col] = v,
                }
                // second role: columns with documented single-row constraints are also checked as
                // the CURRENT row of the following row pair
                if !m && !a && cell.side == Side::Next && rules::has_current_row_constraint(info.chip_next, cell.col) {
                    if let Some(f2) = mf2.as_mut() {
                        f2.current_mut()[cell.col] = wv;
                        let (m2, a2) = ev.eval(row + 1, f2, &afs2, &per2);
                        f2.current_mut()[cell.col] = v;
                        m = m2 || a2;
                    }
                }
                if !m && !a {
                    let (excluded, preexisting) = if explore { (None, None) } else { rules::classify(&info, &cell, v, wv) };
                    let chip = if cell.side == Side::Cur { info.chip_cur } else { info.chip_next };
                    let cname = col_name(cell.col, chip);
                    local.push(Undetected {
                        prog_idx: h.idx, prog: h.name.clone(), row, what: rules::describe(&info),
                        cell: format!("{:?}-row {}", cell.side, cname),
                        honest: format!("{}", v.as_int()), wrong: format!("{} ({})", wv.as_int(), wname),
                        key: rules::agg_key(&info, &cell, &cname),
                        excluded, preexisting,
                    });
                }
            }
        }
    }
    sink.lock().unwrap().extend(local);
    let mut c = counters.lock().unwrap();
    c.0 += n_cells;
    c.1 += n_subst;
}

fn main() {
    let args: Vec<String> = std::env::args().collect();
    let explore = args.iter().any(|a| a == "--explore");
    let only = args.iter().position(|a| a == "--only").map(|i| args[i + 1].clone());
    let threads: usize = args.iter().position(|a| a == "--threads").map(|i| args[i + 1].parse().unwrap()).unwrap_or(8);

    let names = constraint_names();
    rules::print_exclusions();

    let progs: Vec<Prog> = programs::all_programs()
        .into_iter()
        .filter(|p| only.as_ref().map(|o| p.name.contains(o.as_str())).unwrap_or(true))
        .collect();
    println!("\n== executing {} programs and checking that honest row pairs evaluate to zero", progs.len());

    let sink = Mutex::new(Vec::<Undetected>::new());
    let counters = Mutex::new((0u64, 0u64));
    let mut coverage: BTreeMap<(u8, &'static str), usize> = BTreeMap::new();
    let mut chip_cov: BTreeMap<String, usize> = BTreeMap::new();
    let mut deltas: BTreeSet<u64> = BTreeSet::new();
    let mut mem_kinds: BTreeMap<&'static str, usize> = BTreeMap::new();
    let mut honest_fail = 0usize;
    let mut total_frames = 0usize;

    for (pi, p) in progs.iter().enumerate() {
        let h = build(pi, p);
        assert_eq!(names.len(), h.air.context().num_main_transition_constraints(), "constraint name table out of date");
        // --- sanity: honest row pairs evaluate to all zeros ---
        let mut ev = Evaluator::new(&h);
        for row in 0..h.num_frames {
            let per = ev.periodic(row);
            let mf = EvaluationFrame::from_rows(h.main[row].clone(), h.main[row + 1].clone());
            let afs: Vec<EvaluationFrame<Q>> = (0..NUM_CHALLENGE_SETS)
                .map(|k| EvaluationFrame::from_rows(h.aux[k][row].clone(), h.aux[k][row + 1].clone()))
                .collect();
            let (m, a) = ev.eval(row, &mf, &afs, &per);
            if m || a {
                honest_fail += 1;
                let nz: Vec<&String> = ev.main_res.iter().enumerate().filter(|(_, v)| **v != Felt::ZERO).map(|(i, _)| &names[i]).collect();
                println!("HONEST ROW PAIR NOT ZERO: {} row {} main {:?} aux {}", h.name, row, nz, a);
            }
        }
        // --- coverage bookkeeping ---
        for row in 0..h.num_frames {
            let cur = &h.main[row];
            let op = opcode_of(cur);
            let d = cur[B0_COL_IDX].as_int();
            let regime = if d == 16 { "depth 16" } else if d == 17 { "depth 17" } else { "depth >17" };
            *coverage.entry((op, regime)).or_default() += 1;
            let c = chip_of(cur);
            let cn = chip_of(&h.main[row + 1]);
            *chip_cov.entry(format!("{:?}->{:?}", c, cn)).or_default() += 1;
            let dv = (h.main[row + 1][V_COL_IDX] - cur[V_COL_IDX]).as_int();
            deltas.insert(dv);
            if c == Chip::Memory && cn == Chip::Memory {
                *mem_kinds.entry(rules::memory_kind(cur, &h.main[row + 1])).or_default() += 1;
            }
        }
        total_frames += h.num_frames;
        if args.iter().any(|a| a == "--dump-mem") {
            for (r, row) in h.main.iter().enumerate() {
                if chip_of(row) == Chip::Memory {
                    let c: Vec<u64> = (0..CHIPLETS_WIDTH).map(|k| row[CHIPLETS_OFFSET + k].as_int()).collect();
                    println!("   mem row {r}: s0 {} s1 {} ctx {} addr {} clk {} v {:?} d0 {} d1 {} d_inv {}", c[3], c[4], c[5], c[6], c[7], &c[8..12], c[12], c[13], c[14]);
                }
            }
        }

        // --- fault enumeration ---
        let rows: Vec<usize> = (0..h.num_frames).collect();
        let chunk = (rows.len() + threads - 1) / threads;
        std::thread::scope(|s| {
            for part in rows.chunks(chunk.max(1)) {
                let h = &h;
                let sink = &sink;
                let counters = &counters;
                s.spawn(move || enumerate_rows(h, part, explore, sink, counters));
            }
        });
    }

    // ---- reports ----
    println!("\n== coverage: {} programs, {} row pairs", progs.len(), total_frames);
    let mut by_op: BTreeMap<u8, Vec<String>> = BTreeMap::new();
    for ((op, regime), n) in &coverage {
        by_op.entry(*op).or_default().push(format!("{regime}: {n}"));
    }
    for (op, v) in &by_op {
        println!("   op {:>3} {:<10} {}", op, op_name(*op), v.join(", "));
    }
    println!("   chiplet row pairs: {:?}", chip_cov);
    println!("   memory row-pair kinds: {:?}", mem_kinds);
    println!("   range checker deltas seen: {:?}", deltas);
    let (n_cells, n_subst) = *counters.lock().unwrap();
    println!("   cells enumerated: {n_cells}, substitutions evaluated: {n_subst}");

    let mut und = sink.into_inner().unwrap();
    und.sort_by(|a, b| (a.prog_idx, a.row, &a.cell, &a.wrong).cmp(&(b.prog_idx, b.row, &b.cell, &b.wrong)));
    if explore {
        let mut agg: BTreeMap<String, (usize, String)> = BTreeMap::new();
        for u in &und {
            let e = agg.entry(u.key.clone()).or_insert((0, format!("{} row {} {} {} -> {}", u.prog, u.row, u.cell, u.honest, u.wrong)));
            e.0 += 1;
        }
        println!("\n== EXPLORE: undetected substitutions by class");
        for (k, (n, ex)) in &agg {
            println!("   {n:>7}  {k}    e.g. {ex}");
        }
        return;
    }

    let excluded: Vec<&Undetected> = und.iter().filter(|u| u.excluded.is_some()).collect();
    let pre: Vec<&Undetected> = und.iter().filter(|u| u.excluded.is_none() && u.preexisting.is_some()).collect();
    let fails: Vec<&Undetected> = und.iter().filter(|u| u.excluded.is_none() && u.preexisting.is_none()).collect();

    println!("\n== undetected substitutions in cells EXCLUDED by the documentation (bus / multiset / decoder / advice): {}", excluded.len());
    let mut agg: BTreeMap<&str, usize> = BTreeMap::new();
    for u in &excluded {
        *agg.entry(u.excluded.unwrap()).or_default() += 1;
    }
    for (k, n) in agg {
        println!("   {n:>8}  {k}");
    }

    println!("\n== cells left free by the UNCHANGED code (reported separately, excluded from the verdict): {}", pre.len());
    let mut agg: BTreeMap<&str, (usize, String)> = BTreeMap::new();
    for u in &pre {
        let e = agg.entry(u.preexisting.unwrap()).or_insert((0, format!("{} row {} [{}] {} honest {} -> {}", u.prog, u.row, u.what, u.cell, u.honest, u.wrong)));
        e.0 += 1;
    }
    for (k, (n, ex)) in agg {
        println!("   {n:>8}  {k}\n             first: {ex}");
    }

    // full list of the distinct pre-existing free cells
    {
        let mut seen = BTreeSet::new();
        let mut out = String::new();
        for u in &pre {
            if seen.insert((u.prog_idx, u.row, u.cell.clone())) {
                out.push_str(&format!("{} | row pair ({}, {}) [{}] | {} | honest {} | {}\n", u.prog, u.row, u.row + 1, u.what, u.cell, u.honest, u.preexisting.unwrap()));
            }
        }
        let _ = &out;
        println!("   ({} distinct program / row / cell combinations)", seen.len());
    }

    // ---- machine-readable part (read by lib/bounded_tools.py: check_air_fault_enum) ----
    {
        let mut agg: BTreeMap<&str, (usize, String)> = BTreeMap::new();
        for u in &pre {
            let e = agg.entry(u.preexisting.unwrap()).or_insert((0, format!("program {} row pair ({}, {}) [{}] cell {} honest {} -> {}", u.prog, u.row, u.row + 1, u.what, u.cell, u.honest, u.wrong)));
            e.0 += 1;
        }
        for (k, (n, ex)) in agg {
            println!("FAILCASE free :: {} :: {} substitutions undetected :: first: {}", k, n, ex);
        }
        let mut per_class: BTreeMap<String, (usize, String)> = BTreeMap::new();
        for u in &fails {
            let e = per_class.entry(u.key.clone()).or_insert((0, format!("program {} row pair ({}, {}) [{}] cell {} honest {} -> {}", u.prog, u.row, u.row + 1, u.what, u.cell, u.honest, u.wrong)));
            e.0 += 1;
        }
        for (k, (n, ex)) in per_class {
            println!("FAILCASE fail :: {} :: {} substitutions left every constraint at zero :: first: {}", k, n, ex);
        }
        if honest_fail > 0 {
            println!("FAILCASE honest :: honest row pairs :: {} honest row pairs have a non-zero constraint :: -", honest_fail);
        }
        println!("SUMMARY undetected_enforced={} preexisting={} excluded={} honest_fail={}", fails.len(), pre.len(), excluded.len(), honest_fail);
    }
    println!("\n== sanity: honest row pairs with a non-zero constraint: {honest_fail}");
    println!("\n== VERDICT");
    if fails.is_empty() && honest_fail == 0 {
        println!("PASS: every substitution into an enforced cell made at least one transition constraint non-zero");
        return;
    }
    println!("FAIL: {} substitutions into enforced cells left ALL {} main and {} auxiliary transition constraints at zero", fails.len(), names.len(), 1);
    let mut shown = 0;
    let mut per_class: BTreeMap<String, usize> = BTreeMap::new();
    for u in &fails {
        let c = per_class.entry(u.key.clone()).or_default();
        *c += 1;
        if *c <= 3 && shown < 60 {
            shown += 1;
            println!("  program {:<34} row pair ({}, {}) [{}]", u.prog, u.row, u.row + 1, u.what);
            println!("      cell {:<28} honest value {} -> substituted {}", u.cell, u.honest, u.wrong);
            if *c == 1 {
                let owner = rules::owner_constraints(&u.cell, &names);
                println!("      constraints that stayed zero: all {} main constraints and the aux b_range constraint (x{} challenge sets); those of the owning component are:", names.len(), NUM_CHALLENGE_SETS);
                for o in owner {
                    println!("          = 0  {o}");
                }
            } else {
                println!("      constraints that stayed zero: all {} main + aux (same list as above)", names.len());
            }
        }
    }
    println!("  -- failing substitutions by class:");
    for (k, n) in per_class {
        println!("   {n:>7}  {k}");
    }
    std::process::exit(1);
}
