//! Family 1: spans and control blocks built directly with the CodeBlock constructors.

use crate::check::*;
use crate::spec::*;
use vm_core::{
    code_blocks::CodeBlock, AdviceInjector, Decorator, DecoratorList, Felt, Operation,
};

pub struct Rng(pub u64);
impl Rng {
    pub fn next(&mut self) -> u64 {
        // xorshift64*
        let mut x = self.0;
        x ^= x >> 12;
        x ^= x << 25;
        x ^= x >> 27;
        self.0 = x;
        x.wrapping_mul(0x2545F4914F6CDD1D)
    }
    pub fn below(&mut self, n: u64) -> u64 {
        self.next() % n
    }
}

/// Non-push operations used to fill the non-push positions (no NOOP, so that different
/// sequences must have different hashes).
pub const FILL: [Operation; 16] = [
    Operation::Add,
    Operation::Mul,
    Operation::Swap,
    Operation::Drop,
    Operation::Dup0,
    Operation::Neg,
    Operation::Incr,
    Operation::MovUp2,
    Operation::Pad,
    Operation::Eq,
    Operation::MovDn3,
    Operation::SwapW,
    Operation::Dup7,
    Operation::U32add,
    Operation::HPerm,
    Operation::MrUpdate,
];

/// Builds an operation sequence from a push / non-push pattern.
pub fn ops_from_pattern(pattern: &[bool], salt: u64) -> Vec<Operation> {
    pattern
        .iter()
        .enumerate()
        .map(|(i, &p)| {
            if p {
                // immediates: distinct, sometimes large (full 64-bit range of the field)
                let v = match (i as u64 + salt) % 4 {
                    0 => 2 + i as u64 + salt,
                    1 => 0xffff_ffff_0000_0000 - (i as u64) - salt,
                    2 => (i as u64 + 1) << 40 | salt,
                    _ => 1000 + 7 * i as u64,
                };
                Operation::Push(Felt::new(v))
            } else {
                FILL[(i + salt as usize) % FILL.len()]
            }
        })
        .collect()
}

fn pat_string(pattern: &[bool]) -> String {
    pattern.iter().map(|&p| if p { 'P' } else { '.' }).collect()
}

pub fn check_pattern(rep: &mut Report, cat: &str, pattern: &[bool], salt: u64, unique: bool) {
    let ops = ops_from_pattern(pattern, salt);
    let block = CodeBlock::new_span(ops.clone());
    let ctx = format!("span built with CodeBlock::new_span, pattern {}", pat_string(pattern));
    if let CodeBlock::Span(span) = &block {
        check_span(rep, cat, &ops, span, &ctx);
    }
    if unique {
        rep.unique_root(
            &format!("{cat}/unique-root"),
            block.hash(),
            canon(&SNode::Span(ops.clone())),
        );
    }
}

pub fn run_span_family(rep: &mut Report) {
    // --- (a) every push / non-push pattern up to length 12 ---------------------------------
    for len in 1..=12usize {
        for bits in 0..(1u32 << len) {
            let pattern: Vec<bool> = (0..len).map(|i| bits >> i & 1 == 1).collect();
            check_pattern(rep, "span-exhaustive<=12", &pattern, 0, true);
        }
    }

    // --- (b) every length 1..160, structured push positions ---------------------------------
    for len in 1..=160usize {
        // no pushes, all pushes
        check_pattern(rep, "span-structured", &vec![false; len], 1, true);
        check_pattern(rep, "span-structured", &vec![true; len], 1, true);
        // every k-th position (with every phase)
        for k in 2..=10usize {
            for phase in 0..k {
                let p: Vec<bool> = (0..len).map(|i| i % k == phase).collect();
                check_pattern(rep, "span-structured", &p, 1, true);
                // and the complement
                let q: Vec<bool> = p.iter().map(|x| !x).collect();
                check_pattern(rep, "span-structured", &q, 1, true);
            }
        }
    }
    // single push at every position, two pushes at every pair of positions (up to 82 ops)
    for len in [9usize, 10, 17, 18, 19, 27, 63, 64, 65, 71, 72, 73, 80, 81, 82] {
        for i in 0..len {
            let mut p = vec![false; len];
            p[i] = true;
            check_pattern(rep, "span-single-push", &p, 2, true);
        }
    }
    for i in 0..82usize {
        for j in (i + 1)..82 {
            let mut p = vec![false; 82];
            p[i] = true;
            p[j] = true;
            check_pattern(rep, "span-two-pushes", &p, 3, false);
        }
    }
    // a leading pushes, n other ops, one push, m other ops, one push, tail: places an immediate
    // in every group of a batch, including the last one, with every op index of the pushing op
    for a in 0..=8usize {
        for n in 0..=75usize {
            for m in [0usize, 1, 2, 7, 8, 9, 10] {
                for tail in [0usize, 1, 9] {
                    let mut p = vec![true; a];
                    p.extend(vec![false; n]);
                    p.push(true);
                    p.extend(vec![false; m]);
                    p.push(true);
                    p.extend(vec![false; tail]);
                    check_pattern(rep, "span-imm-every-slot", &p, 4, false);
                }
            }
        }
    }
    // g groups: each group is `k` pushes at offset `o` inside 9 ops; reaches every
    // (op index, group index, next group index) combination
    for k in 0..=7usize {
        for o in 0..=8usize {
            for groups in 1..=10usize {
                for k2 in 0..=3usize {
                    let mut p = Vec::new();
                    for g in 0..groups {
                        let kk = if g % 2 == 0 { k } else { k2 };
                        for i in 0..9usize {
                            p.push(i >= o && i < o + kk);
                        }
                    }
                    check_pattern(rep, "span-group-shapes", &p, 5, false);
                    p.push(true);
                    check_pattern(rep, "span-group-shapes", &p, 5, false);
                }
            }
        }
    }

    // --- (c) around 1..4 full batches +- 1 operation ----------------------------------------
    for batches in 1..=4usize {
        for delta in [-2i64, -1, 0, 1, 2] {
            let len = (72 * batches as i64 + delta) as usize;
            check_pattern(rep, "span-batch-boundary", &vec![false; len], 6, true);
            // one push anywhere in the last 20 positions and in the first 10
            for i in (0..10).chain(len.saturating_sub(20)..len) {
                let mut p = vec![false; len];
                p[i] = true;
                check_pattern(rep, "span-batch-boundary", &p, 6, false);
            }
        }
        // all-push spans: 7 pushes per batch
        for delta in [-1i64, 0, 1] {
            let len = (7 * batches as i64 + delta) as usize;
            if len > 0 {
                check_pattern(rep, "span-batch-boundary", &vec![true; len], 7, true);
            }
        }
    }

    // --- (d) random push positions, every length 1..160 --------------------------------------
    let mut rng = Rng(0x9E3779B97F4A7C15);
    for len in 1..=160usize {
        for density in [3u64, 10, 25, 50, 80, 95] {
            for _ in 0..40 {
                let p: Vec<bool> = (0..len).map(|_| rng.below(100) < density).collect();
                let salt = rng.below(1000);
                check_pattern(rep, "span-random", &p, salt, true);
            }
        }
    }
    // longer random spans
    for _ in 0..300 {
        let len = 160 + rng.below(600) as usize;
        let density = [2u64, 10, 30, 60][rng.below(4) as usize];
        let p: Vec<bool> = (0..len).map(|_| rng.below(100) < density).collect();
        check_pattern(rep, "span-random-long", &p, rng.below(1000), true);
    }

    // --- decorators do not change the hash of a span ---------------------------------------
    for len in [1usize, 5, 9, 10, 30, 73] {
        let p: Vec<bool> = (0..len).map(|i| i % 3 == 1).collect();
        let ops = ops_from_pattern(&p, 8);
        let plain = CodeBlock::new_span(ops.clone());
        for pos in 0..=len {
            for d in [
                Decorator::Event(7),
                Decorator::Trace(9),
                Decorator::Advice(AdviceInjector::MapValueToStack { include_len: false, key_offset: 0 }),
                Decorator::Debug(vm_core::DebugOptions::StackAll),
            ] {
                let mut dl = DecoratorList::new();
                dl.push((pos, d.clone()));
                let with = CodeBlock::new_span_with_decorators(ops.clone(), dl);
                rep.check("span-decorator-invariance", with.hash() == plain.hash(), || {
                    format!(
                        "decorator {d} at position {pos} changes the hash of {}: {} vs {}",
                        fmt_ops(&ops),
                        hex(&with.hash()),
                        hex(&plain.hash())
                    )
                });
            }
        }
    }

    // --- sensitivity: replacing any single operation / immediate changes the hash ----------
    for len in [1usize, 2, 8, 9, 10, 17, 18, 19, 26, 64, 72, 73, 74, 100, 145] {
        for variant in 0..3u64 {
            let p: Vec<bool> = (0..len).map(|i| (i as u64 * 7 + variant) % 5 < variant + 1).collect();
            let ops = ops_from_pattern(&p, 9);
            let base = CodeBlock::new_span(ops.clone()).hash();
            rep.check("span-sensitivity", base == spec_span_hash(&ops.iter().map(sop).collect::<Vec<_>>()), || {
                format!("base span {} has wrong hash", fmt_ops(&ops))
            });
            for i in 0..len {
                let mut m = ops.clone();
                m[i] = match m[i] {
                    Operation::Push(v) => Operation::Push(v + Felt::new(1)),
                    Operation::Add => Operation::Mul,
                    _ => Operation::Add,
                };
                let h = CodeBlock::new_span(m.clone()).hash();
                rep.check("span-sensitivity", h != base, || {
                    format!(
                        "replacing op #{i} ({} -> {}) in {} does not change the hash {}",
                        ops[i],
                        m[i],
                        fmt_ops(&ops),
                        hex(&base)
                    )
                });
                // push <-> non-push
                let mut m2 = ops.clone();
                m2[i] = match m2[i] {
                    Operation::Push(_) => Operation::Swap,
                    _ => Operation::Push(Felt::new(77)),
                };
                let h2 = CodeBlock::new_span(m2.clone()).hash();
                rep.check("span-sensitivity", h2 != base, || {
                    format!(
                        "replacing op #{i} ({} -> {}) in {} does not change the hash {}",
                        ops[i],
                        m2[i],
                        fmt_ops(&ops),
                        hex(&base)
                    )
                });
                // and the mutated spans are themselves hashed per spec
                if let CodeBlock::Span(s) = &CodeBlock::new_span(m2.clone()) {
                    check_span(rep, "span-sensitivity-mutants", &m2, s, "mutant span");
                }
            }
        }
    }
}

// CONTROL BLOCKS BUILT DIRECTLY
// ================================================================================================

fn leaf(i: u64) -> SNode {
    let len = 1 + (i % 5) as usize;
    let p: Vec<bool> = (0..len).map(|k| (k as u64 + i) % 3 == 0).collect();
    SNode::Span(ops_from_pattern(&p, 100 + i))
}

fn random_tree(rng: &mut Rng, depth: usize) -> SNode {
    if depth == 0 || rng.below(5) == 0 {
        return match rng.below(8) {
            0 => SNode::Dyn,
            1 => SNode::DynCall,
            _ => leaf(rng.below(50)),
        };
    }
    match rng.below(6) {
        0 | 1 => SNode::Join(Box::new(random_tree(rng, depth - 1)), Box::new(random_tree(rng, depth - 1))),
        2 => SNode::Split(Box::new(random_tree(rng, depth - 1)), Box::new(random_tree(rng, depth - 1))),
        3 => SNode::Loop(Box::new(random_tree(rng, depth - 1))),
        4 => SNode::Call(Box::new(random_tree(rng, depth - 1))),
        _ => SNode::SysCall(Box::new(random_tree(rng, depth - 1))),
    }
}

pub fn check_tree(rep: &mut Report, cat: &str, t: &SNode) {
    let cb = to_codeblock(t);
    let e = spec_hash(t);
    rep.check(&format!("{cat}/root"), cb.hash() == e, || {
        format!("tree {}: expected root {} actual {}", canon(t), hex(&e), hex(&cb.hash()))
    });
    check_block(rep, cat, &cb, None, &format!("tree {}", canon(t)));
    rep.unique_root(&format!("{cat}/unique-root"), cb.hash(), canon(t));
}

pub fn run_ctrl_family(rep: &mut Report) {
    // all node kinds over all pairs of a few leaves (child order matters, domains differ)
    let leaves: Vec<SNode> = (0..6).map(leaf).chain([SNode::Dyn, SNode::DynCall]).collect();
    for a in &leaves {
        check_tree(rep, "ctrl-direct", a);
        check_tree(rep, "ctrl-direct", &SNode::Loop(Box::new(a.clone())));
        check_tree(rep, "ctrl-direct", &SNode::Call(Box::new(a.clone())));
        check_tree(rep, "ctrl-direct", &SNode::SysCall(Box::new(a.clone())));
        for b in &leaves {
            check_tree(rep, "ctrl-direct", &SNode::Join(Box::new(a.clone()), Box::new(b.clone())));
            check_tree(rep, "ctrl-direct", &SNode::Split(Box::new(a.clone()), Box::new(b.clone())));
        }
    }
    // random trees nested to depth 4
    let mut rng = Rng(0xC0FFEE);
    for _ in 0..3000 {
        let t = random_tree(&mut rng, 4);
        check_tree(rep, "ctrl-direct-random", &t);
    }
}
