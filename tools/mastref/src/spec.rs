//! Independent implementation of the MAST hash, written from docs/src/design/programs.md and the
//! opcode table of docs/src/design/stack/op_constraints.md. The only thing taken from a library
//! is the RPO hash function itself (miden-crypto).

use miden_crypto::hash::rpo::{Rpo256, RpoDigest};
use vm_core::{Felt, Operation, StarkField, ZERO};

pub const OPC_PUSH: u8 = 100;
pub const OPC_SPLIT: u64 = 84;
pub const OPC_LOOP: u64 = 85;
pub const OPC_JOIN: u64 = 87;
pub const OPC_DYN: u64 = 88;
pub const OPC_SYSCALL: u64 = 104;
pub const OPC_CALL: u64 = 108;

/// Opcode table (docs/src/design/stack/op_constraints.md).
pub fn spec_opcode(op: &Operation) -> u8 {
    use Operation::*;
    match op {
        Noop => 0,
        Eqz => 1,
        Neg => 2,
        Inv => 3,
        Incr => 4,
        Not => 5,
        FmpAdd => 6,
        MLoad => 7,
        Swap => 8,
        Caller => 9,
        MovUp2 => 10,
        MovDn2 => 11,
        MovUp3 => 12,
        MovDn3 => 13,
        AdvPopW => 14,
        Expacc => 15,
        MovUp4 => 16,
        MovDn4 => 17,
        MovUp5 => 18,
        MovDn5 => 19,
        MovUp6 => 20,
        MovDn6 => 21,
        MovUp7 => 22,
        MovDn7 => 23,
        SwapW => 24,
        Ext2Mul => 25,
        MovUp8 => 26,
        MovDn8 => 27,
        SwapW2 => 28,
        SwapW3 => 29,
        SwapDW => 30,
        Assert(_) => 32,
        Eq => 33,
        Add => 34,
        Mul => 35,
        And => 36,
        Or => 37,
        U32and => 38,
        U32xor => 39,
        FriE2F4 => 40,
        Drop => 41,
        CSwap => 42,
        CSwapW => 43,
        MLoadW => 44,
        MStore => 45,
        MStoreW => 46,
        FmpUpdate => 47,
        Pad => 48,
        Dup0 => 49,
        Dup1 => 50,
        Dup2 => 51,
        Dup3 => 52,
        Dup4 => 53,
        Dup5 => 54,
        Dup6 => 55,
        Dup7 => 56,
        Dup9 => 57,
        Dup11 => 58,
        Dup13 => 59,
        Dup15 => 60,
        AdvPop => 61,
        SDepth => 62,
        Clk => 63,
        U32add => 64,
        U32sub => 66,
        U32mul => 68,
        U32div => 70,
        U32split => 72,
        U32assert2(_) => 74,
        U32add3 => 76,
        U32madd => 78,
        HPerm => 80,
        MpVerify => 81,
        Pipe => 82,
        MStream => 83,
        RCombBase => 89,
        MrUpdate => 96,
        Push(_) => OPC_PUSH,
        other => panic!("operation {other} is not a span operation"),
    }
}

/// (opcode, immediate) form of an operation - all that the hash may depend on.
pub type SOp = (u8, Option<u64>);

pub fn sop(op: &Operation) -> SOp {
    let imm = match op {
        Operation::Push(v) => Some(v.as_int()),
        _ => None,
    };
    (spec_opcode(op), imm)
}

#[derive(Clone, Debug)]
pub enum Slot {
    Ops(Vec<u8>),
    Imm(u64),
}

/// Lays out operations into batches of groups according to the documented rules:
/// - up to 9 operations per group, up to 8 groups per batch
/// - the immediate of an operation goes into the next free group of the same batch
/// - an operation with an immediate cannot sit in the last (9th) slot of a group
/// - if the operation (and its immediate) does not fit into the batch, a new batch is started
pub fn spec_layout(ops: &[SOp]) -> Vec<Vec<Slot>> {
    assert!(!ops.is_empty());
    let mut batches = Vec::new();
    let mut cur: Vec<Slot> = vec![Slot::Ops(Vec::new())];
    let mut open = 0usize;
    for &(code, imm) in ops {
        loop {
            let used = match &cur[open] {
                Slot::Ops(v) => v.len(),
                Slot::Imm(_) => unreachable!(),
            };
            let (fresh_group, extra_slots) = match imm {
                None => {
                    if used < 9 {
                        (false, 0)
                    } else {
                        (true, 1)
                    }
                }
                Some(_) => {
                    if used < 8 {
                        (false, 1)
                    } else {
                        (true, 2)
                    }
                }
            };
            if cur.len() + extra_slots > 8 {
                batches.push(std::mem::replace(&mut cur, vec![Slot::Ops(Vec::new())]));
                open = 0;
                continue;
            }
            if fresh_group {
                cur.push(Slot::Ops(Vec::new()));
                open = cur.len() - 1;
            }
            if let Slot::Ops(v) = &mut cur[open] {
                v.push(code);
            }
            if let Some(v) = imm {
                cur.push(Slot::Imm(v));
            }
            break;
        }
    }
    batches.push(cur);
    batches
}

/// Group values (8 per batch, zero padded) of the documented layout.
pub fn spec_groups(ops: &[SOp]) -> Vec<([u64; 8], usize)> {
    spec_layout(ops)
        .iter()
        .map(|batch| {
            let mut g = [0u64; 8];
            for (i, slot) in batch.iter().enumerate() {
                g[i] = match slot {
                    Slot::Imm(v) => *v,
                    Slot::Ops(codes) => {
                        let mut val = 0u64;
                        for (k, c) in codes.iter().enumerate() {
                            val |= (*c as u64) << (7 * k);
                        }
                        val
                    }
                };
            }
            (g, batch.len())
        })
        .collect()
}

pub fn hash_groups(batches: &[[u64; 8]]) -> RpoDigest {
    let flat: Vec<Felt> = batches.iter().flat_map(|b| b.iter().map(|v| Felt::new(*v))).collect();
    Rpo256::hash_elements(&flat)
}

pub fn spec_span_hash(ops: &[SOp]) -> RpoDigest {
    let g: Vec<[u64; 8]> = spec_groups(ops).into_iter().map(|x| x.0).collect();
    hash_groups(&g)
}

pub fn spec_ctrl_hash(a: RpoDigest, b: RpoDigest, domain: u64) -> RpoDigest {
    Rpo256::merge_in_domain(&[a, b], Felt::new(domain))
}

pub fn zero_digest() -> RpoDigest {
    RpoDigest::new([ZERO; 4])
}

/// Decodes the 8 groups of one batch back into (opcode, immediate) pairs, including NOOPs.
/// Returns an error if the groups violate a documented rule.
pub fn decode_batch(groups: &[u64; 8]) -> Result<Vec<SOp>, String> {
    let mut is_imm = [false; 8];
    let mut next_free = 1usize;
    let mut out = Vec::new();
    for g in 0..8 {
        if is_imm[g] {
            continue;
        }
        if next_free < g + 1 {
            next_free = g + 1;
        }
        let mut v = groups[g];
        if v >> 63 != 0 {
            return Err(format!("group {g} = {v:#x} does not fit 9 x 7 bits"));
        }
        for k in 0..9 {
            let code = (v & 0x7f) as u8;
            v >>= 7;
            if code == OPC_PUSH {
                if k == 8 {
                    return Err(format!("group {g}: PUSH in the last slot of a group"));
                }
                if next_free >= 8 {
                    return Err(format!("group {g} slot {k}: no group left for the immediate"));
                }
                is_imm[next_free] = true;
                out.push((code, Some(groups[next_free])));
                next_free += 1;
            } else {
                out.push((code, None));
            }
        }
    }
    Ok(out)
}

pub fn strip_noops(ops: &[SOp]) -> Vec<SOp> {
    ops.iter().copied().filter(|o| o.0 != 0).collect()
}

// SPEC MAST
// ================================================================================================

#[derive(Clone, Debug)]
pub enum SNode {
    Span(Vec<Operation>),
    Join(Box<SNode>, Box<SNode>),
    Split(Box<SNode>, Box<SNode>),
    Loop(Box<SNode>),
    Call(Box<SNode>),
    SysCall(Box<SNode>),
    Dyn,
    DynCall,
}

pub fn spec_hash(n: &SNode) -> RpoDigest {
    match n {
        SNode::Span(ops) => {
            let s: Vec<SOp> = ops.iter().map(sop).collect();
            spec_span_hash(&s)
        }
        SNode::Join(a, b) => spec_ctrl_hash(spec_hash(a), spec_hash(b), OPC_JOIN),
        SNode::Split(a, b) => spec_ctrl_hash(spec_hash(a), spec_hash(b), OPC_SPLIT),
        SNode::Loop(a) => spec_ctrl_hash(spec_hash(a), zero_digest(), OPC_LOOP),
        SNode::Call(a) => spec_ctrl_hash(spec_hash(a), zero_digest(), OPC_CALL),
        SNode::SysCall(a) => spec_ctrl_hash(spec_hash(a), zero_digest(), OPC_SYSCALL),
        SNode::Dyn => spec_ctrl_hash(zero_digest(), zero_digest(), OPC_DYN),
        SNode::DynCall => {
            spec_ctrl_hash(spec_hash(&SNode::Dyn), zero_digest(), OPC_CALL)
        }
    }
}
