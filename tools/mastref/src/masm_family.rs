//! Family 2: programs assembled from MASM source (release and debug assembly mode).

use crate::check::*;
use crate::masm::*;
use crate::spans::Rng;
use crate::spec::*;
use miden_assembly::Assembler;
use miden_processor::{execute, DefaultHost, ExecutionOptions, StackInputs};
use vm_core::{code_blocks::CodeBlock, Operation, Program};

pub fn assemble(p: &Prog, style: Style, debug: bool) -> Result<Program, String> {
    let r = Renderer { style };
    let src = r.program(p);
    let mut asm = Assembler::default().with_debug_mode(debug);
    if let Some(k) = r.kernel(p) {
        asm = asm.with_kernel(&k).map_err(|e| format!("kernel: {e}\n{k}"))?;
    }
    // the assembler may panic on some inputs (known: bodies consisting only of decorators)
    let res = std::panic::catch_unwind(std::panic::AssertUnwindSafe(|| asm.compile(&src)));
    match res {
        Ok(Ok(p)) => Ok(p),
        Ok(Err(e)) => Err(format!("assembly error: {e}\n{src}")),
        Err(_) => Err(format!("assembler panicked\n{src}")),
    }
}

/// Checks one program: spec-predicted root, node-by-node recomputation, mode / style invariance,
/// optionally execution.
pub fn check_prog(rep: &mut Report, cat: &str, p: &Prog, exec: bool) {
    let src = Renderer { style: Style::Plain }.program(p);
    let sa = SpecAsm { prog: p };
    let exp_tree = sa.root();
    let exp = spec_hash(&exp_tree);

    let base = match assemble(p, Style::Plain, false) {
        Ok(x) => x,
        Err(e) => {
            rep.fail(&format!("{cat}/assemble"), e);
            return;
        }
    };
    rep.ok(&format!("{cat}/assemble"));

    // (1) root predicted by the spec assembler + spec hash
    rep.check(&format!("{cat}/root"), base.hash() == exp, || {
        format!(
            "program:\n{src}\n   expected root {} (spec MAST {})\n   actual   root {}\n   actual MAST: {}",
            hex(&exp),
            canon(&exp_tree),
            hex(&base.hash()),
            base.root()
        )
    });
    // (1b) node by node
    check_block(rep, cat, base.root(), Some(base.cb_table()), &format!("program:\n{src}"));
    rep.unique_root(&format!("{cat}/unique-root"), base.hash(), canon(&exp_tree));

    // (3) invariance: styles x debug mode
    for style in [Style::Plain, Style::Comments, Style::OneLine, Style::Spacey, Style::Renamed] {
        for debug in [false, true] {
            if style == Style::Plain && !debug {
                continue;
            }
            match assemble(p, style, debug) {
                Ok(q) => {
                    rep.check(&format!("{cat}/invariance"), q.hash() == base.hash(), || {
                        format!(
                            "program:\n{src}\n   style {style:?} debug={debug}: root {} != {}",
                            hex(&q.hash()),
                            hex(&base.hash())
                        )
                    });
                    if debug && style == Style::Plain {
                        check_block(rep, &format!("{cat}-dbg"), q.root(), Some(q.cb_table()), &format!("program (debug mode):\n{src}"));
                    }
                }
                Err(e) => rep.fail(&format!("{cat}/invariance"), format!("style {style:?} debug={debug}: {e}")),
            }
        }
    }

    // (4) execution
    if exec {
        exec_check(rep, cat, p, &base, &src);
    }
}

pub fn exec_check(rep: &mut Report, cat: &str, p: &Prog, program: &Program, src: &str) {
    let res = std::panic::catch_unwind(std::panic::AssertUnwindSafe(|| {
        execute(program, StackInputs::default(), DefaultHost::default(), ExecutionOptions::default())
    }));
    match res {
        Err(_) => rep.fail(&format!("{cat}/exec"), format!("execute() panicked for program:\n{src}")),
        Ok(Err(e)) => rep.fail(&format!("{cat}/exec"), format!("execute() failed: {e} for program:\n{src}")),
        Ok(Ok(trace)) => {
            rep.check(&format!("{cat}/exec-program-hash"), *trace.program_hash() == program.hash(), || {
                format!(
                    "trace.program_hash() {} != program.hash() {} for program:\n{src}",
                    hex(trace.program_hash()),
                    hex(&program.hash())
                )
            });
            let mut it = Interp::new(p);
            match it.run(&p.body) {
                Ok(()) => {
                    let exp = it.top16();
                    let act: Vec<u64> = trace.stack_outputs().stack().iter().take(16).copied().collect();
                    rep.check(&format!("{cat}/exec-result"), exp == act, || {
                        format!("program:\n{src}\n   expected stack {exp:?}\n   actual   stack {act:?}")
                    });
                }
                Err(e) => rep.fail(&format!("{cat}/exec-result"), format!("{e} for program:\n{src}")),
            }
        }
    }
}

// GENERATORS
// ================================================================================================

/// A self-contained chunk of instructions: never touches stack items below its own ones and
/// leaves the stack as it found it.
fn balanced_chunk(rng: &mut Rng, len: usize) -> Vec<M> {
    let mut out = Vec::new();
    let mut d = 0usize;
    for _ in 0..len {
        let r = rng.below(10);
        if d == 0 || r < 4 {
            out.push(push(2 + rng.below(1_000_000)));
            d += 1;
        } else if d >= 3 && r == 4 {
            out.push(ins("movup.2"));
        } else if d >= 3 && r == 5 {
            out.push(ins("movdn.2"));
        } else if d >= 2 && r == 6 {
            out.push(ins(["add", "mul", "sub", "eq"][rng.below(4) as usize]));
            d -= 1;
        } else if d >= 2 && r == 7 {
            out.push(ins("swap"));
        } else if r == 8 {
            out.push(ins("dup.0"));
            d += 1;
        } else {
            out.push(ins("neg"));
        }
    }
    for _ in 0..d {
        out.push(ins("drop"));
    }
    out
}

fn gen_body(rng: &mut Rng, depth: usize, nprocs: usize, nkernel: usize, allow_call: bool) -> Vec<M> {
    let n = 1 + rng.below(5) as usize;
    let mut out = Vec::new();
    for _ in 0..n {
        let r = if depth == 0 { rng.below(3) } else { rng.below(10) };
        match r {
            0 | 1 | 2 => {
                let l = 1 + rng.below(12) as usize;
                out.extend(balanced_chunk(rng, l))
            }
            3 | 4 => {
                // if / else, sometimes without else
                out.push(ins(if rng.below(2) == 0 { "push.1" } else { "push.0" }));
                let t = gen_body(rng, depth - 1, nprocs, nkernel, allow_call);
                let f = if rng.below(3) == 0 { vec![] } else { gen_body(rng, depth - 1, nprocs, nkernel, allow_call) };
                out.push(M::If(t, f));
            }
            5 => {
                // loop executed exactly once
                out.push(ins("push.1"));
                let mut b = gen_body(rng, depth - 1, nprocs, nkernel, allow_call);
                b.push(ins("push.0"));
                out.push(M::While(b));
            }
            6 => {
                let b = gen_body(rng, depth - 1, nprocs, nkernel, allow_call);
                out.push(M::Repeat(1 + rng.below(4) as usize, b));
            }
            7 if nprocs > 0 => out.push(M::Exec(rng.below(nprocs as u64) as usize)),
            8 if nprocs > 0 && allow_call => out.push(M::Call(rng.below(nprocs as u64) as usize)),
            9 if nkernel > 0 && allow_call => out.push(M::SysCall(rng.below(nkernel as u64) as usize)),
            _ => {
                let l = 1 + rng.below(6) as usize;
                out.extend(balanced_chunk(rng, l))
            }
        }
    }
    out
}

fn gen_prog(rng: &mut Rng, depth: usize) -> Prog {
    let nprocs = rng.below(4) as usize;
    let nkernel = rng.below(2) as usize;
    let mut p = Prog::default();
    for i in 0..nprocs {
        // procedures may only use procedures defined before them; no calls inside procedures
        // (a syscall may not be made from within a syscall; keep it simple)
        let body = gen_body(rng, depth.min(2), i, 0, false);
        p.procs.push(Proc { locals: rng.below(5) as u16, body });
    }
    for _ in 0..nkernel {
        let l = 1 + rng.below(10) as usize;
        let body = balanced_chunk(rng, l);
        p.kernel.push(Proc { locals: rng.below(3) as u16, body });
    }
    p.body = gen_body(rng, depth, nprocs, nkernel, true);
    p
}

fn flat_from_pattern(pattern: &[bool], salt: usize) -> Vec<M> {
    pattern
        .iter()
        .enumerate()
        .map(|(i, &is_push)| {
            if is_push {
                push(2 + (i as u64) * 3 + salt as u64)
            } else {
                ins(SAFE_INS[(i + salt) % SAFE_INS.len()])
            }
        })
        .collect()
}

/// A block which cannot be merged with a neighbouring span.
fn ctrl_sibling(i: usize) -> Vec<M> {
    match i % 3 {
        0 => vec![ins("push.1"), M::If(vec![push(10 + i as u64), ins("drop")], vec![])],
        1 => vec![ins("push.0"), M::If(vec![ins("push.0"), ins("drop")], vec![push(20 + i as u64), ins("drop")])],
        _ => vec![ins("push.0"), M::While(vec![push(30 + i as u64), ins("drop"), ins("push.0")])],
    }
}

pub fn run_masm_family(rep: &mut Report) {
    // --- flat programs: every push / non-push pattern up to length 10 (executed) ------------
    for len in 1..=10usize {
        for bits in 0..(1u32 << len) {
            let pattern: Vec<bool> = (0..len).map(|i| bits >> i & 1 == 1).collect();
            let p = Prog { body: flat_from_pattern(&pattern, 0), ..Default::default() };
            check_prog_light(rep, "masm-flat-exhaustive<=10", &p, true);
        }
    }
    // --- flat programs: lengths up to 160, structured + random (full checks on a subset) ----
    let mut rng = Rng(0xDEADBEEF12345);
    for len in 1..=160usize {
        for (j, density) in [0u64, 15, 50, 90, 100].into_iter().enumerate() {
            let pattern: Vec<bool> = (0..len).map(|_| rng.below(100) < density).collect();
            let p = Prog { body: flat_from_pattern(&pattern, len + j), ..Default::default() };
            if len % 8 == 0 {
                check_prog(rep, "masm-flat", &p, true);
            } else {
                check_prog_light(rep, "masm-flat", &p, true);
            }
        }
    }
    // around 1..4 full batches
    for batches in 1..=4usize {
        for delta in [-1i64, 0, 1] {
            let len = (72 * batches as i64 + delta) as usize;
            let p = Prog { body: flat_from_pattern(&vec![false; len], 1), ..Default::default() };
            check_prog_light(rep, "masm-flat-boundary", &p, true);
            let mut pat = vec![false; len];
            pat[len - 1] = true;
            let p = Prog { body: flat_from_pattern(&pat, 1), ..Default::default() };
            check_prog_light(rep, "masm-flat-boundary", &p, true);
        }
    }
    // k pushes, then n other instructions, for all k <= 9 and n <= 12 (immediates fill a batch)
    for k in 0..=9usize {
        for n in 0..=12usize {
            if k + n == 0 {
                continue;
            }
            let mut pat = vec![true; k];
            pat.extend(vec![false; n]);
            let p = Prog { body: flat_from_pattern(&pat, 2), ..Default::default() };
            check_prog_light(rep, "masm-pushes-then-ops", &p, true);
        }
    }

    // --- join chains of 1..9 sibling blocks ----------------------------------------------
    for n in 1..=9usize {
        // control blocks only
        let mut body = Vec::new();
        for i in 0..n {
            body.extend(ctrl_sibling(i));
        }
        // NOTE: each sibling is preceded by the span pushing its condition
        check_prog(rep, "masm-join-chain", &Prog { body, ..Default::default() }, true);
        // calls only: n siblings which are all non-span blocks
        let procs = vec![Proc { locals: 0, body: vec![push(5), ins("drop")] }];
        let body: Vec<M> = (0..n).map(|_| M::Call(0)).collect();
        check_prog(rep, "masm-join-chain", &Prog { procs: procs.clone(), body, ..Default::default() }, true);
        // calls interleaved with spans at every subset of positions (n <= 6)
        if n <= 6 {
            for mask in 0..(1u32 << (n + 1)) {
                let mut body = Vec::new();
                for i in 0..n {
                    if mask >> i & 1 == 1 {
                        body.push(push(100 + i as u64));
                        body.push(ins("drop"));
                    }
                    body.push(M::Call(0));
                }
                if mask >> n & 1 == 1 {
                    body.push(push(7));
                    body.push(ins("drop"));
                }
                check_prog_light(rep, "masm-join-chain-spans", &Prog { procs: procs.clone(), body, ..Default::default() }, true);
            }
        }
        // repeat.n of a control block, and of a span
        let body = vec![M::Repeat(n, ctrl_sibling(0))];
        check_prog(rep, "masm-repeat", &Prog { body, ..Default::default() }, true);
        let body = vec![M::Repeat(n, vec![push(3), ins("dup.0"), ins("mul"), ins("drop")])];
        check_prog(rep, "masm-repeat", &Prog { body, ..Default::default() }, true);
    }

    // --- procedures with 0..4 locals, exec / call / syscall, ending / starting with blocks ---
    for locals in 0..=4u16 {
        for shape in 0..4usize {
            let pbody = match shape {
                0 => vec![push(9), ins("drop")],
                1 => ctrl_sibling(0), // ends with a control block: the epilogue is its own span
                2 => {
                    let mut b = vec![ins("push.1"), M::If(vec![push(4), ins("drop")], vec![push(5), ins("drop")])];
                    b.extend(vec![push(6), ins("drop")]);
                    b
                }
                _ => vec![M::Repeat(3, vec![push(8), ins("neg"), ins("drop")])],
            };
            let procs = vec![Proc { locals, body: pbody.clone() }];
            let kernel = vec![Proc { locals, body: pbody.clone() }];
            for (name, body) in [
                ("exec", vec![M::Exec(0)]),
                ("exec-mid", vec![push(2), M::Exec(0), ins("drop")]),
                ("call", vec![M::Call(0)]),
                ("call-mid", vec![push(2), ins("drop"), M::Call(0), push(3), ins("drop")]),
                ("syscall", vec![M::SysCall(0)]),
                ("exec-twice", vec![M::Exec(0), M::Exec(0)]),
            ] {
                let p = Prog { procs: procs.clone(), kernel: kernel.clone(), body };
                check_prog(rep, &format!("masm-procs-{name}"), &p, true);
            }
        }
    }

    // --- dynexec / dyncall (hash only: executing them needs the callee hash on the stack) ----
    for body in [
        vec![M::DynExec],
        vec![M::DynCall],
        vec![push(2), ins("drop"), M::DynExec, push(3), ins("drop"), M::DynCall],
        vec![ins("push.1"), M::If(vec![M::DynExec], vec![M::DynCall])],
    ] {
        check_prog(rep, "masm-dyn", &Prog { body, ..Default::default() }, false);
    }
    // dynexec / dyncall executed through procref
    for instr in ["dynexec", "dyncall"] {
        let src = format!("proc.foo push.7 push.8 add drop end begin procref.foo {instr} end");
        match Assembler::default().compile(&src) {
            Ok(prog) => {
                check_block(rep, "masm-dyn-procref", prog.root(), Some(prog.cb_table()), &src);
                let foo = SNode::Span(vec![
                    Operation::Push(vm_core::Felt::new(7)),
                    Operation::Push(vm_core::Felt::new(8)),
                    Operation::Add,
                    Operation::Drop,
                ]);
                let h = spec_hash(&foo);
                let pushes: Vec<Operation> = h.as_elements().iter().map(|e| Operation::Push(*e)).collect();
                let d = if instr == "dynexec" { SNode::Dyn } else { SNode::DynCall };
                let exp = SNode::Join(Box::new(SNode::Span(pushes)), Box::new(d));
                rep.check("masm-dyn-procref/root", spec_hash(&exp) == prog.hash(), || {
                    format!("{src}: expected root {} actual {}", hex(&spec_hash(&exp)), hex(&prog.hash()))
                });
                let res = std::panic::catch_unwind(std::panic::AssertUnwindSafe(|| {
                    execute(&prog, StackInputs::default(), DefaultHost::default(), ExecutionOptions::default())
                }));
                match res {
                    Ok(Ok(t)) => {
                        rep.check("masm-dyn-procref/exec-program-hash", *t.program_hash() == prog.hash(), || src.clone());
                    }
                    Ok(Err(e)) => rep.fail("masm-dyn-procref/exec", format!("{src}: {e}")),
                    Err(_) => rep.fail("masm-dyn-procref/exec", format!("{src}: panic")),
                }
            }
            Err(e) => rep.fail("masm-dyn-procref/assemble", format!("{src}: {e}")),
        }
    }

    // --- random programs nested to depth 4 -------------------------------------------------
    let mut rng = Rng(0xABCDEF0123);
    for i in 0..400 {
        let p = gen_prog(&mut rng, 1 + (i % 4));
        check_prog(rep, "masm-random", &p, true);
    }

    // --- decorators: each kind inserted at each position ------------------------------------
    let decos = ["emit.5", "trace.6", "debug.stack", "adv.push_mapval", "adv.insert_mem", "adv.push_u64div"];
    let hosts: Vec<Prog> = vec![
        Prog { body: vec![push(3), push(4), ins("add"), ins("drop")], ..Default::default() },
        Prog {
            body: vec![push(3), ins("push.1"), M::If(vec![push(4), ins("drop")], vec![push(6), ins("drop")]), ins("drop")],
            ..Default::default()
        },
        Prog {
            procs: vec![Proc { locals: 2, body: vec![push(11), ins("drop")] }],
            body: vec![push(3), M::Exec(0), ins("drop"), M::Call(0), push(4), ins("drop")],
            ..Default::default()
        },
        Prog { body: flat_from_pattern(&[true, true, true, true, true, true, true, false, false, false], 0), ..Default::default() },
    ];
    for host in &hosts {
        let base = match assemble(host, Style::Plain, false) {
            Ok(b) => b,
            Err(e) => {
                rep.fail("masm-decorators/assemble", e);
                continue;
            }
        };
        for d in decos {
            // top-level positions of the main body
            for pos in 0..=host.body.len() {
                let mut q = host.clone();
                q.body.insert(pos, M::Dec(d.to_string()));
                for debug in [false, true] {
                    match assemble(&q, Style::Plain, debug) {
                        Ok(x) => {
                            rep.check("masm-decorators/invariance", x.hash() == base.hash(), || {
                                format!(
                                    "decorator {d} at position {pos} (debug={debug}) changes the root: {} vs {}\n{}",
                                    hex(&x.hash()),
                                    hex(&base.hash()),
                                    Renderer { style: Style::Plain }.program(&q)
                                )
                            });
                        }
                        Err(e) => rep.fail("masm-decorators/assemble", format!("decorator {d} at {pos} debug={debug}: {e}")),
                    }
                }
            }
            // inside nested bodies (not the only instruction of a body: known assembler panic)
            for (bi, m) in host.body.iter().enumerate() {
                if let M::If(t, f) = m {
                    for pos in 0..=t.len() {
                        let mut t2 = t.clone();
                        t2.insert(pos, M::Dec(d.to_string()));
                        let mut q = host.clone();
                        q.body[bi] = M::If(t2, f.clone());
                        for debug in [false, true] {
                            match assemble(&q, Style::Plain, debug) {
                                Ok(x) => {
                                    rep.check("masm-decorators/invariance", x.hash() == base.hash(), || {
                                        format!("decorator {d} in if-branch at {pos} (debug={debug}) changes the root")
                                    });
                                }
                                Err(e) => rep.fail("masm-decorators/assemble", format!("decorator {d} in branch at {pos}: {e}")),
                            }
                        }
                    }
                }
            }
        }
    }

    // --- sensitivity at the MASM level ------------------------------------------------------
    let mut rng = Rng(0x5EED);
    for i in 0..60 {
        let p = gen_prog(&mut rng, 1 + (i % 3));
        let base = match assemble(&p, Style::Plain, false) {
            Ok(b) => b,
            Err(_) => continue,
        };
        // replace each top-level instruction of the main body
        for pos in 0..p.body.len() {
            let repl = match &p.body[pos] {
                M::I(t, _) if t.starts_with("push.") && t != "push.0" && t != "push.1" => {
                    let v: u64 = t[5..].parse().unwrap();
                    push(v + 1)
                }
                M::I(t, _) if t == "add" => ins("mul"),
                M::I(_, _) => ins("add"),
                _ => continue,
            };
            let mut q = p.clone();
            q.body[pos] = repl;
            if let Ok(x) = assemble(&q, Style::Plain, false) {
                rep.check("masm-sensitivity", x.hash() != base.hash(), || {
                    format!(
                        "replacing instruction #{pos} does not change the root {}\n{}",
                        hex(&base.hash()),
                        Renderer { style: Style::Plain }.program(&p)
                    )
                });
                let sa = SpecAsm { prog: &q };
                rep.check("masm-sensitivity/root", spec_hash(&sa.root()) == x.hash(), || {
                    format!("mutant program has wrong root\n{}", Renderer { style: Style::Plain }.program(&q))
                });
            }
        }
    }
}

/// Root prediction + node check + debug-mode invariance + execution (no style variations).
pub fn check_prog_light(rep: &mut Report, cat: &str, p: &Prog, exec: bool) {
    let src = Renderer { style: Style::OneLine }.program(p);
    let sa = SpecAsm { prog: p };
    let exp_tree = sa.root();
    let exp = spec_hash(&exp_tree);
    let base = match assemble(p, Style::OneLine, false) {
        Ok(x) => x,
        Err(e) => {
            rep.fail(&format!("{cat}/assemble"), e);
            return;
        }
    };
    rep.check(&format!("{cat}/root"), base.hash() == exp, || {
        let diff = first_span_diff(base.root(), &exp_tree);
        format!(
            "program: {src}\n   expected root {}\n   actual   root {}\n   {diff}",
            hex(&exp),
            hex(&base.hash())
        )
    });
    check_block(rep, cat, base.root(), Some(base.cb_table()), &format!("program: {src}"));
    rep.unique_root(&format!("{cat}/unique-root"), base.hash(), canon(&exp_tree));
    match assemble(p, Style::OneLine, true) {
        Ok(q) => {
            rep.check(&format!("{cat}/invariance"), q.hash() == base.hash(), || {
                format!("program: {src}\n   debug mode root {} != {}", hex(&q.hash()), hex(&base.hash()))
            });
        }
        Err(e) => rep.fail(&format!("{cat}/invariance"), e),
    }
    if exec {
        exec_check(rep, cat, p, &base, &src);
    }
}

fn first_span_diff(cb: &CodeBlock, exp: &SNode) -> String {
    match (cb, exp) {
        (CodeBlock::Span(s), SNode::Span(ops)) => {
            let sops: Vec<SOp> = ops.iter().map(sop).collect();
            let e = spec_groups(&sops);
            let a: Vec<[u64; 8]> = s
                .op_batches()
                .iter()
                .map(|b| {
                    let mut g = [0u64; 8];
                    for (i, v) in b.groups().iter().enumerate() {
                        g[i] = vm_core::StarkField::as_int(v);
                    }
                    g
                })
                .collect();
            for bi in 0..e.len().max(a.len()) {
                match (e.get(bi), a.get(bi)) {
                    (Some(x), Some(y)) => {
                        for gi in 0..8 {
                            if x.0[gi] != y[gi] {
                                return format!(
                                    "first differing group: batch {bi} group {gi}: expected {:#x} actual {:#x}",
                                    x.0[gi], y[gi]
                                );
                            }
                        }
                    }
                    _ => return format!("number of batches differs: expected {} actual {}", e.len(), a.len()),
                }
            }
            "groups identical".into()
        }
        _ => "root is not a single span".into(),
    }
}
