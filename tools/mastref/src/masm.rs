//! A small MASM program model: rendering to source text (in several styles), an independent
//! "spec assembler" producing the expected MAST, and a reference interpreter.

use crate::spec::SNode;
use vm_core::{Felt, FieldElement, Operation, StarkField, ONE, ZERO};

#[derive(Clone, Debug)]
pub enum M {
    /// instruction text and the operations it stands for
    I(String, Vec<Operation>),
    /// decorator instruction (no operations)
    Dec(String),
    If(Vec<M>, Vec<M>),
    While(Vec<M>),
    Repeat(usize, Vec<M>),
    Exec(usize),
    Call(usize),
    SysCall(usize),
    DynExec,
    DynCall,
}

#[derive(Clone, Debug)]
pub struct Proc {
    pub locals: u16,
    pub body: Vec<M>,
}

#[derive(Clone, Debug, Default)]
pub struct Prog {
    pub procs: Vec<Proc>,
    pub kernel: Vec<Proc>,
    pub body: Vec<M>,
}

pub fn ins(text: &str) -> M {
    use Operation::*;
    let ops = match text {
        "add" => vec![Add],
        "mul" => vec![Mul],
        "neg" => vec![Neg],
        "swap" => vec![Swap],
        "drop" => vec![Drop],
        "dup.0" => vec![Dup0],
        "dup.1" => vec![Dup1],
        "movup.2" => vec![MovUp2],
        "movdn.2" => vec![MovDn2],
        "movup.3" => vec![MovUp3],
        "eq" => vec![Eq],
        "eqz" => vec![Eqz],
        "not" => vec![Not],
        "sub" => vec![Neg, Add],
        "and" => vec![And],
        "or" => vec![Or],
        "push.0" => vec![Pad],
        "push.1" => vec![Pad, Incr],
        "swapw" => vec![SwapW],
        "sdepth" => vec![SDepth],
        "padw" => vec![Pad, Pad, Pad, Pad],
        "dropw" => vec![Drop, Drop, Drop, Drop],
        other => panic!("unknown demo instruction {other}"),
    };
    M::I(text.to_string(), ops)
}

pub fn push(v: u64) -> M {
    assert!(v >= 2);
    M::I(format!("push.{v}"), vec![Operation::Push(Felt::new(v))])
}

/// Instructions used in generated programs; all of them execute on any stack.
pub const SAFE_INS: [&str; 9] =
    ["add", "mul", "neg", "swap", "dup.0", "movup.2", "movdn.2", "sub", "eq"];

// RENDERING
// ================================================================================================

#[derive(Clone, Copy, Debug, PartialEq, Eq)]
pub enum Style {
    Plain,
    Comments,
    OneLine,
    Spacey,
    Renamed,
}

pub struct Renderer {
    pub style: Style,
}

impl Renderer {
    fn pname(&self, i: usize) -> String {
        if self.style == Style::Renamed {
            format!("zz_other_name_{}", i * 7 + 3)
        } else {
            format!("p{i}")
        }
    }
    fn kname(&self, i: usize) -> String {
        // kernel procedure names are part of the kernel source, which is rendered in the same style
        if self.style == Style::Renamed {
            format!("kk_renamed_{}", i + 40)
        } else {
            format!("k{i}")
        }
    }
    fn sep(&self) -> &'static str {
        match self.style {
            Style::Plain | Style::Renamed => "\n",
            Style::Comments => "  # a comment: push.99 add end\n# full line comment\n",
            Style::OneLine => " ",
            Style::Spacey => "\n\n   \t  ",
        }
    }
    fn body(&self, out: &mut String, body: &[M]) {
        let sep = self.sep();
        for m in body {
            match m {
                M::I(t, _) | M::Dec(t) => {
                    out.push_str(t);
                    out.push_str(sep);
                }
                M::If(t, f) => {
                    out.push_str("if.true");
                    out.push_str(sep);
                    self.body(out, t);
                    if !f.is_empty() {
                        out.push_str("else");
                        out.push_str(sep);
                        self.body(out, f);
                    }
                    out.push_str("end");
                    out.push_str(sep);
                }
                M::While(b) => {
                    out.push_str("while.true");
                    out.push_str(sep);
                    self.body(out, b);
                    out.push_str("end");
                    out.push_str(sep);
                }
                M::Repeat(n, b) => {
                    out.push_str(&format!("repeat.{n}"));
                    out.push_str(sep);
                    self.body(out, b);
                    out.push_str("end");
                    out.push_str(sep);
                }
                M::Exec(i) => {
                    out.push_str(&format!("exec.{}", self.pname(*i)));
                    out.push_str(sep);
                }
                M::Call(i) => {
                    out.push_str(&format!("call.{}", self.pname(*i)));
                    out.push_str(sep);
                }
                M::SysCall(i) => {
                    out.push_str(&format!("syscall.{}", self.kname(*i)));
                    out.push_str(sep);
                }
                M::DynExec => {
                    out.push_str("dynexec");
                    out.push_str(sep);
                }
                M::DynCall => {
                    out.push_str("dyncall");
                    out.push_str(sep);
                }
            }
        }
    }

    pub fn program(&self, p: &Prog) -> String {
        let sep = self.sep();
        let mut out = String::new();
        if self.style == Style::Comments {
            out.push_str("# leading comment\n");
        }
        for (i, pr) in p.procs.iter().enumerate() {
            if pr.locals > 0 {
                out.push_str(&format!("proc.{}.{}", self.pname(i), pr.locals));
            } else {
                out.push_str(&format!("proc.{}", self.pname(i)));
            }
            out.push_str(sep);
            self.body(&mut out, &pr.body);
            out.push_str("end");
            out.push_str(sep);
        }
        out.push_str("begin");
        out.push_str(sep);
        self.body(&mut out, &p.body);
        out.push_str("end");
        if self.style != Style::OneLine {
            out.push('\n');
        }
        out
    }

    pub fn kernel(&self, p: &Prog) -> Option<String> {
        if p.kernel.is_empty() {
            return None;
        }
        let sep = self.sep();
        let mut out = String::new();
        for (i, pr) in p.kernel.iter().enumerate() {
            if pr.locals > 0 {
                out.push_str(&format!("export.{}.{}", self.kname(i), pr.locals));
            } else {
                out.push_str(&format!("export.{}", self.kname(i)));
            }
            out.push_str(sep);
            self.body(&mut out, &pr.body);
            out.push_str("end");
            out.push_str(sep);
        }
        Some(out)
    }
}

// SPEC ASSEMBLER
// ================================================================================================
// Rules (user docs + programs.md): a body is a sequence of blocks executed in order; runs of plain
// instructions form SPAN blocks; adjacent SPAN blocks are one SPAN; the sequence is folded into a
// binary tree of JOINs by pairing neighbours level by level (an unpaired last block moves up a
// level); an empty body / missing else branch is a SPAN with a single NOOP; procedures with N
// locals are wrapped into `push.N fmpupdate ... push.-N fmpupdate`.

pub struct SpecAsm<'a> {
    pub prog: &'a Prog,
}

impl<'a> SpecAsm<'a> {
    pub fn proc_node(&self, pr: &Proc) -> SNode {
        if pr.locals > 0 {
            let n = Felt::from(pr.locals);
            let pro = vec![Operation::Push(n), Operation::FmpUpdate];
            let epi = vec![Operation::Push(-n), Operation::FmpUpdate];
            self.body(&pr.body, pro, epi)
        } else {
            self.body(&pr.body, vec![], vec![])
        }
    }

    pub fn root(&self) -> SNode {
        self.body(&self.prog.body, vec![], vec![])
    }

    fn body(&self, body: &[M], prologue: Vec<Operation>, epilogue: Vec<Operation>) -> SNode {
        let mut blocks: Vec<SNode> = Vec::new();
        let mut cur: Vec<Operation> = prologue;
        fn flush(cur: &mut Vec<Operation>, blocks: &mut Vec<SNode>) {
            if !cur.is_empty() {
                blocks.push(SNode::Span(std::mem::take(cur)));
            }
        }
        for m in body {
            match m {
                M::I(_, ops) => cur.extend_from_slice(ops),
                M::Dec(_) => {}
                M::If(t, f) => {
                    flush(&mut cur, &mut blocks);
                    let t = self.body(t, vec![], vec![]);
                    let f = if f.is_empty() {
                        SNode::Span(vec![Operation::Noop])
                    } else {
                        self.body(f, vec![], vec![])
                    };
                    blocks.push(SNode::Split(Box::new(t), Box::new(f)));
                }
                M::While(b) => {
                    flush(&mut cur, &mut blocks);
                    blocks.push(SNode::Loop(Box::new(self.body(b, vec![], vec![]))));
                }
                M::Repeat(n, b) => {
                    flush(&mut cur, &mut blocks);
                    let b = self.body(b, vec![], vec![]);
                    for _ in 0..*n {
                        blocks.push(b.clone());
                    }
                }
                M::Exec(i) => {
                    flush(&mut cur, &mut blocks);
                    blocks.push(self.proc_node(&self.prog.procs[*i]));
                }
                M::Call(i) => {
                    flush(&mut cur, &mut blocks);
                    blocks.push(SNode::Call(Box::new(self.proc_node(&self.prog.procs[*i]))));
                }
                M::SysCall(i) => {
                    flush(&mut cur, &mut blocks);
                    blocks.push(SNode::SysCall(Box::new(self.proc_node(&self.prog.kernel[*i]))));
                }
                M::DynExec => {
                    flush(&mut cur, &mut blocks);
                    blocks.push(SNode::Dyn);
                }
                M::DynCall => {
                    flush(&mut cur, &mut blocks);
                    blocks.push(SNode::DynCall);
                }
            }
        }
        cur.extend(epilogue);
        flush(&mut cur, &mut blocks);
        if blocks.is_empty() {
            return SNode::Span(vec![Operation::Noop]);
        }
        // merge adjacent spans
        let mut merged: Vec<SNode> = Vec::new();
        for b in blocks {
            let merge = matches!((&b, merged.last()), (SNode::Span(_), Some(SNode::Span(_))));
            if merge {
                if let (SNode::Span(new), Some(SNode::Span(prev))) = (b, merged.last_mut()) {
                    prev.extend(new);
                }
            } else {
                merged.push(b);
            }
        }
        // fold into a tree of joins
        let mut level = merged;
        while level.len() > 1 {
            let mut next = Vec::new();
            let mut it = level.into_iter();
            let mut carry = None;
            loop {
                match (it.next(), it.next()) {
                    (Some(a), Some(b)) => next.push(SNode::Join(Box::new(a), Box::new(b))),
                    (Some(a), None) => {
                        carry = Some(a);
                        break;
                    }
                    _ => break,
                }
            }
            if let Some(c) = carry {
                next.push(c);
            }
            level = next;
        }
        level.pop().unwrap()
    }
}

// REFERENCE INTERPRETER
// ================================================================================================

pub struct Interp<'a> {
    pub prog: &'a Prog,
    /// stack, top is the LAST element
    pub stack: Vec<Felt>,
    pub steps: u64,
}

impl<'a> Interp<'a> {
    pub fn new(prog: &'a Prog) -> Self {
        Self { prog, stack: vec![ZERO; 16], steps: 0 }
    }
    fn pop(&mut self) -> Felt {
        let v = self.stack.pop().unwrap();
        if self.stack.len() < 16 {
            self.stack.insert(0, ZERO);
        }
        v
    }
    fn push(&mut self, v: Felt) {
        self.stack.push(v);
    }
    pub fn op(&mut self, op: &Operation) -> Result<(), String> {
        use Operation::*;
        let n = self.stack.len();
        match op {
            Noop => {}
            Push(v) => self.push(*v),
            Pad => self.push(ZERO),
            Incr => {
                let a = self.pop();
                self.push(a + ONE)
            }
            Neg => {
                let a = self.pop();
                self.push(-a)
            }
            Add => {
                let b = self.pop();
                let a = self.pop();
                self.push(a + b)
            }
            Mul => {
                let b = self.pop();
                let a = self.pop();
                self.push(a * b)
            }
            Eq => {
                let b = self.pop();
                let a = self.pop();
                self.push(if a == b { ONE } else { ZERO })
            }
            Eqz => {
                let a = self.pop();
                self.push(if a == ZERO { ONE } else { ZERO })
            }
            Swap => self.stack.swap(n - 1, n - 2),
            Drop => {
                self.pop();
            }
            Dup0 => self.push(self.stack[n - 1]),
            Dup1 => self.push(self.stack[n - 2]),
            MovUp2 => {
                let v = self.stack.remove(n - 3);
                self.stack.push(v)
            }
            MovDn2 => {
                let v = self.stack.pop().unwrap();
                self.stack.insert(n - 3, v)
            }
            MovUp3 => {
                let v = self.stack.remove(n - 4);
                self.stack.push(v)
            }
            FmpUpdate => {
                self.pop();
            }
            other => return Err(format!("interpreter: unsupported op {other}")),
        }
        Ok(())
    }
    pub fn run(&mut self, body: &[M]) -> Result<(), String> {
        for m in body {
            self.steps += 1;
            if self.steps > 200_000 {
                return Err("interpreter: too many steps".into());
            }
            match m {
                M::I(_, ops) => {
                    for o in ops {
                        self.op(o)?;
                    }
                }
                M::Dec(_) => {}
                M::If(t, f) => {
                    let c = self.pop();
                    if c == ONE {
                        self.run(t)?
                    } else if c == ZERO {
                        self.run(f)?
                    } else {
                        return Err("interpreter: non-binary condition".into());
                    }
                }
                M::While(b) => loop {
                    let c = self.pop();
                    if c == ONE {
                        self.run(b)?
                    } else if c == ZERO {
                        break;
                    } else {
                        return Err("interpreter: non-binary condition".into());
                    }
                },
                M::Repeat(n, b) => {
                    for _ in 0..*n {
                        self.run(b)?
                    }
                }
                M::Exec(i) | M::Call(i) => {
                    let pr = &self.prog.procs[*i];
                    self.run(&pr.body)?
                }
                M::SysCall(i) => {
                    let pr = &self.prog.kernel[*i];
                    self.run(&pr.body)?
                }
                M::DynExec | M::DynCall => return Err("interpreter: dyn not supported".into()),
            }
        }
        Ok(())
    }
    pub fn top16(&self) -> Vec<u64> {
        self.stack.iter().rev().take(16).map(|v| v.as_int()).collect()
    }
}
