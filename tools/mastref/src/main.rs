//! [adapted for /verif from the demo of the fourth C08 sub-agent: FAILCASE / SUMMARY lines]
//! C08 demo: the program commitment is the specified MAST hash of the executable code.
//!
//! An independent implementation of the MAST hash (src/spec.rs, written from
//! docs/src/design/programs.md) is compared with CodeBlock::hash() / Program::hash() over a large
//! family of spans, control blocks and assembled programs.

mod check;
mod masm;
mod masm_family;
mod spans;
mod spec;

use check::Report;
use vm_core::{Felt, Operation};

fn opcode_table_selfcheck(rep: &mut Report) {
    // the demo's own opcode table (from the docs) agrees with the implementation's table for
    // every operation used in the families
    use Operation::*;
    let all = [
        Noop, Eqz, Neg, Inv, Incr, Not, FmpAdd, MLoad, Swap, Caller, MovUp2, MovDn2, MovUp3, MovDn3,
        AdvPopW, Expacc, MovUp4, MovDn4, MovUp5, MovDn5, MovUp6, MovDn6, MovUp7, MovDn7, SwapW,
        Ext2Mul, MovUp8, MovDn8, SwapW2, SwapW3, SwapDW, Assert(0), Eq, Add, Mul, And, Or, U32and,
        U32xor, FriE2F4, Drop, CSwap, CSwapW, MLoadW, MStore, MStoreW, FmpUpdate, Pad, Dup0, Dup1,
        Dup2, Dup3, Dup4, Dup5, Dup6, Dup7, Dup9, Dup11, Dup13, Dup15, AdvPop, SDepth, Clk, U32add,
        U32sub, U32mul, U32div, U32split, U32assert2(Felt::new(0)), U32add3, U32madd, HPerm, MpVerify, Pipe,
        MStream, RCombBase, MrUpdate, Push(Felt::new(3)),
    ];
    for op in all {
        rep.check("opcode-table", spec::spec_opcode(&op) == op.op_code(), || {
            format!("opcode of {op}: docs {} implementation {}", spec::spec_opcode(&op), op.op_code())
        });
    }
    for (name, docs, imp) in [
        ("JOIN", spec::OPC_JOIN, Join.op_code()),
        ("SPLIT", spec::OPC_SPLIT, Split.op_code()),
        ("LOOP", spec::OPC_LOOP, Loop.op_code()),
        ("DYN", spec::OPC_DYN, Dyn.op_code()),
        ("CALL", spec::OPC_CALL, Call.op_code()),
        ("SYSCALL", spec::OPC_SYSCALL, SysCall.op_code()),
    ] {
        rep.check("opcode-table", docs == imp as u64, || format!("opcode of {name}: docs {docs} implementation {imp}"));
    }
}

fn masm_table_selfcheck(rep: &mut Report) {
    // every MASM instruction used by the generators stands for the operations the demo assumes
    use miden_assembly::Assembler;
    let names = [
        "add", "mul", "neg", "swap", "drop", "dup.0", "dup.1", "movup.2", "movdn.2", "movup.3", "eq",
        "not", "sub", "and", "or", "push.0", "push.1", "swapw", "sdepth", "padw", "dropw",
    ];
    let mut list: Vec<masm::M> = names.iter().map(|n| masm::ins(n)).collect();
    list.push(masm::push(2));
    list.push(masm::push(0xffff_ffff_0000_0000));
    for m in list {
        if let masm::M::I(text, ops) = m {
            let src = format!("begin {text} end");
            match Assembler::default().compile(&src) {
                Ok(p) => {
                    let got = match p.root() {
                        vm_core::code_blocks::CodeBlock::Span(s) => check::span_ops(s),
                        _ => vec![],
                    };
                    rep.check("masm-instruction-table", got == ops, || {
                        format!("{text}: demo assumes {} assembler emits {}", check::fmt_ops(&ops), check::fmt_ops(&got))
                    });
                }
                Err(e) => rep.fail("masm-instruction-table", format!("{src}: {e}")),
            }
        }
    }
}

fn main() {
    // silence panic messages of caught panics (they are reported as failures with context)
    std::panic::set_hook(Box::new(|_| {}));

    let mut rep = Report::default();
    let t0 = std::time::Instant::now();

    opcode_table_selfcheck(&mut rep);
    masm_table_selfcheck(&mut rep);
    println!("[{:>6.1}s] self-checks done", t0.elapsed().as_secs_f64());

    spans::run_span_family(&mut rep);
    println!("[{:>6.1}s] span family done", t0.elapsed().as_secs_f64());
    spans::run_ctrl_family(&mut rep);
    println!("[{:>6.1}s] control block family done", t0.elapsed().as_secs_f64());
    masm_family::run_masm_family(&mut rep);
    println!("[{:>6.1}s] MASM family done", t0.elapsed().as_secs_f64());

    println!();
    println!("{:<44} {:>10} {:>10}", "category", "checks", "failures");
    for (cat, (n, f)) in &rep.stats {
        println!("{:<44} {:>10} {:>10}", cat, n, f);
    }
    let total: u64 = rep.stats.values().map(|v| v.0).sum();
    let failures = rep.failures();
    println!("{:<44} {:>10} {:>10}", "TOTAL", total, failures);
    println!("distinct roots seen: {}", rep.roots.len());
    println!("SUMMARY checks={} failures={} roots={}", total, failures, rep.roots.len());
    println!();
    if failures == 0 {
        println!("PASS: every hash equals the specified MAST hash ({total} checks)");
    } else {
        println!("FAIL: {failures} of {total} checks failed");
        std::process::exit(1);
    }
}
