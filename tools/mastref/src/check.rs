//! Comparison of the implementation (CodeBlock / Span / OpBatch) with the spec.

use crate::spec::*;
use miden_crypto::hash::rpo::RpoDigest;
use std::collections::BTreeMap;
use vm_core::{
    code_blocks::{CodeBlock, Span},
    CodeBlockTable, Operation, StarkField,
};

#[derive(Default)]
pub struct Report {
    /// category -> (checks, failures)
    pub stats: BTreeMap<String, (u64, u64)>,
    pub printed: BTreeMap<String, u64>,
    /// root -> canonical description of the thing that hashes to it (collision detection)
    pub roots: BTreeMap<[u8; 32], String>,
}

const MAX_PRINT: u64 = 4;

impl Report {
    pub fn ok(&mut self, cat: &str) {
        self.stats.entry(cat.to_string()).or_default().0 += 1;
    }
    pub fn fail(&mut self, cat: &str, msg: String) {
        let e = self.stats.entry(cat.to_string()).or_default();
        e.0 += 1;
        e.1 += 1;
        let p = self.printed.entry(cat.to_string()).or_default();
        *p += 1;
        if *p == 1 {
            println!("FAILCASE {} :: {}", cat.replace(' ', "_"), msg.lines().take(12).collect::<Vec<_>>().join(" | ").chars().take(1600).collect::<String>());
        }
        if *p <= MAX_PRINT {
            // keep the log readable: long programs are cut after 40 lines / 3000 characters
            let mut msg: String = msg.lines().take(40).collect::<Vec<_>>().join("\n");
            if msg.len() > 3000 {
                let mut cut = 3000;
                while !msg.is_char_boundary(cut) {
                    cut -= 1;
                }
                msg.truncate(cut);
                msg.push_str(" ...");
            }
            println!("FAIL [{cat}] {msg}");
        } else if *p == MAX_PRINT + 1 {
            println!("FAIL [{cat}] ... (further failures of this category are only counted)");
        }
    }
    pub fn check(&mut self, cat: &str, cond: bool, msg: impl FnOnce() -> String) -> bool {
        if cond {
            self.ok(cat);
        } else {
            self.fail(cat, msg());
        }
        cond
    }
    pub fn failures(&self) -> u64 {
        self.stats.values().map(|v| v.1).sum()
    }
    /// Registers a root for collision detection; `desc` must be a canonical description of the
    /// hashed object (two different objects have different descriptions).
    pub fn unique_root(&mut self, cat: &str, root: RpoDigest, desc: String) {
        let key = root.as_bytes();
        match self.roots.get(&key) {
            None => {
                self.roots.insert(key, desc);
                self.ok(cat);
            }
            Some(prev) if *prev == desc => self.ok(cat),
            Some(prev) => {
                let prev = prev.clone();
                self.fail(
                    cat,
                    format!("two different objects share root {}:\n   A: {prev}\n   B: {desc}", hex(&root)),
                );
            }
        }
    }
}

pub fn hex(d: &RpoDigest) -> String {
    let e: Vec<String> = d.as_elements().iter().map(|x| format!("{:016x}", x.as_int())).collect();
    e.join(".")
}

pub fn fmt_ops(ops: &[Operation]) -> String {
    let mut s = String::new();
    for (i, op) in ops.iter().enumerate() {
        if i > 0 {
            s.push(' ');
        }
        s.push_str(&format!("{op}"));
    }
    if s.len() > 900 {
        // compact form: P = push, . = other
        let pat: String =
            ops.iter().map(|o| if matches!(o, Operation::Push(_)) { 'P' } else { '.' }).collect();
        format!("[{} ops, P=push .=other] {}", ops.len(), pat)
    } else {
        format!("[{} ops] {}", ops.len(), s)
    }
}

pub fn span_ops(span: &Span) -> Vec<Operation> {
    span.op_batches().iter().flat_map(|b| b.ops().iter().copied()).collect()
}

/// Checks one span of the implementation against the spec:
/// groups, number of groups, hash, decodability.
pub fn check_span(rep: &mut Report, cat: &str, ops: &[Operation], span: &Span, ctx: &str) -> bool {
    let sops: Vec<SOp> = ops.iter().map(sop).collect();
    let exp = spec_groups(&sops);
    let exp_hash = spec_span_hash(&sops);
    let act: Vec<([u64; 8], usize)> = span
        .op_batches()
        .iter()
        .map(|b| {
            let mut g = [0u64; 8];
            for (i, v) in b.groups().iter().enumerate() {
                g[i] = v.as_int();
            }
            (g, b.num_groups())
        })
        .collect();

    let mut all_ok = true;

    // (1) hash
    let act_hash = span.hash();
    if act_hash != exp_hash {
        all_ok = false;
        let mut diff = String::from("no differing group (number of batches / hasher input differs)");
        'outer: for bi in 0..exp.len().max(act.len()) {
            match (exp.get(bi), act.get(bi)) {
                (Some(e), Some(a)) => {
                    for gi in 0..8 {
                        if e.0[gi] != a.0[gi] {
                            diff = format!(
                                "first differing group: batch {bi} group {gi}: expected {:#018x} actual {:#018x}\n   expected batch {bi}: {:x?}\n   actual   batch {bi}: {:x?}",
                                e.0[gi], a.0[gi], e.0, a.0
                            );
                            break 'outer;
                        }
                    }
                }
                (Some(_), None) => {
                    diff = format!("implementation has no batch {bi} (expected {} batches)", exp.len());
                    break;
                }
                (None, Some(_)) => {
                    diff = format!("implementation has extra batch {bi} (expected {} batches)", exp.len());
                    break;
                }
                _ => {}
            }
        }
        rep.fail(
            &format!("{cat}/hash"),
            format!(
                "{ctx}\n   ops: {}\n   expected hash {}\n   actual   hash {}\n   {diff}",
                fmt_ops(ops),
                hex(&exp_hash),
                hex(&act_hash)
            ),
        );
    } else {
        rep.ok(&format!("{cat}/hash"));
    }

    // (1b) the hash of the span is the RPO hash of exactly 8 * #batches group values it exposes
    let act_groups: Vec<[u64; 8]> = act.iter().map(|x| x.0).collect();
    let h2 = hash_groups(&act_groups);
    if !rep.check(&format!("{cat}/hash-of-own-groups"), h2 == act_hash, || {
        format!(
            "{ctx}\n   ops: {}\n   hash of op_batches().groups() {} != span.hash() {}",
            fmt_ops(ops),
            hex(&h2),
            hex(&act_hash)
        )
    }) {
        all_ok = false;
    }

    // (1c) groups and group counts
    let same_groups = exp.len() == act.len() && exp.iter().zip(act.iter()).all(|(e, a)| e.0 == a.0);
    if !rep.check(&format!("{cat}/groups"), same_groups, || {
        format!(
            "{ctx}\n   ops: {}\n   expected groups {:x?}\n   actual   groups {:x?}",
            fmt_ops(ops),
            exp.iter().map(|x| x.0).collect::<Vec<_>>(),
            act_groups
        )
    }) {
        all_ok = false;
    }
    let same_counts = exp.len() == act.len() && exp.iter().zip(act.iter()).all(|(e, a)| e.1 == a.1);
    if !rep.check(&format!("{cat}/num_groups"), same_counts, || {
        format!(
            "{ctx}\n   ops: {}\n   expected num_groups {:?}\n   actual   num_groups {:?}",
            fmt_ops(ops),
            exp.iter().map(|x| x.1).collect::<Vec<_>>(),
            act.iter().map(|x| x.1).collect::<Vec<_>>()
        )
    }) {
        all_ok = false;
    }

    // (2) decode the implementation's groups back into operations
    let mut decoded: Vec<SOp> = Vec::new();
    let mut derr = None;
    for (bi, b) in act.iter().enumerate() {
        match decode_batch(&b.0) {
            Ok(mut v) => decoded.append(&mut v),
            Err(e) => {
                derr = Some(format!("batch {bi}: {e}"));
                break;
            }
        }
    }
    let dec_ok = derr.is_none() && strip_noops(&decoded) == strip_noops(&sops);
    if !rep.check(&format!("{cat}/decode"), dec_ok, || {
        format!(
            "{ctx}\n   ops: {}\n   groups do not decode back to the operations: {}\n   groups {:x?}",
            fmt_ops(ops),
            derr.unwrap_or_else(|| {
                let d = strip_noops(&decoded);
                let s = strip_noops(&sops);
                let i = d.iter().zip(s.iter()).position(|(a, b)| a != b).unwrap_or(d.len().min(s.len()));
                format!(
                    "first difference at non-NOOP op #{i}: decoded {:?} expected {:?} (decoded {} ops, expected {})",
                    d.get(i),
                    s.get(i),
                    d.len(),
                    s.len()
                )
            }),
            act_groups
        )
    }) {
        all_ok = false;
    }

    // the operations exposed by the batches are the operations the span was built from
    let own = span_ops(span);
    if !rep.check(&format!("{cat}/ops"), own == ops, || {
        format!("{ctx}\n   ops: {}\n   batch.ops(): {}", fmt_ops(ops), fmt_ops(&own))
    }) {
        all_ok = false;
    }
    all_ok
}

/// Node-by-node check of an implementation MAST: every node's hash is recomputed from its
/// children's hashes / its operations.
pub fn check_block(
    rep: &mut Report,
    cat: &str,
    cb: &CodeBlock,
    table: Option<&CodeBlockTable>,
    ctx: &str,
) {
    let cat_ctrl = format!("{cat}/ctrl-hash");
    match cb {
        CodeBlock::Span(s) => {
            let ops = span_ops(s);
            check_span(rep, cat, &ops, s, ctx);
        }
        CodeBlock::Join(j) => {
            check_block(rep, cat, j.first(), table, ctx);
            check_block(rep, cat, j.second(), table, ctx);
            let e = spec_ctrl_hash(j.first().hash(), j.second().hash(), OPC_JOIN);
            rep.check(&cat_ctrl, e == j.hash(), || {
                format!("{ctx}\n   JOIN node: expected {} actual {}", hex(&e), hex(&j.hash()))
            });
        }
        CodeBlock::Split(j) => {
            check_block(rep, cat, j.on_true(), table, ctx);
            check_block(rep, cat, j.on_false(), table, ctx);
            let e = spec_ctrl_hash(j.on_true().hash(), j.on_false().hash(), OPC_SPLIT);
            rep.check(&cat_ctrl, e == j.hash(), || {
                format!("{ctx}\n   SPLIT node: expected {} actual {}", hex(&e), hex(&j.hash()))
            });
        }
        CodeBlock::Loop(l) => {
            check_block(rep, cat, l.body(), table, ctx);
            let e = spec_ctrl_hash(l.body().hash(), zero_digest(), OPC_LOOP);
            rep.check(&cat_ctrl, e == l.hash(), || {
                format!("{ctx}\n   LOOP node: expected {} actual {}", hex(&e), hex(&l.hash()))
            });
        }
        CodeBlock::Call(c) => {
            let d = if c.is_syscall() { OPC_SYSCALL } else { OPC_CALL };
            let e = spec_ctrl_hash(c.fn_hash(), zero_digest(), d);
            rep.check(&cat_ctrl, e == c.hash(), || {
                format!(
                    "{ctx}\n   {} node: expected {} actual {}",
                    if c.is_syscall() { "SYSCALL" } else { "CALL" },
                    hex(&e),
                    hex(&c.hash())
                )
            });
            if let Some(t) = table {
                if let Some(target) = t.get(c.fn_hash()) {
                    rep.check(&cat_ctrl, target.hash() == c.fn_hash(), || {
                        format!("{ctx}\n   code block table entry has a different hash than its key")
                    });
                    check_block(rep, cat, target, table, ctx);
                }
            }
        }
        CodeBlock::Dyn(d) => {
            let e = spec_ctrl_hash(zero_digest(), zero_digest(), OPC_DYN);
            rep.check(&cat_ctrl, e == d.hash(), || {
                format!("{ctx}\n   DYN node: expected {} actual {}", hex(&e), hex(&d.hash()))
            });
        }
        CodeBlock::Proxy(_) => {}
    }
}

/// Builds the implementation's CodeBlock for a spec node using the public constructors.
pub fn to_codeblock(n: &SNode) -> CodeBlock {
    match n {
        SNode::Span(ops) => CodeBlock::new_span(ops.clone()),
        SNode::Join(a, b) => CodeBlock::new_join([to_codeblock(a), to_codeblock(b)]),
        SNode::Split(a, b) => CodeBlock::new_split(to_codeblock(a), to_codeblock(b)),
        SNode::Loop(a) => CodeBlock::new_loop(to_codeblock(a)),
        SNode::Call(a) => CodeBlock::new_call(to_codeblock(a).hash()),
        SNode::SysCall(a) => CodeBlock::new_syscall(to_codeblock(a).hash()),
        SNode::Dyn => CodeBlock::new_dyn(),
        SNode::DynCall => CodeBlock::new_dyncall(),
    }
}

/// Canonical textual form of a spec node (used for collision detection).
pub fn canon(n: &SNode) -> String {
    match n {
        SNode::Span(ops) => {
            let v: Vec<String> = ops
                .iter()
                .filter(|o| !matches!(o, Operation::Noop))
                .map(|o| match o {
                    Operation::Push(v) => format!("push({})", v.as_int()),
                    other => format!("{}", spec_opcode(other)),
                })
                .collect();
            format!("span[{}]", v.join(","))
        }
        SNode::Join(a, b) => format!("join({},{})", canon(a), canon(b)),
        SNode::Split(a, b) => format!("split({},{})", canon(a), canon(b)),
        SNode::Loop(a) => format!("loop({})", canon(a)),
        SNode::Call(a) => format!("call({})", canon(a)),
        SNode::SysCall(a) => format!("syscall({})", canon(a)),
        SNode::Dyn => "dyn".into(),
        SNode::DynCall => "call(dyn)".into(),
    }
}
