//! bindprobe
//! Bounded check of the statement -> Fiat-Shamir seed binding (C02): for a family of public
//! statements (program hash x kernels with 0..3 procedures x stack inputs x stack outputs with 0..2
//! overflow elements) every single-field alteration (one hash element, one kernel procedure replaced
//! / added / removed, one input value, one of the 16 output elements, one overflow element, one
//! overflow address) must change `PublicInputs::to_elements()`, the only place where the program
//! hash and the kernel enter verification.  The oracle demands injectivity only, not a layout.
//! Prints `FAIL <statement> <alteration>` and exits 1 when an alteration leaves the seed unchanged.
use miden_air::PublicInputs;
use vm_core::{crypto::hash::RpoDigest as Digest, Felt, Kernel, ProgramInfo, StackInputs, StackOutputs, ToElements};

fn dg(k: u64) -> Digest {
    Digest::new([Felt::new(k), Felt::new(k + 100), Felt::new(k + 200), Felt::new(k + 300)])
}
fn bump(d: Digest, i: usize) -> Digest {
    let mut e: [Felt; 4] = d.into();
    e[i] = e[i] + Felt::new(1);
    Digest::new(e)
}

fn main() {
    let mut fails = 0u64;
    let mut total = 0u64;
    for nk in 0..=3usize {
        let procs: Vec<Digest> = (0..nk as u64).map(|i| dg(1000 + 7 * i)).collect();
        for ni in [0usize, 1, 3, 16] {
            let ins: Vec<u64> = (0..ni as u64).map(|i| 11 + i).collect();
            for no in 0..=2usize {
                let mut out: Vec<u64> = (0..(16 + no) as u64).map(|i| 500 + i).collect();
                let addrs: Vec<u64> = if no == 0 { vec![] } else { (0..=no as u64).map(|i| if i == 0 { 0 } else { 40 + i }).collect() };
                let hash = dg(5);
                let make = |h: Digest, ps: &[Digest], ins: &[u64], out: &[u64], addrs: &[u64]| -> Option<Vec<Felt>> {
                    let kernel = Kernel::new(ps).ok()?;
                    let si = StackInputs::try_from_values(ins.iter().copied()).ok()?;
                    let so = StackOutputs::new(out.to_vec(), addrs.to_vec()).ok()?;
                    Some(PublicInputs::new(ProgramInfo::new(h, kernel), si, so).to_elements())
                };
                let base = match make(hash, &procs, &ins, &out, &addrs) {
                    Some(b) => b,
                    None => { println!("SKIP statement nk={nk} ni={ni} no={no} (constructors refused it)"); continue; }
                };
                let label = format!("kernel_procs={nk} inputs={ni} overflow={no}");
                let mut check = |what: String, alt: Option<Vec<Felt>>| {
                    total += 1;
                    if let Some(a) = alt {
                        if a == base {
                            fails += 1;
                            if fails <= 8 { println!("FAIL [{label}] {what}: seed elements unchanged"); }
                        }
                    }
                };
                for i in 0..4 {
                    check(format!("program hash element {i} incremented"), make(bump(hash, i), &procs, &ins, &out, &addrs));
                }
                check("program hash replaced".into(), make(dg(77), &procs, &ins, &out, &addrs));
                for k in 0..nk {
                    let mut p2 = procs.clone();
                    p2[k] = dg(9000 + k as u64);
                    check(format!("kernel procedure {k} replaced"), make(hash, &p2, &ins, &out, &addrs));
                    let mut p3 = procs.clone();
                    p3.remove(k);
                    check(format!("kernel procedure {k} removed"), make(hash, &p3, &ins, &out, &addrs));
                }
                let mut p4 = procs.clone();
                p4.push(dg(4242));
                check("kernel procedure added".into(), make(hash, &p4, &ins, &out, &addrs));
                for k in 0..ni {
                    let mut i2 = ins.clone();
                    i2[k] += 1;
                    check(format!("stack input {k} incremented"), make(hash, &procs, &i2, &out, &addrs));
                }
                for k in 0..out.len() {
                    out[k] += 1;
                    check(format!("stack output {k} incremented"), make(hash, &procs, &ins, &out, &addrs));
                    out[k] -= 1;
                }
                for k in 1..addrs.len() {
                    let mut a2 = addrs.clone();
                    a2[k] += 1;
                    check(format!("overflow address {k} incremented"), make(hash, &procs, &ins, &out, &a2));
                }
            }
        }
    }
    println!("SUMMARY alterations={total} failures={fails}");
    std::process::exit(if fails > 0 { 1 } else { 0 });
}
