//! Program representation + INDEPENDENT reference model of execution contexts, memory, procedure
//! locals and stack visibility.
//!
//! The semantics below are written from the user documentation only:
//!   docs/src/user_docs/assembly/execution_contexts.md
//!   docs/src/user_docs/assembly/io_operations.md
//!   docs/src/user_docs/assembly/code_organization.md
//!   docs/src/user_docs/assembly/flow_control.md
//! Nothing in this file links against (or was transcribed from) the processor / assembler crates.

use std::collections::{BTreeMap, BTreeSet, VecDeque};

/// Goldilocks prime used by the VM's field elements.
pub const P: u64 = 0xFFFF_FFFF_0000_0001;

pub fn fadd(a: u64, b: u64) -> u64 {
    ((a as u128 + b as u128) % P as u128) as u64
}

/// "Memory addresses can be in the range [0, 2^32)".
pub const ADDR_LIMIT: u64 = 1 << 32;
/// "procedure locals are stored at memory offset starting at 2^30".
pub const LOCALS_REGION: u64 = 1 << 30;
/// "The next 2^30 words are reserved for memory locals of procedures executed from within a
/// syscall" -- "The first procedure local of baz is located at address 2^31".
pub const SYSCALL_LOCALS_REGION: u64 = 1 << 31;

/// execution_contexts.md says "the address of the first procedure local in foo (e.g., accessed via
/// loc_load.0) is 2^30". The UNCHANGED VM places the first local one word higher (2^30 + 1, resp.
/// 2^31 + 1 in a syscall). This is reported separately by the `doc_discrepancy_probe` in main.rs
/// and is excluded from the verdict; no isolation / aliasing statement of C07 depends on it.
pub const FIRST_LOCAL_OFFSET: u64 = 1;

// PROGRAM REPRESENTATION
// ================================================================================================

#[derive(Clone, Copy, PartialEq, Eq, Hash, PartialOrd, Ord, Debug)]
pub enum PRef {
    /// procedure of the executable module
    User(usize),
    /// exported procedure of the kernel module
    KExp(usize),
    /// internal (non-exported) procedure of the kernel module
    KInt(usize),
}

#[derive(Clone, Debug)]
pub enum Ins {
    Push(u64),
    PadW,
    Drop,
    DropW,
    Dup(usize),
    Swap,
    MovUp(usize),
    Add,
    Neq0,
    /// address: immediate (Some) or taken from the stack (None)
    MemLoad(Option<u32>),
    MemStore(Option<u32>),
    MemLoadW(Option<u32>),
    MemStoreW(Option<u32>),
    MemStream,
    AdvPipe,
    LocLoad(u16),
    LocStore(u16),
    LocLoadW(u16),
    LocStoreW(u16),
    LocAddr(u16),
    Exec(PRef),
    Call(PRef),
    /// `call.0x<mast root>`: call by MAST root (used to reach kernel procedures without syscall)
    CallRoot(PRef),
    Syscall(usize),
    ProcRef(PRef),
    /// `push.h0.h1.h2.h3` of a procedure's MAST root (same stack layout as procref)
    PushRoot(PRef),
    DynCall,
    DynExec,
    Caller,
    Sdepth,
    If(Vec<Ins>, Vec<Ins>),
    While(Vec<Ins>),
}

#[derive(Clone, Debug)]
pub struct Proc {
    pub name: String,
    pub locals: u16,
    pub body: Vec<Ins>,
}

#[derive(Clone, Debug, Default)]
pub struct Prog {
    pub user: Vec<Proc>,
    pub kexp: Vec<Proc>,
    pub kint: Vec<Proc>,
    pub main: Vec<Ins>,
    /// initial operand stack, top first (at least 16 values)
    pub stack_inputs: Vec<u64>,
    /// advice stack, first element is popped first
    pub advice: Vec<u64>,
    /// exported kernel procedures present in the kernel the VM is *run* with
    pub runtime_kernel: Vec<usize>,
    /// free-form description of the shape (nesting, locals, deliberate failure)
    pub descr: String,
}

impl Prog {
    pub fn get(&self, p: PRef) -> &Proc {
        match p {
            PRef::User(i) => &self.user[i],
            PRef::KExp(i) => &self.kexp[i],
            PRef::KInt(i) => &self.kint[i],
        }
    }
}

pub type Hash4 = [u64; 4];
/// MAST roots of procedures. They are an *input* of the model (identity of a procedure), not
/// something it needs to compute.
pub type Roots = BTreeMap<PRef, Hash4>;

// MODEL
// ================================================================================================

#[derive(Clone, Copy, PartialEq, Eq, Debug)]
pub enum Fail {
    /// "the VM checks if the current stack depth is exactly 16, and fails otherwise"
    DepthOnReturn,
    /// "The set of procedures which can be invoked via the syscall instruction is limited by the
    /// kernel"
    SyscallNotInKernel,
    /// "Executing this instruction outside of SYSCALL context will fail."
    CallerNotInSyscall,
    /// "Fails if a >= 2^32"
    AddrOutOfBounds,
    /// "creating a new context from within a syscall is not possible"
    CallInSyscall,
    AdviceEmpty,
    NotBinary,
    DynTargetUnknown,
    Other,
}

pub type Word = [u64; 4];

#[derive(Debug, Clone, PartialEq, Eq)]
pub struct Outcome {
    /// Ok(final stack, top first) or the failure kind
    pub result: Result<Vec<u64>, Fail>,
    /// memory of every context, contexts numbered in creation order (0 = root); all-zero words
    /// are omitted ("memory is guaranteed to be initialized to zeros")
    pub mem: Vec<BTreeMap<u32, Word>>,
}

/// How `caller` behaves in a kernel procedure reached from a context created by `dyncall`.
/// The docs say "hash of the procedure which initiated the parent context"; the UNCHANGED VM is
/// known (already reported, excluded) to yield a fixed DYN-related constant instead.
#[derive(Clone, Copy)]
pub struct KnownDeviations {
    pub dyncall_caller_constant: Option<Hash4>,
}

struct Frame {
    /// absolute address of local 0
    base: u64,
}

pub struct Model<'a> {
    prog: &'a Prog,
    roots: &'a Roots,
    dev: KnownDeviations,
    /// operand stack visible in the current context; TOP IS THE LAST ELEMENT; len >= 16
    stack: Vec<u64>,
    mem: BTreeMap<(usize, u32), Word>,
    n_ctx: usize,
    ctx: usize,
    /// number of local words handed out to live procedure frames in the current locals region
    allocated: u64,
    region: u64,
    in_syscall: bool,
    /// hash of the procedure which initiated the current (non-syscall) context
    ctx_fn: Hash4,
    advice: VecDeque<u64>,
    kernel: BTreeSet<usize>,
    steps: u64,
}

impl<'a> Model<'a> {
    /// returns the predicted outcome and the number of advice values consumed
    pub fn run(prog: &'a Prog, roots: &'a Roots, dev: KnownDeviations) -> (Outcome, usize) {
        let mut stack: Vec<u64> = prog.stack_inputs.iter().rev().cloned().collect();
        while stack.len() < 16 {
            stack.insert(0, 0);
        }
        let mut m = Model {
            prog,
            roots,
            dev,
            stack,
            mem: BTreeMap::new(),
            n_ctx: 1,
            ctx: 0,
            allocated: 0,
            region: LOCALS_REGION,
            in_syscall: false,
            ctx_fn: [0; 4],
            advice: prog.advice.iter().cloned().collect(),
            kernel: prog.runtime_kernel.iter().cloned().collect(),
            steps: 0,
        };
        let main_frame = Frame { base: 0 };
        let r = m.body(&prog.main, &main_frame, 0);
        let result = r.map(|_| m.stack.iter().rev().cloned().collect());
        let mut mem = vec![BTreeMap::new(); m.n_ctx];
        for (&(c, a), w) in m.mem.iter() {
            if *w != [0; 4] {
                mem[c].insert(a, *w);
            }
        }
        let used = prog.advice.len() - m.advice.len();
        (Outcome { result, mem }, used)
    }

    // ---- stack helpers (top = last) -------------------------------------------------------
    fn push(&mut self, v: u64) {
        self.stack.push(v);
    }
    /// removes the top item; `normalize` (run after every instruction) restores the minimum
    /// depth, so that an instruction with net effect n takes depth d to max(16, d + n)
    fn pop(&mut self) -> u64 {
        self.stack.pop().unwrap()
    }
    fn normalize(&mut self) {
        while self.stack.len() < 16 {
            // the stack never gets shallower than 16: zeros appear at the bottom
            self.stack.insert(0, 0);
        }
    }
    fn at(&self, k: usize) -> u64 {
        self.stack[self.stack.len() - 1 - k]
    }
    fn set(&mut self, k: usize, v: u64) {
        let n = self.stack.len();
        self.stack[n - 1 - k] = v;
    }

    // ---- memory helpers ---------------------------------------------------------------------
    fn check_addr(a: u64) -> Result<u32, Fail> {
        if a >= ADDR_LIMIT {
            Err(Fail::AddrOutOfBounds)
        } else {
            Ok(a as u32)
        }
    }
    fn rd(&self, a: u32) -> Word {
        *self.mem.get(&(self.ctx, a)).unwrap_or(&[0; 4])
    }
    fn wr(&mut self, a: u32, w: Word) {
        self.mem.insert((self.ctx, a), w);
    }
    fn addr_operand(&mut self, imm: Option<u32>) -> Result<u32, Fail> {
        match imm {
            Some(a) => Ok(a),
            None => {
                // address is checked before it is consumed; nothing else happens on failure
                let a = self.at(0);
                let a = Self::check_addr(a)?;
                self.pop();
                Ok(a)
            }
        }
    }
    fn load(&mut self, a: u32) {
        let w = self.rd(a);
        self.push(w[0]);
    }
    fn store(&mut self, a: u32) {
        let v = self.pop();
        let mut w = self.rd(a);
        w[0] = v; // "All other elements of the word are not affected."
        self.wr(a, w);
    }
    fn loadw(&mut self, a: u32) {
        let w = self.rd(a);
        // first element of a word is deepest in the stack
        for i in 0..4 {
            self.set(i, w[3 - i]);
        }
    }
    fn storew(&mut self, a: u32) {
        let w = [self.at(3), self.at(2), self.at(1), self.at(0)];
        self.wr(a, w);
    }
    /// put two words over the top 8 stack items: the word of `a` is deeper, the word of `a + 1`
    /// is on top; item 12 (the address) is incremented by 2
    fn set_double(&mut self, w0: Word, w1: Word, a: u32) {
        for i in 0..4 {
            self.set(i, w1[3 - i]);
            self.set(4 + i, w0[3 - i]);
        }
        self.set(12, a as u64 + 2);
    }

    // ---- procedure frames -------------------------------------------------------------------
    fn find_by_root(&self, h: Hash4) -> Option<PRef> {
        self.roots.iter().find(|(_, r)| **r == h).map(|(p, _)| *p)
    }

    /// runs procedure `p` in the current context (this is what `exec` / `dynexec` do, and what
    /// happens after a context switch)
    fn run_proc(&mut self, p: PRef, depth: usize) -> Result<(), Fail> {
        let pr = self.prog.get(p);
        let n = pr.locals as u64;
        // locals of simultaneously live frames of one context are laid out one after another
        let frame = Frame { base: self.region + FIRST_LOCAL_OFFSET + self.allocated };
        self.allocated += n;
        self.body(&pr.body, &frame, depth + 1)?;
        self.allocated -= n;
        Ok(())
    }

    fn do_call(&mut self, target: PRef, dynamic: bool, depth: usize) -> Result<(), Fail> {
        if self.in_syscall {
            return Err(Fail::CallInSyscall);
        }
        // everything beyond the 16th item gets hidden from the callee
        let split = self.stack.len() - 16;
        let visible = self.stack.split_off(split);
        let hidden = std::mem::replace(&mut self.stack, visible);
        let saved = (self.ctx, self.allocated, self.region, self.ctx_fn);
        self.ctx = self.n_ctx;
        self.n_ctx += 1;
        self.allocated = 0;
        self.region = LOCALS_REGION;
        self.ctx_fn = match (dynamic, self.dev.dyncall_caller_constant) {
            (true, Some(c)) => c,
            _ => self.roots[&target],
        };
        self.run_proc(target, depth)?;
        if self.stack.len() != 16 {
            return Err(Fail::DepthOnReturn);
        }
        (self.ctx, self.allocated, self.region, self.ctx_fn) = saved;
        let callee = std::mem::replace(&mut self.stack, hidden);
        self.stack.extend(callee);
        Ok(())
    }

    fn do_syscall(&mut self, k: usize, depth: usize) -> Result<(), Fail> {
        if self.in_syscall {
            return Err(Fail::CallInSyscall);
        }
        if !self.kernel.contains(&k) {
            return Err(Fail::SyscallNotInKernel);
        }
        let split = self.stack.len() - 16;
        let visible = self.stack.split_off(split);
        let hidden = std::mem::replace(&mut self.stack, visible);
        let saved = (self.ctx, self.allocated, self.region);
        // "In case of a syscall instruction, the execution moves back into the root context."
        self.ctx = 0;
        self.allocated = 0;
        self.region = SYSCALL_LOCALS_REGION;
        self.in_syscall = true;
        self.run_proc(PRef::KExp(k), depth)?;
        if self.stack.len() != 16 {
            return Err(Fail::DepthOnReturn);
        }
        (self.ctx, self.allocated, self.region) = saved;
        self.in_syscall = false;
        let callee = std::mem::replace(&mut self.stack, hidden);
        self.stack.extend(callee);
        Ok(())
    }

    fn dyn_target(&self) -> Result<PRef, Fail> {
        let h = [self.at(3), self.at(2), self.at(1), self.at(0)];
        self.find_by_root(h).ok_or(Fail::DynTargetUnknown)
    }

    fn cond(&mut self) -> Result<bool, Fail> {
        match self.pop() {
            0 => Ok(false),
            1 => Ok(true),
            _ => Err(Fail::NotBinary),
        }
    }

    fn body(&mut self, body: &[Ins], f: &Frame, depth: usize) -> Result<(), Fail> {
        for ins in body {
            self.steps += 1;
            if self.steps > 2_000_000 || depth > 64 {
                return Err(Fail::Other);
            }
            match ins {
                Ins::Push(v) => self.push(*v),
                Ins::PadW => {
                    for _ in 0..4 {
                        self.push(0)
                    }
                }
                Ins::Drop => {
                    self.pop();
                }
                Ins::DropW => {
                    // four separate drops
                    for _ in 0..4 {
                        self.pop();
                        self.normalize();
                    }
                }
                Ins::Dup(k) => {
                    let v = self.at(*k);
                    self.push(v)
                }
                Ins::Swap => {
                    let (a, b) = (self.at(0), self.at(1));
                    self.set(0, b);
                    self.set(1, a);
                }
                Ins::MovUp(k) => {
                    let idx = self.stack.len() - 1 - *k;
                    let v = self.stack.remove(idx);
                    self.stack.push(v);
                }
                Ins::Add => {
                    let b = self.pop();
                    let a = self.pop();
                    self.push(fadd(a, b));
                }
                Ins::Neq0 => {
                    let a = self.at(0);
                    self.set(0, (a != 0) as u64);
                }
                Ins::MemLoad(imm) => {
                    let a = self.addr_operand(*imm)?;
                    self.load(a)
                }
                Ins::MemStore(imm) => {
                    let a = self.addr_operand(*imm)?;
                    self.store(a)
                }
                Ins::MemLoadW(imm) => {
                    let a = self.addr_operand(*imm)?;
                    self.loadw(a)
                }
                Ins::MemStoreW(imm) => {
                    let a = self.addr_operand(*imm)?;
                    self.storew(a)
                }
                Ins::MemStream => {
                    let a = Self::check_addr(self.at(12))?;
                    let a1 = Self::check_addr(a as u64 + 1)?;
                    let (w0, w1) = (self.rd(a), self.rd(a1));
                    self.set_double(w0, w1, a);
                }
                Ins::AdvPipe => {
                    let a = Self::check_addr(self.at(12))?;
                    let a1 = Self::check_addr(a as u64 + 1)?;
                    if self.advice.len() < 8 {
                        return Err(Fail::AdviceEmpty);
                    }
                    let mut w = [[0u64; 4]; 2];
                    for word in w.iter_mut() {
                        for e in word.iter_mut() {
                            *e = self.advice.pop_front().unwrap();
                        }
                    }
                    self.wr(a, w[0]);
                    self.wr(a1, w[1]);
                    self.set_double(w[0], w[1], a);
                }
                Ins::LocLoad(i) => self.load(Self::check_addr(f.base + *i as u64)?),
                Ins::LocStore(i) => self.store(Self::check_addr(f.base + *i as u64)?),
                Ins::LocLoadW(i) => self.loadw(Self::check_addr(f.base + *i as u64)?),
                Ins::LocStoreW(i) => self.storew(Self::check_addr(f.base + *i as u64)?),
                Ins::LocAddr(i) => self.push(f.base + *i as u64),
                Ins::Exec(p) => self.run_proc(*p, depth)?,
                Ins::Call(p) | Ins::CallRoot(p) => self.do_call(*p, false, depth)?,
                Ins::Syscall(k) => self.do_syscall(*k, depth)?,
                Ins::ProcRef(p) | Ins::PushRoot(p) => {
                    let h = self.roots[p];
                    for e in h {
                        self.push(e);
                    }
                }
                Ins::DynExec => {
                    // the hash stays on the stack
                    let t = self.dyn_target()?;
                    self.run_proc(t, depth)?
                }
                Ins::DynCall => {
                    if self.in_syscall {
                        return Err(Fail::CallInSyscall);
                    }
                    let t = self.dyn_target()?;
                    self.do_call(t, true, depth)?
                }
                Ins::Caller => {
                    if !self.in_syscall {
                        return Err(Fail::CallerNotInSyscall);
                    }
                    let h = self.ctx_fn;
                    for i in 0..4 {
                        self.set(i, h[3 - i]);
                    }
                }
                Ins::Sdepth => {
                    let d = self.stack.len() as u64;
                    self.push(d)
                }
                Ins::If(t, e) => {
                    let c = self.cond()?;
                    self.normalize();
                    if c {
                        self.body(t, f, depth)?
                    } else {
                        self.body(e, f, depth)?
                    }
                }
                Ins::While(b) => {
                    loop {
                        let c = self.cond()?;
                        self.normalize();
                        if !c {
                            break;
                        }
                        self.body(b, f, depth)?;
                    }
                }
            }
            self.normalize();
        }
        Ok(())
    }
}
