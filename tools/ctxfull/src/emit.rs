//! MASM emission for the program representation.

use crate::model::{Ins, PRef, Prog, Roots};

fn name(p: &Prog, r: PRef) -> &str {
    &p.get(r).name
}

fn root_hex(h: [u64; 4]) -> String {
    // a MAST root literal is the 32 little-endian bytes of its 4 field elements
    let mut s = String::from("0x");
    for e in h {
        for b in e.to_le_bytes() {
            s.push_str(&format!("{:02x}", b));
        }
    }
    s
}

fn mem(op: &str, imm: &Option<u32>) -> String {
    match imm {
        Some(a) => format!("{op}.{a}"),
        None => op.to_string(),
    }
}

fn emit_ins(p: &Prog, roots: &Roots, ins: &Ins, ind: usize, out: &mut String) {
    let pad = "    ".repeat(ind);
    let line = match ins {
        Ins::Push(v) => format!("push.{v}"),
        Ins::PadW => "padw".into(),
        Ins::Drop => "drop".into(),
        Ins::DropW => "dropw".into(),
        Ins::Dup(k) => format!("dup.{k}"),
        Ins::Swap => "swap".into(),
        Ins::MovUp(k) => format!("movup.{k}"),
        Ins::Add => "add".into(),
        Ins::Neq0 => "neq.0".into(),
        Ins::MemLoad(a) => mem("mem_load", a),
        Ins::MemStore(a) => mem("mem_store", a),
        Ins::MemLoadW(a) => mem("mem_loadw", a),
        Ins::MemStoreW(a) => mem("mem_storew", a),
        Ins::MemStream => "mem_stream".into(),
        Ins::AdvPipe => "adv_pipe".into(),
        Ins::LocLoad(i) => format!("loc_load.{i}"),
        Ins::LocStore(i) => format!("loc_store.{i}"),
        Ins::LocLoadW(i) => format!("loc_loadw.{i}"),
        Ins::LocStoreW(i) => format!("loc_storew.{i}"),
        Ins::LocAddr(i) => format!("locaddr.{i}"),
        Ins::Exec(r) => format!("exec.{}", name(p, *r)),
        Ins::Call(r) => format!("call.{}", name(p, *r)),
        Ins::CallRoot(r) => format!("call.{}", root_hex(roots.get(r).copied().unwrap_or([0; 4]))),
        Ins::Syscall(k) => format!("syscall.{}", p.kexp[*k].name),
        Ins::ProcRef(r) => format!("procref.{}", name(p, *r)),
        Ins::PushRoot(r) => {
            let h = roots.get(r).copied().unwrap_or([0; 4]);
            format!("push.{}.{}.{}.{}", h[0], h[1], h[2], h[3])
        }
        Ins::DynCall => "dyncall".into(),
        Ins::DynExec => "dynexec".into(),
        Ins::Caller => "caller".into(),
        Ins::Sdepth => "sdepth".into(),
        Ins::If(t, e) => {
            out.push_str(&format!("{pad}if.true\n"));
            emit_body(p, roots, t, ind + 1, out);
            if !e.is_empty() {
                out.push_str(&format!("{pad}else\n"));
                emit_body(p, roots, e, ind + 1, out);
            }
            out.push_str(&format!("{pad}end\n"));
            return;
        }
        Ins::While(b) => {
            out.push_str(&format!("{pad}while.true\n"));
            emit_body(p, roots, b, ind + 1, out);
            out.push_str(&format!("{pad}end\n"));
            return;
        }
    };
    out.push_str(&pad);
    out.push_str(&line);
    out.push('\n');
}

fn emit_body(p: &Prog, roots: &Roots, body: &[Ins], ind: usize, out: &mut String) {
    for ins in body {
        emit_ins(p, roots, ins, ind, out);
    }
}

fn emit_proc(p: &Prog, roots: &Roots, kw: &str, pr: &crate::model::Proc, out: &mut String) {
    out.push_str(&format!("{kw}.{}.{}\n", pr.name, pr.locals));
    emit_body(p, roots, &pr.body, 1, out);
    out.push_str("end\n\n");
}

/// Kernel module source. `only` restricts the exported procedures (used to learn the MAST root
/// of one exported kernel procedure at a time).
pub fn kernel_source(p: &Prog, roots: &Roots, only: Option<usize>) -> String {
    let mut out = String::new();
    for pr in &p.kint {
        emit_proc(p, roots, "proc", pr, &mut out);
    }
    for (i, pr) in p.kexp.iter().enumerate() {
        if only.map_or(true, |o| o == i) {
            emit_proc(p, roots, "export", pr, &mut out);
        }
    }
    out
}

pub fn user_procs_source(p: &Prog, roots: &Roots) -> String {
    let mut out = String::new();
    for pr in &p.user {
        emit_proc(p, roots, "proc", pr, &mut out);
    }
    out
}

pub fn program_source(p: &Prog, roots: &Roots) -> String {
    let mut out = user_procs_source(p, roots);
    out.push_str("begin\n");
    emit_body(p, roots, &p.main, 1, &mut out);
    out.push_str("end\n");
    out
}

/// `begin procref.u0 procref.u1 ... end`: leaves the MAST roots of all user procedures on the
/// stack
pub fn probe_source(p: &Prog, roots: &Roots) -> String {
    let mut out = user_procs_source(p, roots);
    out.push_str("begin\n");
    for pr in &p.user {
        out.push_str(&format!("    procref.{}\n", pr.name));
    }
    out.push_str("end\n");
    out
}
