//! Runs a program of the representation through the REAL assembler + processor and extracts the
//! observable outcome (final stack / failure kind / memory of every context).

use crate::emit;
use crate::model::{Fail, Hash4, Outcome, PRef, Prog, Roots};
use miden_assembly::Assembler;
use miden_core::{Kernel, Program, StackInputs};
use miden_processor::{
    AdviceInputs, ContextId, DefaultHost, ExecutionError, ExecutionOptions, MemAdviceProvider,
    Process, ProcessState,
};
use std::collections::BTreeMap;

pub struct Compiled {
    pub kernel_src: String,
    pub program_src: String,
    pub program: Program,
    pub roots: Roots,
}

fn digest_to_hash4(d: &miden_core::chiplets::hasher::Digest) -> Hash4 {
    let e = d.as_elements();
    [e[0].as_int(), e[1].as_int(), e[2].as_int(), e[3].as_int()]
}

fn assembler_with(kernel_src: &str) -> Result<Assembler, String> {
    if kernel_src.trim().is_empty() {
        Ok(Assembler::default())
    } else {
        Assembler::default().with_kernel(kernel_src).map_err(|e| format!("kernel: {e}"))
    }
}

fn exec_simple(program: &Program, inputs_top_first: &[u64]) -> Result<Vec<u64>, String> {
    let si = StackInputs::try_from_values(inputs_top_first.iter().rev().cloned())
        .map_err(|e| format!("{e}"))?;
    let host = DefaultHost::new(MemAdviceProvider::from(AdviceInputs::default()));
    let mut process =
        Process::new(program.kernel().clone(), si, host, ExecutionOptions::default());
    process.execute(program).map_err(|e| format!("probe execution failed: {e}"))?;
    Ok(process.get_stack_state().iter().map(|f| f.as_int()).collect())
}

/// Determines the MAST roots of all procedures (kernel first: user code may embed them) and
/// assembles the program.
pub fn compile(p: &Prog) -> Result<Compiled, String> {
    let mut roots = Roots::new();

    // --- kernel procedure roots: assemble a kernel exporting one procedure at a time --------
    for i in 0..p.kexp.len() {
        let src = emit::kernel_source(p, &roots, Some(i));
        let asm = assembler_with(&src)?;
        let hashes = asm.kernel().proc_hashes();
        if hashes.len() != 1 {
            return Err(format!("expected one kernel procedure, got {}", hashes.len()));
        }
        roots.insert(PRef::KExp(i), digest_to_hash4(&hashes[0]));
    }
    // internal kernel procedures are never referenced by root; give them a value nobody can hit
    for i in 0..p.kint.len() {
        roots.insert(PRef::KInt(i), [u64::MAX, i as u64, u64::MAX, u64::MAX]);
    }

    let kernel_src = emit::kernel_source(p, &roots, None);
    let asm = assembler_with(&kernel_src)?;

    // --- user procedure roots: procref probe ------------------------------------------------
    // user procedures may reference each other only backwards, and PushRoot/CallRoot are used
    // for kernel procedures only, so one probe is enough
    if !p.user.is_empty() {
        let mut tmp = roots.clone();
        for i in 0..p.user.len() {
            tmp.insert(PRef::User(i), [0; 4]);
        }
        let probe_src = emit::probe_source(p, &tmp);
        let probe = asm.compile(&probe_src).map_err(|e| format!("probe: {e}\n{probe_src}"))?;
        let st = exec_simple(&probe, &[])?;
        // last procref is on top; each root h0..h3 is pushed so that h3 ends up on top
        let n = p.user.len();
        for i in 0..n {
            let off = (n - 1 - i) * 4;
            roots.insert(PRef::User(i), [st[off + 3], st[off + 2], st[off + 1], st[off]]);
        }
    }

    let program_src = emit::program_source(p, &roots);
    let program = asm.compile(&program_src).map_err(|e| format!("program: {e}"))?;
    Ok(Compiled { kernel_src, program_src, program, roots })
}

fn classify(e: &ExecutionError) -> Fail {
    match e {
        ExecutionError::InvalidStackDepthOnReturn(_) => Fail::DepthOnReturn,
        ExecutionError::SyscallTargetNotInKernel(_) => Fail::SyscallNotInKernel,
        ExecutionError::CallerNotInSyscall => Fail::CallerNotInSyscall,
        ExecutionError::MemoryAddressOutOfBounds(_) => Fail::AddrOutOfBounds,
        ExecutionError::CallInSyscall(_) => Fail::CallInSyscall,
        ExecutionError::AdviceStackReadFailed(_) => Fail::AdviceEmpty,
        ExecutionError::NotBinaryValue(_) => Fail::NotBinary,
        ExecutionError::DynamicCodeBlockNotFound(_) => Fail::DynTargetUnknown,
        _ => Fail::Other,
    }
}

pub struct RealOutcome {
    pub outcome: Outcome,
    pub error_text: Option<String>,
    pub ctx_ids: Vec<u32>,
}

pub fn run(p: &Prog, c: &Compiled) -> Result<RealOutcome, String> {
    // kernel the VM is run with
    let digests: Vec<_> = p
        .runtime_kernel
        .iter()
        .map(|&k| {
            let h = c.roots[&PRef::KExp(k)];
            miden_core::chiplets::hasher::Digest::new([
                miden_core::Felt::new(h[0]),
                miden_core::Felt::new(h[1]),
                miden_core::Felt::new(h[2]),
                miden_core::Felt::new(h[3]),
            ])
        })
        .collect();
    let kernel = Kernel::new(&digests).map_err(|e| format!("{e}"))?;

    let si = StackInputs::try_from_values(p.stack_inputs.iter().rev().cloned())
        .map_err(|e| format!("{e}"))?;
    let adv = AdviceInputs::default()
        .with_stack_values(p.advice.iter().cloned())
        .map_err(|e| format!("{e}"))?;
    let host = DefaultHost::new(MemAdviceProvider::from(adv));
    // a cycle limit keeps a runaway loop (model and VM disagreeing on a condition) finite
    let opts = ExecutionOptions::new(Some(1 << 20), 64, false).map_err(|e| format!("{e}"))?;
    let mut process = Process::new(kernel, si, host, opts);
    let res = process.execute(&c.program);

    // contexts in order of creation: distinct values of the ctx column
    let mut ctx_ids: Vec<u32> = vec![0];
    let clk = process.clk();
    for t in 0..=clk {
        let id: u32 = process.system.get_ctx_at(t).into();
        if !ctx_ids.contains(&id) {
            ctx_ids.push(id);
        }
    }
    let cur: u32 = process.ctx().into();
    if !ctx_ids.contains(&cur) {
        ctx_ids.push(cur);
    }

    let mut mem = Vec::new();
    for &id in &ctx_ids {
        let mut m = BTreeMap::new();
        for (a, w) in process.get_mem_state(ContextId::from(id)) {
            let w = [w[0].as_int(), w[1].as_int(), w[2].as_int(), w[3].as_int()];
            if w != [0; 4] {
                m.insert(a as u32, w);
            }
        }
        mem.push(m);
    }

    let (result, error_text) = match &res {
        Ok(_) => (Ok(process.get_stack_state().iter().map(|f| f.as_int()).collect()), None),
        Err(e) => (Err(classify(e)), Some(format!("{e:?}"))),
    };
    Ok(RealOutcome { outcome: Outcome { result, mem }, error_text, ctx_ids })
}

pub fn dyn_constant() -> Hash4 {
    digest_to_hash4(&miden_core::code_blocks::Dyn::dyn_hash())
}
