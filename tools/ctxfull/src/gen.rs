//! Seeded generator of the program family:
//!   all nestings of exec / call / syscall / dyncall / dynexec to depth 4
//!   x locals counts 0..5 per frame x caller depths 16..30 x colliding addresses
//!   + deliberately failing programs.

use crate::model::{Ins, PRef, Proc, Prog, P};

// RNG
// ================================================================================================
pub struct Rng(pub u64);
impl Rng {
    pub fn next(&mut self) -> u64 {
        self.0 = self.0.wrapping_add(0x9E37_79B9_7F4A_7C15);
        let mut z = self.0;
        z = (z ^ (z >> 30)).wrapping_mul(0xBF58_476D_1CE4_E5B9);
        z = (z ^ (z >> 27)).wrapping_mul(0x94D0_49BB_1331_11EB);
        z ^ (z >> 31)
    }
    pub fn below(&mut self, n: u64) -> u64 {
        self.next() % n
    }
    pub fn chance(&mut self, num: u64, den: u64) -> bool {
        self.below(den) < num
    }
    pub fn pick<T: Copy>(&mut self, xs: &[T]) -> T {
        xs[self.below(xs.len() as u64) as usize]
    }
}

// NESTING SHAPES
// ================================================================================================
#[derive(Clone, Copy, PartialEq, Eq, Debug)]
pub enum Kind {
    Exec,
    Call,
    Syscall,
    DynCall,
    DynExec,
}
pub const KINDS: [Kind; 5] = [Kind::Exec, Kind::Call, Kind::Syscall, Kind::DynCall, Kind::DynExec];

#[derive(Clone, Copy, PartialEq, Eq, Debug)]
pub enum Mode {
    /// procedure of the executable module, not inside a syscall
    User,
    /// procedure of the kernel module (inside a syscall)
    Kernel,
    /// procedure of the executable module which a kernel procedure reached through dynexec
    UserInSyscall,
}

/// Some(next mode, invocation is expected to fail at run time) or None if the assembler does not
/// accept the invocation at all (call / syscall inside a kernel module).
pub fn transition(m: Mode, k: Kind) -> Option<(Mode, bool)> {
    match (m, k) {
        (Mode::User, Kind::Syscall) => Some((Mode::Kernel, false)),
        (Mode::User, _) => Some((Mode::User, false)),
        (Mode::Kernel, Kind::Exec) => Some((Mode::Kernel, false)),
        (Mode::Kernel, Kind::DynExec) => Some((Mode::UserInSyscall, false)),
        (Mode::Kernel, Kind::DynCall) => Some((Mode::UserInSyscall, true)),
        (Mode::Kernel, _) => None,
        (Mode::UserInSyscall, Kind::Exec) | (Mode::UserInSyscall, Kind::DynExec) => {
            Some((Mode::UserInSyscall, false))
        }
        (Mode::UserInSyscall, _) => Some((Mode::UserInSyscall, true)),
    }
}

/// all assemblable nestings of length 1..=max_depth (a nesting ends at an invocation which is
/// expected to fail)
pub fn all_chains(max_depth: usize) -> Vec<Vec<Kind>> {
    fn rec(m: Mode, cur: &mut Vec<Kind>, max: usize, out: &mut Vec<Vec<Kind>>) {
        if !cur.is_empty() {
            out.push(cur.clone());
        }
        if cur.len() == max {
            return;
        }
        for k in KINDS {
            if let Some((nm, failing)) = transition(m, k) {
                cur.push(k);
                if failing {
                    out.push(cur.clone());
                } else {
                    rec(nm, cur, max, out);
                }
                cur.pop();
            }
        }
    }
    let mut out = Vec::new();
    rec(Mode::User, &mut Vec::new(), max_depth, &mut out);
    out
}

// ADDRESSES
// ================================================================================================
const A30: u64 = 1 << 30;
const A31: u64 = 1 << 31;
const A32: u64 = 1 << 32;
/// colliding addresses, including the ones where the locals regions live
pub const ADDRS: [u64; 22] = [
    0,
    1,
    2,
    A30 - 1,
    A30,
    A30 + 1,
    A30 + 2,
    A30 + 3,
    A30 + 4,
    A30 + 6,
    A30 + 9,
    A31 - 1,
    A31,
    A31 + 1,
    A31 + 2,
    A31 + 3,
    A31 + 5,
    A31 + 8,
    3 * A30 - 1,
    3 * A30,
    A32 - 2,
    A32 - 1,
];

#[derive(Clone, Copy, PartialEq, Eq, Debug)]
pub enum Inject {
    None,
    /// extra element left on the stack by the frame at this level
    Depth(usize),
    /// the VM runs with a kernel which lacks the syscall target
    SyscallNotInKernel,
    /// a kernel procedure using `caller` is reached without syscall from the frame at this level
    CallerOutside(usize, u8),
    /// address >= 2^32 in the frame at this level
    Addr(usize, u8),
}

// GENERATOR
// ================================================================================================
const LEAF: PRef = PRef::User(0);
const KLEAF: usize = 0;
const KHLEAF: PRef = PRef::KInt(0);

pub struct Gen {
    pub rng: Rng,
    kinds: Vec<Kind>,
    modes: Vec<Mode>,
    procs: Vec<Option<PRef>>,
    locals: Vec<u16>,
    advice: Vec<u64>,
    inject: Inject,
    user: Vec<Option<Proc>>,
    kexp: Vec<Option<Proc>>,
    kint: Vec<Option<Proc>>,
    /// per level: Some(level of the user procedure T whose root must stay on top of the stack
    /// until this kernel frame performs its dynamic invocation)
    carry: Vec<bool>,
    /// per link: does the dynamically invoked procedure drop the root itself
    variant_a: Vec<bool>,
    user_main: Vec<Ins>,
    loop_ctr: u32,
}

/// `caller` overwrites the top word: pad first, record the word in root memory (a kernel
/// procedure runs against the root context's memory) and add it into the item below
fn caller_fold() -> Vec<Ins> {
    let mut v = vec![Ins::PadW, Ins::Caller, Ins::MemStoreW(Some(4242))];
    v.extend(repeat(Ins::Add, 4));
    v
}

fn repeat(i: Ins, n: usize) -> Vec<Ins> {
    std::iter::repeat(i).take(n).collect()
}

impl Gen {
    fn val(&mut self) -> u64 {
        1 + self.rng.below(1 << 40)
    }
    fn addr(&mut self) -> u32 {
        self.rng.pick(&ADDRS) as u32
    }
    fn addr_pair(&mut self) -> u32 {
        loop {
            let a = self.rng.pick(&ADDRS);
            if a + 1 < A32 {
                return a as u32;
            }
        }
    }
    fn push_vals(&mut self, n: usize) -> Vec<Ins> {
        (0..n).map(|_| Ins::Push(self.val())).collect()
    }
    /// address operand either as immediate or through the stack
    fn with_addr(&mut self, a: u32, mk: fn(Option<u32>) -> Ins) -> Vec<Ins> {
        if self.rng.chance(1, 2) {
            vec![mk(Some(a))]
        } else {
            vec![Ins::Push(a as u64), mk(None)]
        }
    }

    /// One stack-neutral snippet. `fold` = may change the value on top of the stack (everything
    /// read is added into it, so that it shows up in the final stack); otherwise the snippet
    /// leaves all existing stack items untouched.
    fn snippet(&mut self, nloc: u16, depth: usize, fold: bool, nest: usize) -> Vec<Ins> {
        let mut v = Vec::new();
        let has_loc = nloc > 0;
        let li = if has_loc { self.rng.below(nloc as u64) as u16 } else { 0 };
        loop {
            let choice = self.rng.below(22);
            match choice {
                0 | 1 => {
                    v.extend(self.push_vals(1));
                    let a = self.addr();
                    v.extend(self.with_addr(a, Ins::MemStore));
                }
                2 => {
                    v.extend(self.push_vals(4));
                    let a = self.addr();
                    v.extend(self.with_addr(a, Ins::MemStoreW));
                    v.push(Ins::DropW);
                }
                3 | 4 if fold => {
                    let a = self.addr();
                    v.extend(self.with_addr(a, Ins::MemLoad));
                    v.push(Ins::Add);
                }
                5 if fold => {
                    v.push(Ins::PadW);
                    let a = self.addr();
                    v.extend(self.with_addr(a, Ins::MemLoadW));
                    v.extend(repeat(Ins::Add, 4));
                }
                6 | 7 if has_loc => {
                    v.extend(self.push_vals(1));
                    v.push(Ins::LocStore(li));
                }
                8 if has_loc => {
                    v.extend(self.push_vals(4));
                    v.push(Ins::LocStoreW(li));
                    v.push(Ins::DropW);
                }
                9 | 10 if has_loc && fold => {
                    v.push(Ins::LocLoad(li));
                    v.push(Ins::Add);
                }
                11 if has_loc && fold => {
                    v.push(Ins::PadW);
                    v.push(Ins::LocLoadW(li));
                    v.extend(repeat(Ins::Add, 4));
                }
                12 if has_loc => match self.rng.below(3) {
                    0 if fold => {
                        v.push(Ins::LocAddr(li));
                        v.push(Ins::Add);
                    }
                    1 if fold => {
                        v.push(Ins::LocAddr(li));
                        v.push(Ins::MemLoad(None));
                        v.push(Ins::Add);
                    }
                    _ => {
                        v.extend(self.push_vals(1));
                        v.push(Ins::LocAddr(li));
                        v.push(Ins::MemStore(None));
                    }
                },
                13 if fold => {
                    v.push(Ins::Push(self.addr_pair() as u64));
                    v.extend(repeat(Ins::PadW, 3));
                    v.push(Ins::MemStream);
                    v.extend(repeat(Ins::Add, 13));
                }
                14 if fold => {
                    v.push(Ins::Push(self.addr_pair() as u64));
                    v.extend(repeat(Ins::PadW, 3));
                    v.push(Ins::AdvPipe);
                    v.extend(repeat(Ins::Add, 13));
                }
                15 if fold => {
                    v.push(Ins::Sdepth);
                    v.push(Ins::Add);
                }
                16 if fold => match self.rng.below(5) {
                    0 => v.push(Ins::Swap),
                    1 => v.push(Ins::MovUp(2 + self.rng.below(14) as usize)),
                    2 => {
                        v.push(Ins::Dup(self.rng.below(16) as usize));
                        v.push(Ins::Add);
                    }
                    3 => {
                        let k = 1 + self.rng.below(5) as usize;
                        v.extend(self.push_vals(k));
                        v.extend(repeat(Ins::Add, k));
                    }
                    _ => {
                        v.extend(self.push_vals(1));
                        v.push(Ins::Drop);
                    }
                },
                17 if fold && depth == 16 => {
                    // at depth 16 a drop must shift in a ZERO, never an item of an outer context
                    v.push(Ins::Drop);
                    v.push(Ins::MovUp(15));
                    v.push(Ins::Add);
                }
                18 if nest < 2 => {
                    let c = self.rng.below(2);
                    v.push(Ins::Push(c));
                    let (nt, ne) = (1 + self.rng.below(2) as usize, self.rng.below(2) as usize);
                    let t = self.snippets(nloc, depth, fold, nt, nest + 1);
                    let e = self.snippets(nloc, depth, fold, ne, nest + 1);
                    v.push(Ins::If(t, e));
                }
                19 if nest < 2 => {
                    let c = self.rng.below(2);
                    v.push(Ins::Push(c));
                    let nb = 1 + self.rng.below(2) as usize;
                    let mut b = self.snippets(nloc, depth, fold, nb, nest + 1);
                    b.push(Ins::Push(0));
                    v.push(Ins::While(b));
                }
                20 if nest < 2 && fold => {
                    let nb = 1 + self.rng.below(2) as usize;
                    let b = self.snippets(nloc, depth, fold, nb, nest + 1);
                    v.extend(self.twice(b));
                }
                _ => continue,
            }
            return v;
        }
    }

    /// executes a stack-neutral body exactly twice under a while loop. The loop counter lives in
    /// element 0 of a memory word of the current context which no other instruction touches
    /// (bodies may permute the visible stack, so it cannot be kept there); it is 0 again (i.e.
    /// the word is indistinguishable from untouched memory) when the loop is left.
    fn twice(&mut self, mut b: Vec<Ins>) -> Vec<Ins> {
        self.loop_ctr += 1;
        let x = Some(5000 + self.loop_ctr);
        b.extend([
            Ins::MemLoad(x),
            Ins::Push(P - 1),
            Ins::Add,
            Ins::Dup(0),
            Ins::MemStore(x),
            Ins::Neq0,
        ]);
        vec![Ins::Push(2), Ins::MemStore(x), Ins::Push(1), Ins::While(b)]
    }

    fn snippets(&mut self, nloc: u16, depth: usize, fold: bool, n: usize, nest: usize) -> Vec<Ins> {
        let mut v = Vec::new();
        for _ in 0..n {
            v.extend(self.snippet(nloc, depth, fold, nest));
        }
        v
    }

    fn bad_addr_snippet(&mut self, how: u8) -> Vec<Ins> {
        let big = self.rng.pick(&[A32, A32, A32 + 1, P - 1]);
        let mut v = Vec::new();
        match how % 7 {
            0 => v.extend([Ins::Push(big), Ins::MemLoad(None), Ins::Add]),
            1 => {
                v.extend(self.push_vals(1));
                v.extend([Ins::Push(big), Ins::MemStore(None)]);
            }
            2 => {
                v.push(Ins::PadW);
                v.extend([Ins::Push(big), Ins::MemLoadW(None)]);
                v.extend(repeat(Ins::Add, 4));
            }
            3 => {
                v.extend(self.push_vals(4));
                v.extend([Ins::Push(big), Ins::MemStoreW(None), Ins::DropW]);
            }
            4 => {
                // second word of the pair would live at 2^32
                v.push(Ins::Push(A32 - 1));
                v.extend(repeat(Ins::PadW, 3));
                v.push(Ins::MemStream);
                v.extend(repeat(Ins::Add, 13));
            }
            5 => {
                v.push(Ins::Push(big));
                v.extend(repeat(Ins::PadW, 3));
                v.push(Ins::MemStream);
                v.extend(repeat(Ins::Add, 13));
            }
            _ => {
                v.push(Ins::Push(A32 - 1));
                v.extend(repeat(Ins::PadW, 3));
                v.push(Ins::AdvPipe);
                v.extend(repeat(Ins::Add, 13));
            }
        }
        v
    }

    /// stack-neutral side invocation of a leaf procedure
    fn side(&mut self, mode: Mode) -> Vec<Ins> {
        match mode {
            Mode::User => match self.rng.below(6) {
                0 | 1 => vec![Ins::Syscall(KLEAF)],
                2 => vec![Ins::Call(LEAF)],
                3 => vec![Ins::Exec(LEAF)],
                4 => vec![Ins::ProcRef(LEAF), Ins::DynCall, Ins::DropW],
                _ => vec![Ins::ProcRef(LEAF), Ins::DynExec, Ins::DropW],
            },
            Mode::Kernel => vec![Ins::Exec(KHLEAF)],
            Mode::UserInSyscall => match self.rng.below(2) {
                0 => vec![Ins::Exec(LEAF)],
                _ => vec![Ins::ProcRef(LEAF), Ins::DynExec, Ins::DropW],
            },
        }
    }

    /// generates the body of the frame at `level` which is entered with stack depth `entry`
    fn frame(&mut self, level: usize, entry: usize) {
        let n = self.kinds.len();
        let mode = self.modes[level];
        let nloc = self.locals[level];
        let carry = self.carry[level];
        let mut depth = entry;
        let mut body: Vec<Ins> = Vec::new();

        // a unique marker keeps MAST roots of different frames apart
        if level > 0 {
            body.extend([Ins::Push(777_000 + level as u64), Ins::Drop]);
        }
        // procedures invoked dynamically find the target's root on top of the stack
        let entered_dyn = level > 0 && matches!(self.kinds[level - 1], Kind::DynCall | Kind::DynExec);
        let drops_root = entered_dyn && self.dyn_variant_a(level - 1);
        if drops_root {
            body.push(Ins::DropW);
            depth = depth.saturating_sub(4).max(16);
        }

        // --- before the nested invocation ---------------------------------------------------
        let k = self.rng.below(4) as usize;
        body.extend(self.snippets(nloc, depth, !carry, k, 0));
        if !carry && self.rng.chance(1, 2) {
            body.extend(self.side(mode));
        }
        if let Inject::Addr(l, how) = self.inject {
            if l == level && how & 8 == 0 && !carry {
                body.extend(self.bad_addr_snippet(how));
            }
        }
        if let Inject::CallerOutside(l, how) = self.inject {
            if l == level && !carry {
                // `call` cannot be assembled inside a kernel module
                let how = if mode == Mode::Kernel { 1 } else { how };
                body.extend(match how % 3 {
                    0 => vec![Ins::CallRoot(PRef::KExp(KLEAF))],
                    1 => vec![Ins::PushRoot(PRef::KExp(KLEAF)), Ins::DynExec, Ins::DropW],
                    _ => vec![Ins::PushRoot(PRef::KExp(KLEAF)), Ins::DynCall, Ins::DropW],
                });
            }
        }

        // --- nested invocation -------------------------------------------------------------
        if level < n {
            let kind = self.kinds[level];
            let target = self.procs[level + 1].unwrap();
            let pad = if carry {
                0
            } else {
                match self.rng.below(4) {
                    0 => 0,
                    1 => self.rng.below(3) as usize,
                    _ => self.rng.below(15) as usize,
                }
            };
            body.extend(self.push_vals(pad));
            depth += pad;

            let wrapper = if carry { 0 } else { self.rng.below(8) };
            let wdepth = depth;

            // root of a user procedure which a kernel frame further down invokes dynamically
            let carried_root: Option<PRef> = if kind == Kind::Syscall && mode == Mode::User {
                self.carried_target(level)
            } else {
                None
            };

            let mut inv: Vec<Ins> = Vec::new();
            let child_entry;
            match (mode, kind) {
                (Mode::Kernel, Kind::Exec) => {
                    inv.push(Ins::Exec(target));
                    child_entry = wdepth;
                }
                (Mode::Kernel, Kind::DynExec) => {
                    inv.push(Ins::DynExec);
                    child_entry = wdepth;
                }
                (Mode::Kernel, Kind::DynCall) => {
                    inv.push(Ins::DynCall);
                    child_entry = 16;
                }
                (_, Kind::Exec) => {
                    inv.push(Ins::Exec(target));
                    child_entry = wdepth;
                }
                (_, Kind::Call) => {
                    inv.push(Ins::Call(target));
                    child_entry = 16;
                }
                (_, Kind::Syscall) => {
                    if mode == Mode::UserInSyscall {
                        // expected to fail
                        inv.push(Ins::Syscall(KLEAF));
                    } else {
                        let kidx = match target {
                            PRef::KExp(i) => i,
                            _ => unreachable!(),
                        };
                        if let Some(t) = carried_root {
                            inv.push(Ins::ProcRef(t));
                            inv.push(Ins::Syscall(kidx));
                            for _ in 0..4 {
                                inv.extend([Ins::MovUp(15), Ins::Drop]);
                            }
                        } else {
                            inv.push(Ins::Syscall(kidx));
                        }
                    }
                    child_entry = 16;
                }
                (_, Kind::DynCall) => {
                    inv.push(Ins::ProcRef(target));
                    inv.push(Ins::DynCall);
                    if self.dyn_variant_a(level) {
                        for _ in 0..4 {
                            inv.extend([Ins::MovUp(15), Ins::Drop]);
                        }
                    } else {
                        inv.push(Ins::DropW);
                    }
                    child_entry = 16;
                }
                (_, Kind::DynExec) => {
                    inv.push(Ins::ProcRef(target));
                    inv.push(Ins::DynExec);
                    if !self.dyn_variant_a(level) {
                        inv.push(Ins::DropW);
                    }
                    child_entry = wdepth + 4;
                }
            }
            // generate the callee now that its entry depth is known
            self.frame(level + 1, child_entry);

            match wrapper {
                1 => {
                    let e = self.snippets(nloc, depth, true, 1, 1);
                    body.push(Ins::Push(1));
                    body.push(Ins::If(inv, e));
                }
                2 => {
                    let t = self.snippets(nloc, depth, true, 1, 1);
                    body.push(Ins::Push(0));
                    body.push(Ins::If(t, inv));
                }
                3 => {
                    body.extend(inv.clone());
                    body.extend(self.snippets(nloc, depth, true, 1, 1));
                    body.extend(inv);
                }
                4 => body.extend(self.twice(inv)),
                _ => body.extend(inv),
            }

            body.extend(repeat(Ins::Drop, pad));
            depth -= pad;
        }

        // --- after the nested invocation ------------------------------------------------------
        if let Inject::Addr(l, how) = self.inject {
            if l == level && (how & 8 != 0 || carry) {
                body.extend(self.bad_addr_snippet(how));
            }
        }
        if self.rng.chance(1, 2) {
            body.extend(self.side(mode));
        }
        if mode == Mode::Kernel && self.rng.chance(2, 3) {
            body.extend(caller_fold());
        }
        let k = 1 + self.rng.below(4) as usize;
        body.extend(self.snippets(nloc, depth, true, k, 0));
        // read back all locals of the frame: a callee must not have disturbed them
        for i in 0..nloc {
            if self.rng.chance(2, 3) {
                body.extend([Ins::LocLoad(i), Ins::Add]);
            }
        }
        if self.inject == Inject::Depth(level) {
            body.extend(self.push_vals(1));
        }

        let name = self.proc_name(level);
        match self.procs[level] {
            None => {
                self.user_main = body;
            }
            Some(PRef::User(i)) => self.user[i] = Some(Proc { name, locals: nloc, body }),
            Some(PRef::KExp(i)) => self.kexp[i] = Some(Proc { name, locals: nloc, body }),
            Some(PRef::KInt(i)) => self.kint[i] = Some(Proc { name, locals: nloc, body }),
        }
    }
}

// The remaining pieces need an extra field (`user_main`) and a few helpers; they are kept in a
// second impl block to keep `frame` readable.
impl Gen {
    fn proc_name(&self, level: usize) -> String {
        match self.procs[level] {
            None => "main".into(),
            Some(PRef::User(_)) => format!("u{level}"),
            Some(PRef::KExp(_)) => format!("k{level}"),
            Some(PRef::KInt(_)) => format!("kh{level}"),
        }
    }

    /// variant (a): the dynamically invoked procedure drops the root itself; variant (b): the
    /// invoker drops it after the return. Kernel frames always use (a).
    fn dyn_variant_a(&self, link: usize) -> bool {
        self.modes[link] == Mode::Kernel || self.variant_a[link]
    }

    /// if the kernel frames reached by the syscall made at `level` end with a dynamic invocation,
    /// returns the user procedure invoked by it
    fn carried_target(&self, level: usize) -> Option<PRef> {
        let n = self.kinds.len();
        let mut j = level + 1;
        while j < n && self.modes[j] == Mode::Kernel {
            match self.kinds[j] {
                Kind::Exec => j += 1,
                Kind::DynExec | Kind::DynCall => return self.procs[j + 1],
                _ => return None,
            }
        }
        None
    }
}

pub fn generate(seed: u64, kinds: &[Kind], want_inject: u8) -> Prog {
    let mut rng = Rng(seed);
    let n = kinds.len();

    // modes of all frames
    let mut modes = vec![Mode::User];
    let mut chain_fails = false;
    for (i, &k) in kinds.iter().enumerate() {
        let (m, failing) = transition(modes[i], k).expect("not assemblable");
        modes.push(m);
        chain_fails |= failing;
    }

    // procedure slots: deeper frames are defined first
    let mut procs: Vec<Option<PRef>> = vec![None; n + 1];
    let (mut nu, mut nke, mut nki) = (1usize, 1usize, 1usize); // slot 0: leaf / kleaf / khleaf
    for level in (1..=n).rev() {
        procs[level] = Some(match modes[level] {
            Mode::User | Mode::UserInSyscall => {
                nu += 1;
                PRef::User(nu - 1)
            }
            Mode::Kernel => {
                if kinds[level - 1] == Kind::Syscall {
                    nke += 1;
                    PRef::KExp(nke - 1)
                } else {
                    nki += 1;
                    PRef::KInt(nki - 1)
                }
            }
        });
    }

    let locals: Vec<u16> = (0..=n)
        .map(|l| if l == 0 { 0 } else { rng.below(6) as u16 })
        .collect();
    let variant_a: Vec<bool> = (0..=n).map(|_| rng.chance(3, 4)).collect();

    // kernel frames in front of a dynamic invocation must keep the root on top of the stack
    let mut carry = vec![false; n + 1];
    for level in 0..n {
        if modes[level] == Mode::Kernel && matches!(kinds[level], Kind::DynExec | Kind::DynCall) {
            let mut j = level;
            loop {
                carry[j] = true;
                if kinds[j - 1] == Kind::Syscall {
                    break;
                }
                j -= 1;
            }
        }
    }

    // deliberate failure
    let has_user_syscall = (0..n).any(|i| modes[i] == Mode::User && kinds[i] == Kind::Syscall);
    let inject = if chain_fails {
        Inject::None
    } else {
        match want_inject {
            1 => Inject::Depth(1 + rng.below(n as u64) as usize),
            2 if has_user_syscall => Inject::SyscallNotInKernel,
            2 | 3 => Inject::CallerOutside(rng.below(n as u64 + 1) as usize, rng.below(3) as u8),
            4 => Inject::Addr(rng.below(n as u64 + 1) as usize, rng.below(16) as u8),
            _ => Inject::None,
        }
    };

    let mut g = Gen {
        rng,
        kinds: kinds.to_vec(),
        modes,
        procs,
        locals,
        advice: Vec::new(),
        inject,
        user: vec![None; nu],
        kexp: vec![None; nke],
        kint: vec![None; nki],
        carry,
        variant_a,
        user_main: Vec::new(),
        loop_ctr: 0,
    };

    // leaf procedures
    let ll = g.rng.below(6) as u16;
    let mut body = vec![Ins::Push(555_001), Ins::Drop];
    let k = 1 + g.rng.below(3) as usize;
    body.extend(g.snippets(ll, 17, true, k, 1));
    g.user[0] = Some(Proc { name: "leaf".into(), locals: ll, body });

    let kl = g.rng.below(6) as u16;
    let mut body = vec![Ins::Push(555_002), Ins::Drop];
    let k = g.rng.below(3) as usize;
    body.extend(g.snippets(kl, 17, false, k, 1));
    body.extend(caller_fold());
    let k = g.rng.below(3) as usize;
    body.extend(g.snippets(kl, 17, true, k, 1));
    g.kexp[0] = Some(Proc { name: "kleaf".into(), locals: kl, body });

    let khl = g.rng.below(6) as u16;
    let mut body = vec![Ins::Push(555_003), Ins::Drop];
    let k = 1 + g.rng.below(3) as usize;
    body.extend(g.snippets(khl, 17, true, k, 1));
    g.kint[0] = Some(Proc { name: "khleaf".into(), locals: khl, body });

    // caller depth 16..30
    let d0 = 16 + g.rng.below(15) as usize;
    let stack_inputs: Vec<u64> = (0..d0).map(|_| g.val()).collect();

    g.frame(0, d0);

    let mut main = Vec::new();
    // make sure the kernel leaf is part of the program's code block table even if it is only
    // reached by its root
    main.extend([Ins::Push(0), Ins::If(vec![Ins::Syscall(KLEAF)], vec![])]);
    main.extend(g.user_main.clone());

    let runtime_kernel: Vec<usize> = if g.inject == Inject::SyscallNotInKernel {
        vec![KLEAF]
    } else {
        (0..g.kexp.len()).collect()
    };

    // the generator does not know how often an adv_pipe is executed (loops, procedures invoked
    // from several places): provide plenty, main.rs trims the advice stack to what is consumed
    for _ in 0..8 * 1024 {
        let x = g.val();
        g.advice.push(x);
    }

    let descr = format!(
        "nesting main{} | locals per frame {:?} | caller depth {} | inject {:?}{}",
        kinds
            .iter()
            .enumerate()
            .map(|(i, k)| format!(" -{:?}-> {}", k, g.proc_name(i + 1)))
            .collect::<String>(),
        g.locals,
        d0,
        g.inject,
        if chain_fails { " | nesting itself must fail (context creation inside a syscall)" } else { "" },
    );

    Prog {
        user: g.user.into_iter().map(|p| p.unwrap()).collect(),
        kexp: g.kexp.into_iter().map(|p| p.unwrap()).collect(),
        kint: g.kint.into_iter().map(|p| p.unwrap()).collect(),
        main,
        stack_inputs,
        advice: g.advice,
        runtime_kernel,
        descr,
    }
}
