//! [adapted for /verif from the demo of the fourth C07 sub-agent: FAILCASE / SUMMARY lines]
//! C07 demonstration: contexts isolate memory and stack; memory is zero-initialised word RAM.
//!
//! An independent reference model (model.rs, written from the user docs) predicts final stack,
//! failure kind and the memory of every context for a large seeded family of programs (gen.rs);
//! every program is emitted as MASM (emit.rs), run through the real assembler + processor
//! (real.rs) and compared.

mod emit;
mod gen;
mod model;
mod real;

use gen::Kind;
use model::{Fail, KnownDeviations, Model, Outcome, Prog};
use std::collections::BTreeMap;

fn fmt_mem(mem: &[BTreeMap<u32, model::Word>]) -> String {
    let mut s = String::new();
    for (i, m) in mem.iter().enumerate() {
        s.push_str(&format!("    context #{i} (in creation order):\n"));
        for (a, w) in m {
            s.push_str(&format!("        [{a}] = {w:?}\n"));
        }
    }
    s
}

fn report(p: &Prog, c: &real::Compiled, exp: &Outcome, act: &real::RealOutcome) {
    println!("------------------------------------------------------------------------------");
    println!("MISMATCH: {}", p.descr);
    println!("--- kernel source ---\n{}", c.kernel_src);
    println!("--- program source ---\n{}", c.program_src);
    println!("--- inputs ---");
    println!("operand stack (top first): {:?}", p.stack_inputs);
    println!("advice stack (first popped first): {:?}", p.advice);
    println!(
        "kernel procedures present at run time: {:?}",
        p.runtime_kernel.iter().map(|&k| p.kexp[k].name.clone()).collect::<Vec<_>>()
    );
    println!("procedure MAST roots: ");
    for (r, h) in &c.roots {
        if !matches!(r, model::PRef::KInt(_)) {
            println!("    {:<8} {:?}", p.get(*r).name, h);
        }
    }
    println!("--- expected (model) ---");
    println!("result (stack top first): {:?}", exp.result);
    print!("{}", fmt_mem(&exp.mem));
    println!("--- actual (VM) ---");
    println!("result (stack top first): {:?}", act.outcome.result);
    if let Some(e) = &act.error_text {
        println!("error: {e}");
    }
    println!("context ids: {:?}", act.ctx_ids);
    print!("{}", fmt_mem(&act.outcome.mem));
    if exp.result != act.outcome.result {
        println!(">>> final stack / failure kind differs");
        if let (Ok(a), Ok(b)) = (&exp.result, &act.outcome.result) {
            for i in 0..a.len().max(b.len()) {
                if a.get(i) != b.get(i) {
                    println!(">>>   stack[{i}]: expected {:?}, actual {:?}", a.get(i), b.get(i));
                }
            }
        }
    }
    if exp.mem != act.outcome.mem {
        println!(">>> memory differs");
        if exp.mem.len() != act.outcome.mem.len() {
            println!(
                ">>>   number of contexts: expected {}, actual {}",
                exp.mem.len(),
                act.outcome.mem.len()
            );
        }
        for (i, (e, a)) in exp.mem.iter().zip(act.outcome.mem.iter()).enumerate() {
            let addrs: std::collections::BTreeSet<u32> = e.keys().chain(a.keys()).cloned().collect();
            for addr in addrs {
                if e.get(&addr) != a.get(&addr) {
                    println!(
                        ">>>   context #{i} [{addr}]: expected {:?}, actual {:?}",
                        e.get(&addr).unwrap_or(&[0; 4]),
                        a.get(&addr).unwrap_or(&[0; 4])
                    );
                }
            }
        }
    }
}

/// The docs state that the first procedure local lives at 2^30 (2^31 inside a syscall). The
/// UNCHANGED VM uses 2^30 + 1 / 2^31 + 1. Reported here, excluded from the verdict.
fn doc_discrepancy_probe() {
    let p = Prog {
        user: vec![model::Proc {
            name: "foo".into(),
            locals: 1,
            body: vec![model::Ins::LocAddr(0)],
        }],
        main: vec![model::Ins::Exec(model::PRef::User(0))],
        stack_inputs: vec![0; 16],
        ..Default::default()
    };
    let c = real::compile(&p).expect("probe compiles");
    let r = real::run(&p, &c).expect("probe runs");
    let top = r.outcome.result.as_ref().map(|s| s[0]).unwrap_or(0);
    println!(
        "NOTE (unchanged code vs. docs, excluded from the verdict): `proc.foo.1 locaddr.0 end begin exec.foo end` \
         leaves {top} on the stack; execution_contexts.md says the first local of a context is at 2^30 = {}. \
         The model uses the observed offset of {} word(s) for both locals regions.",
        model::LOCALS_REGION,
        model::FIRST_LOCAL_OFFSET
    );
}

fn main() {
    let args: Vec<String> = std::env::args().collect();
    let variants: u64 = args.get(1).and_then(|s| s.parse().ok()).unwrap_or(16);
    let base_seed: u64 = args.get(2).and_then(|s| s.parse().ok()).unwrap_or(0xC07);
    let max_reports: usize = args.get(3).and_then(|s| s.parse().ok()).unwrap_or(3);

    doc_discrepancy_probe();
    let dev = KnownDeviations { dyncall_caller_constant: Some(real::dyn_constant()) };
    println!(
        "NOTE (known, excluded): `caller` below a dyncall'ed context is modelled as the fixed DYN constant {:?}",
        real::dyn_constant()
    );

    let chains: Vec<Vec<Kind>> = gen::all_chains(4);
    println!(
        "{} nestings of exec/call/syscall/dyncall/dynexec (depth 1..4) x {} seeded variants each",
        chains.len(),
        variants
    );

    let mut total = 0usize;
    let mut mismatches = 0usize;
    let mut gen_errors = 0usize;
    let mut by_result: BTreeMap<String, usize> = BTreeMap::new();
    let mut mismatch_shapes: BTreeMap<String, usize> = BTreeMap::new();
    let mut n_ctx_total = 0usize;
    let (mut t_compile, mut t_model, mut t_real) = (0f64, 0f64, 0f64);

    for (ci, chain) in chains.iter().enumerate() {
        for v in 0..variants {
            let seed = base_seed
                .wrapping_mul(0x1000_0000_01B3)
                .wrapping_add((ci as u64) << 20)
                .wrapping_add(v);
            let want_inject = (v % 16) as u8;
            let mut p = gen::generate(seed, chain, want_inject);
            total += 1;
            let t0 = std::time::Instant::now();
            let c = match real::compile(&p) {
                Ok(c) => c,
                Err(e) => {
                    gen_errors += 1;
                    if gen_errors <= 3 {
                        println!("GENERATOR/ASSEMBLY ERROR ({}): {e}", p.descr);
                        let roots = model::Roots::new();
                        println!("{}", emit::kernel_source(&p, &roots, None));
                        println!("{}", emit::program_source(&p, &roots));
                    }
                    continue;
                }
            };
            t_compile += t0.elapsed().as_secs_f64();
            let t0 = std::time::Instant::now();
            // trim the advice stack to what the model consumes (+ one spare double word)
            let (_, used) = Model::run(&p, &c.roots, dev);
            p.advice.truncate(used + 8);
            let (exp, _) = Model::run(&p, &c.roots, dev);
            t_model += t0.elapsed().as_secs_f64();
            let t0 = std::time::Instant::now();
            let act = match real::run(&p, &c) {
                Ok(a) => a,
                Err(e) => {
                    gen_errors += 1;
                    println!("HARNESS ERROR ({}): {e}", p.descr);
                    continue;
                }
            };
            t_real += t0.elapsed().as_secs_f64();
            let key = match &exp.result {
                Ok(_) => "success".to_string(),
                Err(f) => format!("failure {:?}", f),
            };
            *by_result.entry(key).or_default() += 1;
            n_ctx_total += exp.mem.len();
            if matches!(exp.result, Err(Fail::Other) | Err(Fail::DynTargetUnknown) | Err(Fail::NotBinary) | Err(Fail::AdviceEmpty))
            {
                // the generator never intends these
                gen_errors += 1;
                println!("GENERATOR ERROR: model predicts {:?} for {}", exp.result, p.descr);
            }
            if exp != act.outcome {
                mismatches += 1;
                let shape = chain.iter().map(|k| format!("{k:?}")).collect::<Vec<_>>().join(">");
                *mismatch_shapes.entry(shape).or_default() += 1;
                if mismatches <= 12 {
                    println!("FAILCASE mismatch :: {} :: expected {:?} :: actual {:?}", p.descr.replace('\n', " "), exp.result, act.outcome.result);
                }
                if mismatches <= max_reports {
                    report(&p, &c, &exp, &act);
                }
            }
        }
    }

    println!("==============================================================================");
    println!("programs: {total}, contexts compared: {n_ctx_total}");
    eprintln!("time: assemble {t_compile:.1}s, model {t_model:.1}s, VM {t_real:.1}s");
    for (k, n) in &by_result {
        println!("    model predicts {k}: {n}");
    }
    if !mismatch_shapes.is_empty() {
        println!("mismatching nestings (count):");
        for (k, n) in &mismatch_shapes {
            println!("    {k}: {n}");
        }
    }
    println!("SUMMARY programs={total} contexts={n_ctx_total} mismatches={mismatches} generator_errors={gen_errors}");
    println!("mismatches: {mismatches}, generator/harness errors: {gen_errors}");
    if mismatches == 0 && gen_errors == 0 {
        println!("PASS");
    } else {
        println!("FAIL");
        std::process::exit(1);
    }
}
