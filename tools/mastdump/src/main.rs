//! mastdump <stdlib-asm-dir|-> <jobs-file>
//! Each line of the jobs file: `<name>\t<masm source with \n escaped as \\n>`.
//! Compiles every source with /repo's assembler (standard library read from <stdlib-asm-dir> with
//! MaslLibrary::read_from_dir, the call stdlib/build.rs makes) and prints one line per job:
//!   <name>\tOK\t<root hash hex>\t<s-expression>      or      <name>\tERR\t<message>
//! S-expression: (span op op ...) (join A B) (split T F) (loop B) (call H) (syscall H) (dyn) (proxy H)
//! Operations print as Name or Name(imm); decorators are listed after `|` as idx:Kind.
use miden_assembly::{Assembler, LibraryNamespace, MaslLibrary, Version};
use vm_core::code_blocks::CodeBlock;
use vm_core::{Decorator, Operation};

fn op_str(op: &Operation) -> String {
    match op {
        Operation::Push(v) => format!("Push({})", v.as_int()),
        Operation::Assert(c) => format!("Assert({})", c),
        Operation::U32assert2(v) => format!("U32assert2({})", v.as_int()),
        other => format!("{:?}", other),
    }
}
fn dump(b: &CodeBlock, out: &mut String) {
    match b {
        CodeBlock::Span(s) => {
            out.push_str("(span");
            for batch in s.op_batches() {
                for op in batch.ops() {
                    out.push(' ');
                    out.push_str(&op_str(op));
                }
            }
            out.push_str(" |");
            for (idx, d) in s.decorators().iter() {
                let k = match d {
                    Decorator::Advice(a) => format!("Advice:{:?}", a).replace(' ', ""),
                    Decorator::AsmOp(_) => "AsmOp".to_string(),
                    Decorator::Debug(_) => "Debug".to_string(),
                    Decorator::Event(e) => format!("Event:{e}"),
                    Decorator::Trace(e) => format!("Trace:{e}"),
                };
                out.push_str(&format!(" {idx}:{k}"));
            }
            out.push(')');
        }
        CodeBlock::Join(j) => { out.push_str("(join "); dump(j.first(), out); out.push(' '); dump(j.second(), out); out.push(')'); }
        CodeBlock::Split(s) => { out.push_str("(split "); dump(s.on_true(), out); out.push(' '); dump(s.on_false(), out); out.push(')'); }
        CodeBlock::Loop(l) => { out.push_str("(loop "); dump(l.body(), out); out.push(')'); }
        CodeBlock::Call(c) => { out.push_str(&format!("({} {:?})", if c.is_syscall() { "syscall" } else { "call" }, c.fn_hash().as_elements().iter().map(|e| e.as_int()).collect::<Vec<_>>()).replace(", ", ",")); }
        CodeBlock::Dyn(_) => out.push_str("(dyn)"),
        CodeBlock::Proxy(p) => out.push_str(&format!("(proxy {:?})", p.hash().as_elements().iter().map(|e| e.as_int()).collect::<Vec<_>>()).replace(", ", ",")),
    }
}
fn main() {
    let args: Vec<String> = std::env::args().collect();
    let jobs = std::fs::read_to_string(&args[2]).expect("jobs file");
    let debug_mode = std::env::var("MASTDUMP_DEBUG").is_ok();
    for line in jobs.lines() {
        if line.trim().is_empty() { continue; }
        let (name, src) = line.split_once('\t').expect("name<TAB>source");
        let src = src.replace("\\n", "\n");
        let mut asm = Assembler::default().with_debug_mode(debug_mode);
        if args[1] != "-" {
            let ns = LibraryNamespace::try_from("std".to_string()).expect("ns");
            let version = Version::try_from("0.8.0").expect("version");
            let lib = MaslLibrary::read_from_dir(&args[1], ns, false, version).expect("stdlib");
            asm = asm.with_library(&lib).expect("with_library");
        }
        match asm.compile(&src) {
            Ok(p) => {
                let mut s = String::new();
                dump(p.root(), &mut s);
                let h: Vec<String> = p.hash().as_elements().iter().map(|e| format!("{:016x}", e.as_int())).collect();
                println!("{name}\tOK\t{}\t{s}", h.join(""));
            }
            Err(e) => println!("{name}\tERR\t{}", format!("{e}").replace('\n', " ")),
        }
    }
}
