//! memprobe <max_len>
//! Bounded exhaustive check of the memory chiplet behind `Chiplets::{read_mem, write_mem,
//! write_mem_element, read_mem_double, write_mem_double, get_mem_value}` (C07, assumption T-mem of
//! unit chiplets_mem): every sequence of at most <max_len> accesses over 3 contexts x 3 addresses x 2
//! words is run on the real chiplets of a fresh `Process` and compared, access by access, with
//! zero-initialised word RAM keyed by (context, address).  After every sequence all 9 cells are
//! compared through get_mem_value.  Prints `FAIL <sequence> <what>` and exits 1 on a mismatch.
use miden_processor::{ContextId, DefaultHost, ExecutionOptions, Kernel, Process, StackInputs};
use std::collections::HashMap;
use vm_core::{Felt, Word, ZERO};

#[derive(Clone, Copy, Debug)]
enum Acc {
    Read(u32, u32),
    Write(u32, u32, usize),
    WriteElem(u32, u32, usize),
    ReadDouble(u32, u32),
    WriteDouble(u32, u32, usize),
}

const CTXS: [u32; 3] = [0, 1, 5];
const ADDRS: [u32; 3] = [0, 1, u32::MAX - 1];

fn words() -> [Word; 2] {
    [[Felt::new(1), Felt::new(2), Felt::new(3), Felt::new(4)], [Felt::new(18446744069414584320), ZERO, Felt::new(7), Felt::new(9)]]
}

fn all_accesses() -> Vec<Acc> {
    let mut v = vec![];
    for &c in &CTXS {
        for &a in &ADDRS {
            v.push(Acc::Read(c, a));
            v.push(Acc::ReadDouble(c, a));
            for w in 0..2 {
                v.push(Acc::Write(c, a, w));
                v.push(Acc::WriteElem(c, a, w));
            }
            v.push(Acc::WriteDouble(c, a, 0));
        }
    }
    v
}

fn run(seq: &[Acc]) -> Result<(), String> {
    let mut p = Process::new(Kernel::default(), StackInputs::default(), DefaultHost::default(), ExecutionOptions::default());
    let mut model: HashMap<(u32, u32), Word> = HashMap::new();
    let ws = words();
    let get = |m: &HashMap<(u32, u32), Word>, c: u32, a: u32| *m.get(&(c, a)).unwrap_or(&[ZERO; 4]);
    for (k, acc) in seq.iter().enumerate() {
        match *acc {
            Acc::Read(c, a) => {
                let r = p.chiplets.read_mem(ContextId::from(c), a);
                if r != get(&model, c, a) {
                    return Err(format!("access {k}: read returned {r:?}, RAM holds {:?}", get(&model, c, a)));
                }
            }
            Acc::ReadDouble(c, a) => {
                let r = p.chiplets.read_mem_double(ContextId::from(c), a);
                if r[0] != get(&model, c, a) || r[1] != get(&model, c, a + 1) {
                    return Err(format!("access {k}: read_mem_double returned {r:?}"));
                }
            }
            Acc::Write(c, a, w) => {
                p.chiplets.write_mem(ContextId::from(c), a, ws[w]);
                model.insert((c, a), ws[w]);
            }
            Acc::WriteElem(c, a, w) => {
                let old = get(&model, c, a);
                let r = p.chiplets.write_mem_element(ContextId::from(c), a, ws[w][0]);
                if r != old {
                    return Err(format!("access {k}: write_mem_element returned {r:?} as old word, RAM held {old:?}"));
                }
                model.insert((c, a), [ws[w][0], old[1], old[2], old[3]]);
            }
            Acc::WriteDouble(c, a, _) => {
                p.chiplets.write_mem_double(ContextId::from(c), a, [ws[0], ws[1]]);
                model.insert((c, a), ws[0]);
                model.insert((c, a + 1), ws[1]);
            }
        }
        p.chiplets.advance_clock();
    }
    for &c in &CTXS {
        for &a in &[0u32, 1, 2, u32::MAX - 1, u32::MAX] {
            let v = p.chiplets.get_mem_value(ContextId::from(c), a).unwrap_or([ZERO; 4]);
            if v != get(&model, c, a) {
                return Err(format!("final state: cell ({c},{a}) holds {v:?}, RAM model holds {:?}", get(&model, c, a)));
            }
        }
    }
    Ok(())
}

fn main() {
    let max_len: usize = std::env::args().nth(1).and_then(|s| s.parse().ok()).unwrap_or(3);
    let accs = all_accesses();
    let (mut total, mut fails) = (0u64, 0u64);
    for len in 1..=max_len {
        let mut idx = vec![0usize; len];
        loop {
            let seq: Vec<Acc> = idx.iter().map(|&i| accs[i]).collect();
            total += 1;
            if let Err(e) = run(&seq) {
                fails += 1;
                if fails <= 5 {
                    println!("FAIL {seq:?} {e}");
                }
            }
            let mut k = 0;
            while k < len {
                idx[k] += 1;
                if idx[k] < accs.len() { break; }
                idx[k] = 0;
                k += 1;
            }
            if k == len { break; }
        }
    }
    println!("SUMMARY sequences={total} failures={fails} max_len={max_len} accesses={}", accs.len());
    std::process::exit(if fails > 0 { 1 } else { 0 });
}
