//! Generates the family of MASM programs that the demo executes.
//!
//! Every instruction of the "body" is executed at an exactly controlled stack depth
//! (`16 + extra`), so that the same operation kinds are seen with an empty overflow table
//! (depth 16), with exactly one overflow row (depth 17) and with a deeper overflow table.

use miden_processor::crypto::{MerkleStore, MerkleTree};
use miden_air::Felt;
use miden_processor::Word;

pub struct MerkleData {
    pub store: MerkleStore,
    pub root: Word,
    pub root2: Word,
    pub leaves: Vec<Word>,
}

pub fn merkle_data() -> MerkleData {
    let leaves: Vec<Word> = (1u64..=8)
        .map(|v| [Felt::new(v), Felt::new(v + 100), Felt::new(v + 200), Felt::new(v + 300)])
        .collect();
    let leaves2: Vec<Word> = (11u64..=18)
        .map(|v| [Felt::new(v), Felt::new(v + 100), Felt::new(v + 200), Felt::new(v + 300)])
        .collect();
    let tree = MerkleTree::new(leaves.clone()).unwrap();
    let tree2 = MerkleTree::new(leaves2).unwrap();
    let mut store = MerkleStore::from(&tree);
    store.extend(tree2.inner_nodes());
    MerkleData { store, root: tree.root().into(), root2: tree2.root().into(), leaves }
}

/// MASM generator which tracks the stack depth.
pub struct Gen {
    pub src: String,
    depth: usize,
    target: usize,
}

impl Gen {
    pub fn new(target: usize) -> Self {
        Gen { src: String::new(), depth: 16, target }
    }

    fn emit(&mut self, s: &str) {
        self.src.push_str("    ");
        self.src.push_str(s);
        self.src.push('\n');
    }

    /// Brings the stack to exactly `target` items.
    fn adjust(&mut self) {
        while self.depth > self.target {
            self.emit("drop");
            self.depth -= 1;
        }
        while self.depth < self.target {
            self.emit("push.7");
            self.depth += 1;
        }
    }

    /// Overwrites the top `vals.len()` stack items with `vals` (vals[0] ends up on top) without
    /// changing the stack depth.
    fn set_top(&mut self, vals: &[u64]) {
        let n = vals.len();
        assert!(n <= 15);
        for v in vals.iter().rev() {
            if n == 1 {
                self.emit(&format!("push.{v} swap drop"));
            } else {
                self.emit(&format!("push.{v} movup.{n} drop"));
            }
        }
    }

    /// Executes `instr` with the given operands on top of a stack of exactly `target` items.
    /// `delta` is the net effect of the instruction on the stack depth.
    pub fn op(&mut self, instr: &str, operands: &[u64], delta: isize) {
        self.adjust();
        self.set_top(operands);
        self.emit(instr);
        let d = self.depth as isize + delta;
        self.depth = d.max(16) as usize;
    }

    pub fn finish(mut self) -> String {
        self.target = 16;
        self.adjust();
        self.src
    }
}

fn w(word: &Word) -> [u64; 4] {
    // word element 3 is on top of the stack
    [word[3].as_int(), word[2].as_int(), word[1].as_int(), word[0].as_int()]
}

const U32MAX: u64 = 4294967295;

/// Emits the instruction mix.
fn body(g: &mut Gen, m: &MerkleData) {
    // ---- field operations -------------------------------------------------------------------
    g.op("add", &[5, 7], -1);
    g.op("sub", &[5, 7], -1);
    g.op("mul", &[5, 7], -1);
    g.op("div", &[5, 7], -1);
    g.op("neg", &[5], 0);
    g.op("inv", &[5], 0);
    g.op("add.1", &[5], 0);
    g.op("not", &[1], 0);
    g.op("not", &[0], 0);
    g.op("and", &[1, 0], -1);
    g.op("and", &[1, 1], -1);
    g.op("or", &[0, 1], -1);
    g.op("or", &[0, 0], -1);
    g.op("xor", &[1, 1], -1);
    g.op("eq", &[5, 5], -1);
    g.op("eq", &[5, 6], -1);
    g.op("eq.0", &[0], 0);
    g.op("eq.0", &[9], 0);
    g.op("neq", &[5, 6], -1);
    g.op("exp.u5", &[21, 3], -1);
    g.op("pow2", &[5], 0);
    g.op("is_odd", &[7], 0);
    g.op("lt", &[3, 9], -1);
    g.op("lte", &[9, 3], -1);
    g.op("gt", &[3, 9], -1);
    g.op("gte", &[9, 9], -1);
    g.op("eqw", &[1, 2, 3, 4, 1, 2, 3, 4], 1);
    g.op("ext2mul", &[1, 2, 3, 4], -2);
    g.op("ext2add", &[1, 2, 3, 4], -2);
    g.op("ext2sub", &[1, 2, 3, 4], -2);
    g.op("ext2neg", &[1, 2], 0);
    g.op("ext2inv", &[1, 2], 0);
    g.op("ext2div", &[1, 2, 3, 4], -2);

    // ---- stack manipulation -----------------------------------------------------------------
    g.op("swap", &[1, 2], 0);
    let mark: Vec<u64> = (101..=115).collect();
    for i in 0..16 {
        g.op(&format!("dup.{i}"), &mark, 1);
    }
    for i in 2..16 {
        g.op(&format!("movup.{i}"), &mark, 0);
        g.op(&format!("movdn.{i}"), &mark, 0);
        g.op(&format!("swap.{i}"), &mark, 0);
    }
    g.op("swapw", &mark, 0);
    g.op("swapw.2", &mark, 0);
    g.op("swapw.3", &mark, 0);
    g.op("swapdw", &mark, 0);
    g.op("movupw.2", &mark, 0);
    g.op("movupw.3", &mark, 0);
    g.op("movdnw.2", &mark, 0);
    g.op("movdnw.3", &mark, 0);
    for i in 0..4 {
        g.op(&format!("dupw.{i}"), &mark, 4);
    }
    g.op("padw", &[], 4);
    g.op("dropw", &[1, 2, 3, 4], -4);
    g.op("drop", &[9], -1);
    g.op("push.0", &[], 1);
    g.op("push.77", &[], 1);
    g.op("push.1.2.3.4", &[], 4);
    g.op("cswap", &[1, 8, 9], -1);
    g.op("cswap", &[0, 8, 9], -1);
    g.op("cswapw", &[1, 1, 2, 3, 4, 5, 6, 7, 8], -1);
    g.op("cswapw", &[0, 1, 2, 3, 4, 5, 6, 7, 8], -1);
    g.op("cdrop", &[1, 8, 9], -2);
    g.op("cdropw", &[0, 1, 2, 3, 4, 5, 6, 7, 8], -5);

    // ---- u32 operations ---------------------------------------------------------------------
    g.op("u32split", &[4294967301], 1);
    g.op("u32split", &[5], 1);
    g.op("u32split", &[21474836480], 1); // low limbs are zero
    g.op("u32split", &[18446744069414584320], 1); // p - 1: high half is 2^32 - 1
    g.op("u32assert2", &[5, 6], 0);
    g.op("u32assert2", &[U32MAX, 70000], 0);
    g.op("u32assert", &[5], 0);
    g.op("u32assertw", &[1, 2, 3, 4], 0);
    g.op("u32test", &[1099511627776], 1);
    g.op("u32testw", &[1, 2, 3, 4], 1);
    g.op("u32cast", &[1099511627779], 0);
    g.op("u32wrapping_add", &[U32MAX, 3], -1);
    g.op("u32overflowing_add", &[U32MAX, 3], 0);
    g.op("u32overflowing_add", &[70000, 3], 0);
    g.op("u32overflowing_add3", &[U32MAX, U32MAX, 7], -1);
    g.op("u32wrapping_add3", &[1, 2, 70000], -2);
    g.op("u32overflowing_sub", &[3, 9], 0);
    g.op("u32overflowing_sub", &[9, 3], 0);
    g.op("u32wrapping_sub", &[70000, 3], -1);
    g.op("u32overflowing_mul", &[65537, 4000000000], 0);
    g.op("u32overflowing_mul", &[3, 4], 0);
    g.op("u32wrapping_mul", &[65537, 4000000000], -1);
    g.op("u32overflowing_madd", &[U32MAX, U32MAX, U32MAX], -1);
    g.op("u32wrapping_madd", &[3, 4, 5], -2);
    g.op("u32div", &[7, 100], -1);
    g.op("u32mod", &[7, 100], -1);
    g.op("u32divmod", &[70001, 4000000000], 0);
    g.op("u32and", &[4042322160, 1010580540], -1);
    g.op("u32and", &[U32MAX, 305419896], -1);
    g.op("u32or", &[4042322160, 1010580540], -1);
    g.op("u32xor", &[4042322160, 1010580540], -1);
    g.op("u32xor", &[2863311530, 1431655765], -1);
    g.op("u32not", &[5], 0);
    g.op("u32shr.3", &[2147483649], 0);
    g.op("u32shl.3", &[2147483649], 0);
    g.op("u32rotr.5", &[2147483649], 0);
    g.op("u32rotl.5", &[2147483649], 0);
    g.op("u32popcnt", &[4042322160], 0);
    g.op("u32clz", &[70000], 0);
    g.op("u32ctz", &[70000], 0);
    g.op("u32clo", &[4042322160], 0);
    g.op("u32cto", &[65535], 0);
    g.op("u32lt", &[3, 9], -1);
    g.op("u32lte", &[3, 9], -1);
    g.op("u32gt", &[3, 9], -1);
    g.op("u32gte", &[3, 9], -1);
    g.op("u32min", &[3, 9], -1);
    g.op("u32max", &[3, 9], -1);

    // ---- system operations ------------------------------------------------------------------
    g.op("clk", &[], 1);
    g.op("sdepth", &[], 1);
    g.op("assert", &[1], -1);
    g.op("assertz", &[0], -1);
    g.op("assert_eq", &[4, 4], -2);
    g.op("assert_eqw", &[1, 2, 3, 4, 1, 2, 3, 4], -8);
    g.op("exec.locals", &[], 0);
    g.op("call.ctxmem", &[], 0);

    // ---- input / output ---------------------------------------------------------------------
    g.op("adv_push.1", &[], 1);
    g.op("adv_push.3", &[], 3);
    g.op("adv_loadw", &[0, 0, 0, 0], 0);
    g.op("mem_store", &[10, 42], -2);
    g.op("mem_load", &[10], 0);
    g.op("mem_load", &[20], 0); // first access: init read
    g.op("mem_store", &[10, 43], -2);
    g.op("mem_load", &[10], 0);
    g.op("mem_storew", &[30, 1, 2, 3, 4], -1);
    g.op("mem_loadw", &[30, 0, 0, 0, 0], -1);
    g.op("mem_loadw", &[40, 0, 0, 0, 0], -1); // first access: init read
    g.op("mem_storew", &[31, 5, 6, 7, 8], -1);
    g.op("mem_load.10", &[], 1);
    g.op("mem_store.11", &[5], -1);
    g.op("mem_stream", &[0, 0, 0, 0, 0, 0, 0, 0, 0, 0, 0, 0, 30], 0);
    g.op("adv_pipe", &[0, 0, 0, 0, 0, 0, 0, 0, 0, 0, 0, 0, 50], 0);
    g.op("mem_loadw", &[70000, 0, 0, 0, 0], -1); // large address delta (uses d1)

    // ---- cryptographic operations -----------------------------------------------------------
    g.op("hperm", &[1, 2, 3, 4, 5, 6, 7, 8, 9, 10, 11, 12], 0);
    g.op("hash", &[1, 2, 3, 4], 0);
    g.op("hmerge", &[1, 2, 3, 4, 5, 6, 7, 8], -4);
    let r = w(&m.root);
    let r2 = w(&m.root2);
    for idx in [3u64, 6] {
        g.op("mtree_get", &[3, idx, r[0], r[1], r[2], r[3]], 2);
        let v = w(&m.leaves[idx as usize]);
        g.op("mtree_verify", &[v[0], v[1], v[2], v[3], 3, idx, r[0], r[1], r[2], r[3]], 0);
    }
    g.op("mtree_set", &[3, 5, r[0], r[1], r[2], r[3], 4, 3, 2, 99], -2);
    g.op("mtree_merge", &[r2[0], r2[1], r2[2], r2[3], r[0], r[1], r[2], r[3]], -4);

    // ---- control flow -----------------------------------------------------------------------
    g.op("if.true push.3 drop else push.4 drop end", &[1], -1);
    g.op("if.true push.3 drop else push.4 drop end", &[0], -1);
    g.op("if.true add else mul end", &[1, 2, 3], -2);
    g.op("while.true sub.1 dup.0 neq.0 end", &[1, 3], -1);
    g.op("while.true push.1 drop push.0 end", &[0], -1);
    // LOOP, REPEAT and the loop-exit END all executed without anything pushed in between
    g.op("while.true swap swap end", &[1, 1, 0], -3);
    g.op("repeat.3 push.1 drop end", &[], 0);
    g.op("repeat.2 if.true push.0 else push.1 end end drop drop", &[1, 0], -2);
}

pub const PROCS: &str = "
proc.locals.3
    push.11 loc_store.0
    push.1.2.3.4 loc_storew.1 dropw
    loc_load.0 drop
    padw loc_loadw.1 dropw
    loc_load.2 drop
    locaddr.0 drop
end

proc.ctxmem
    push.77 push.5 mem_store
    push.5 mem_load drop
    push.9 mem_load drop
    push.1.2.3.4 push.6 mem_storew dropw
    padw push.6 mem_loadw dropw
    push.5 mem_load drop
    exec.locals
end
";

/// Returns (name, source) for the program executed with `extra` items in the overflow table.
pub fn program(extra: usize, m: &MerkleData) -> (String, String) {
    let mut g = Gen::new(16 + extra);
    body(&mut g, m);
    let body = g.finish();
    let src = format!("{PROCS}\nbegin\n{body}end\n");
    (format!("depth{}", 16 + extra), src)
}
