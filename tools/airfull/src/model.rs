//! The expectation model: which cell of which kind of row is documented to be enforced by a
//! MAIN-TRACE TRANSITION constraint.
//!
//! Every rule below cites the place in docs/src/design where it comes from. A cell is one of
//!   * `Enf`  - the documentation lists a main-trace transition constraint that pins this cell on
//!              this kind of row: a wrong value must make `evaluate_transition` non-zero;
//!   * `Wl`   - whitelisted: per the documentation the cell is tied only through an auxiliary
//!              (bus / LogUp / multiset) column, a boundary constraint, a constraint that looks at
//!              it as the *current* row of the following frame, or is not constrained at all;
//!   * `Gap`  - the documentation says it is enforced by a main-trace transition constraint, but
//!              the UNCHANGED code base already does not enforce it (pre-existing, reported
//!              separately and excluded from the verdict).

use miden_air::trace::{
    chiplets::*,
    decoder::*,
    range::{M_COL_IDX, V_COL_IDX},
    stack::{B0_COL_IDX, H0_COL_IDX},
    *,
};
use miden_air::Felt;

#[derive(Clone, Copy, Debug, PartialEq, Eq)]
pub enum Exp {
    Enf,
    Wl(&'static str),
    Gap(&'static str),
}
use Exp::*;

// ---- reasons -----------------------------------------------------------------------------------
const R_DECODER: &str = "decoder column: decoder constraints are outside C04 / not part of this AIR";
const R_SYS: &str =
    "design/main.md describes AIR constraints only for clk and fmp (ctx / in_syscall / fn_hash have none)";
const R_FMP: &str = "system_ops.md defines an fmp transition constraint only for FMPUPDATE";
const R_H0_NEXT: &str =
    "stack h0 enters only the single-row constraint (1-f_ov)(b0-16)=0 (stack/main.md); checked as a current-row cell";
const R_H0_16: &str = "stack/main.md: when b0 = 16 the prover may set h0 to any value";
const R_B1_LEFT: &str =
    "stack/main.md: on a left shift b1' is tied through the overflow-table column p1 (aux)";
const R_B1_NONE: &str = "stack/main.md defines a b1' constraint only for right shifts";
const R_S15_OVF: &str =
    "stack/main.md: on a left shift with a non-empty overflow table s15' comes from the overflow table via p1 (aux)";
const R_BUS: &str = "result is tied through the chiplets bus b_chip (aux), see u32_ops.md / io_ops.md / crypto_ops.md";
const R_ADV: &str = "io_ops.md: ADVPOP / ADVPOPW / PIPE values come from the advice provider, no constraint";
const R_PUSH: &str = "io_ops.md: PUSH immediate is tied through the decoder op-group table (aux)";
const R_END_CALL: &str = "END of a CALL/SYSCALL block: depth is restored through the block stack table (aux)";
const R_NOT_DOC: &str = "no main-trace constraint documented for this cell on this kind of row";
const R_RANGE_M: &str = "range.md: multiplicity m enters only the LogUp bus b_range (aux)";
const R_SEL_SWITCH: &str =
    "chiplets/main.md: a chiplet selector may legally switch 0 -> 1 (start of the next chiplet)";
const R_HASH_S0: &str = "hasher.md: s0 is unconstrained except after ABP/MPA/MVA/MUA";
const R_HASH_S12: &str = "hasher.md: s1, s2 may change when f_out or f_out' is set";
const R_HASH_OUT: &str = "hasher.md: when a computation is completed (f_out=1) the next hasher state / index is unconstrained";
const R_HASH_ABSORB: &str = "hasher.md: absorbed rate elements / sibling node are supplied via bus b_chip, sibling table p1 or advice";
const R_BW_NEWOP: &str =
    "bitwise.md: k1=0 on the last row of a cycle, the next operation starts with unconstrained inputs (first-row constraints are single-row)";
const R_BW_Z_NEXT: &str = "bitwise.md: z enters the transition only as z (current row); z' is checked as a current-row cell";
const R_BW_CUR: &str = "cell is tied as a next-row cell of the previous frame / not in a constraint of this frame";
const R_UNUSED: &str = "unused chiplet column";
const R_MEM_RW: &str = "memory.md: read/write selector is tied through the chiplets bus; binary check is single-row";
const R_MEM_CTXCHG: &str = "memory.md: when the context (or address) changes the lower-order columns addr / clk are free";
const R_MEM_V: &str = "memory.md: on writes / first reads v' comes from the bus; the zero-initialisation is a single-row constraint";
const R_MEM_T: &str = "memory.md: no constraint involves t' when neither ctx nor addr change";
const R_MEM_LAST: &str = "chiplets/main.md: the memory selector flag deliberately excludes the chiplet's last row";
const R_PAD: &str = "kernel ROM / padding rows: outside C04 (no hasher/bitwise/memory constraint applies)";
const R_HELPER_FREE: &str = "docs: helper value may be anything in this case (operand difference / v_lo is zero) or is only range-checked via LogUp";

// ---- known pre-existing gaps ---------------------------------------------------------------------
pub const G_U32ASSERT2: &str = "U32ASSERT2: u32_ops.md lists s0' = 2^16*h3 + h2 and s1' = 2^16*h1 + h0, but enforce_limbs_agg() excludes U32ASSERT2 and no other constraint ties h0..h3 to the stack";
pub const G_MSTREAM: &str = "MSTREAM: io_ops.md lists s12' = s12 + 2 and 'no change starting from position 8', but no constraint (unique or general) mentions the MSTREAM flag";
pub const G_HASH_MPA: &str = "hasher MPA/MVA/MUA row (last row of a cycle): hasher.md says the digest h4..h7 is copied to h4'..h7' or h8'..h11' (depending on bit b); the code multiplies this constraint by k0*(f_mp+f_mv+f_mu) where f_m* contain k2, and k0*k2 = 0 on every row";
pub const G_BW_LAST: &str = "last row of the bitwise chiplet: chiplets/main.md selects bitwise constraints with s0*(1-s1) of the CURRENT row, the code uses s0*(1-s1') so the output-aggregation constraint is off on the chiplet's final row";
pub const G_S3: &str = "chiplets/main.md lists binary / monotonicity constraints for chiplet selector s3; chiplets::enforce_selectors() only covers s0..s2";

// ---- helpers -------------------------------------------------------------------------------------

pub fn u(f: Felt) -> u64 {
    f.as_int()
}

pub fn opcode(row: &[Felt]) -> u8 {
    let mut op = 0u8;
    for i in 0..7 {
        op |= (u(row[DECODER_TRACE_OFFSET + OP_BITS_OFFSET + i]) as u8 & 1) << i;
    }
    op
}

pub fn op_name(op: u8) -> &'static str {
    match op {
        0 => "NOOP", 1 => "EQZ", 2 => "NEG", 3 => "INV", 4 => "INCR", 5 => "NOT", 6 => "FMPADD",
        7 => "MLOAD", 8 => "SWAP", 9 => "CALLER", 10 => "MOVUP2", 11 => "MOVDN2", 12 => "MOVUP3",
        13 => "MOVDN3", 14 => "ADVPOPW", 15 => "EXPACC", 16 => "MOVUP4", 17 => "MOVDN4",
        18 => "MOVUP5", 19 => "MOVDN5", 20 => "MOVUP6", 21 => "MOVDN6", 22 => "MOVUP7",
        23 => "MOVDN7", 24 => "SWAPW", 25 => "EXT2MUL", 26 => "MOVUP8", 27 => "MOVDN8",
        28 => "SWAPW2", 29 => "SWAPW3", 30 => "SWAPDW", 32 => "ASSERT", 33 => "EQ", 34 => "ADD",
        35 => "MUL", 36 => "AND", 37 => "OR", 38 => "U32AND", 39 => "U32XOR", 40 => "FRIE2F4",
        41 => "DROP", 42 => "CSWAP", 43 => "CSWAPW", 44 => "MLOADW", 45 => "MSTORE",
        46 => "MSTOREW", 47 => "FMPUPDATE", 48 => "PAD", 49 => "DUP0", 50 => "DUP1", 51 => "DUP2",
        52 => "DUP3", 53 => "DUP4", 54 => "DUP5", 55 => "DUP6", 56 => "DUP7", 57 => "DUP9",
        58 => "DUP11", 59 => "DUP13", 60 => "DUP15", 61 => "ADVPOP", 62 => "SDEPTH", 63 => "CLK",
        64 => "U32ADD", 66 => "U32SUB", 68 => "U32MUL", 70 => "U32DIV", 72 => "U32SPLIT",
        74 => "U32ASSERT2", 76 => "U32ADD3", 78 => "U32MADD", 80 => "HPERM", 81 => "MPVERIFY",
        82 => "PIPE", 83 => "MSTREAM", 84 => "SPLIT", 85 => "LOOP", 86 => "SPAN", 87 => "JOIN",
        88 => "DYN", 89 => "RCOMBBASE", 96 => "MRUPDATE", 100 => "PUSH", 104 => "SYSCALL",
        108 => "CALL", 112 => "END", 116 => "REPEAT", 120 => "RESPAN", 124 => "HALT",
        _ => "???",
    }
}

/// All opcodes for which `stack_op_model` has an entry (used for the coverage report).
pub const MODELLED_OPS: &[u8] = &[
    0, 1, 2, 3, 4, 5, 6, 7, 8, 10, 11, 12, 13, 14, 15, 16, 17, 18, 19, 20, 21, 22, 23, 24, 25, 26,
    27, 28, 29, 30, 32, 33, 34, 35, 36, 37, 38, 39, 41, 42, 43, 44, 45, 46, 47, 48, 49, 50, 51, 52,
    53, 54, 55, 56, 57, 58, 59, 60, 61, 62, 63, 64, 66, 68, 70, 72, 74, 76, 78, 80, 81, 82, 83, 84,
    85, 86, 87, 96, 100, 108, 112, 116, 120, 124,
];

/// How an operation treats "the rest of the stack" (the wording used at the end of every
/// operation section of docs/src/design/stack/*.md).
#[derive(Clone, Copy)]
enum Rest {
    /// "No change starting from position n"
    NoChange(usize),
    /// "Left shift starting from position n"
    Left(usize),
    /// "Right shift starting from position n"
    Right(usize),
    /// every position is pinned (MOVUP / MOVDN / SWAPW* / SWAPDW)
    All,
    /// nothing beyond the explicitly listed cells
    Nothing,
}

struct OpModel {
    /// next-row positions pinned by the operation-specific constraints
    unique: &'static [usize],
    /// next-row positions that are explicitly not pinned by a main-trace constraint
    wl: &'static [usize],
    wl_reason: &'static str,
    /// next-row positions that the docs say are pinned but the unchanged code does not pin
    gap: &'static [usize],
    gap_reason: &'static str,
    rest: Rest,
}

const fn m(unique: &'static [usize], rest: Rest) -> OpModel {
    OpModel { unique, wl: &[], wl_reason: "", gap: &[], gap_reason: "", rest }
}
const fn mw(wl: &'static [usize], wl_reason: &'static str, rest: Rest) -> OpModel {
    OpModel { unique: &[], wl, wl_reason, gap: &[], gap_reason: "", rest }
}

/// docs/src/design/stack/{system_ops,field_ops,stack_ops,u32_ops,io_ops,crypto_ops}.md and, for
/// the control-flow operations, op_constraints.md ("Shift left flag") + decoder/main.md.
fn stack_op_model(op: u8, cur: &[Felt]) -> Option<OpModel> {
    use Rest::*;
    Some(match op {
        0 => m(&[], NoChange(0)),                           // NOOP
        1..=6 => m(&[0], NoChange(1)),                      // EQZ NEG INV INCR NOT FMPADD
        7 => mw(&[0], R_BUS, NoChange(1)),                  // MLOAD
        8 => m(&[0, 1], NoChange(2)),                       // SWAP
        10 | 12 | 16 | 18 | 20 | 22 | 26 => m(&[], All),    // MOVUP2..8
        11 | 13 | 17 | 19 | 21 | 23 | 27 => m(&[], All),    // MOVDN2..8
        14 => mw(&[0, 1, 2, 3], R_ADV, NoChange(4)),        // ADVPOPW
        15 => m(&[0, 1, 2, 3], NoChange(4)),                // EXPACC
        24 | 28 | 29 | 30 => m(&[], All),                   // SWAPW SWAPW2 SWAPW3 SWAPDW
        25 => m(&[0, 1, 2, 3], NoChange(4)),                // EXT2MUL
        32 => m(&[], Left(1)),                              // ASSERT
        33..=37 => m(&[0], Left(2)),                        // EQ ADD MUL AND OR
        38 | 39 => mw(&[0], R_BUS, Left(2)),                // U32AND U32XOR
        41 => m(&[], Left(1)),                              // DROP
        42 => m(&[0, 1], Left(3)),                          // CSWAP
        43 => m(&[0, 1, 2, 3, 4, 5, 6, 7], Left(9)),        // CSWAPW
        44 => mw(&[0, 1, 2, 3], R_BUS, Left(5)),            // MLOADW
        45 | 46 | 47 => m(&[], Left(1)),                    // MSTORE MSTOREW FMPUPDATE
        48..=60 | 62 | 63 => m(&[0], Right(0)),             // PAD DUP* SDEPTH CLK
        61 => mw(&[0], R_ADV, Right(0)),                    // ADVPOP
        64 | 66 | 68 | 70 => m(&[0, 1], NoChange(2)),       // U32ADD U32SUB U32MUL U32DIV
        72 => m(&[0, 1], Right(1)),                         // U32SPLIT
        74 => m(&[], NoChange(0)),                          // U32ASSERT2
        76 | 78 => m(&[0, 1], Left(3)),                     // U32ADD3 U32MADD
        80 => mw(&[0, 1, 2, 3, 4, 5, 6, 7, 8, 9, 10, 11], R_BUS, NoChange(12)), // HPERM
        81 => m(&[], NoChange(0)),                          // MPVERIFY
        82 => OpModel {                                     // PIPE (no section in io_ops.md)
            unique: &[],
            wl: &[0, 1, 2, 3, 4, 5, 6, 7, 8, 9, 10, 11, 12, 13, 14, 15],
            wl_reason: R_ADV,
            gap: &[],
            gap_reason: "",
            rest: Nothing,
        },
        83 => OpModel {                                     // MSTREAM
            unique: &[],
            wl: &[0, 1, 2, 3, 4, 5, 6, 7],
            wl_reason: R_BUS,
            gap: &[8, 9, 10, 11, 12, 13, 14, 15],
            gap_reason: G_MSTREAM,
            rest: Nothing,
        },
        84 | 85 => m(&[], Left(1)),                         // SPLIT LOOP
        86 | 87 => m(&[], NoChange(0)),                     // SPAN JOIN
        96 => mw(&[0, 1, 2, 3], R_BUS, NoChange(4)),        // MRUPDATE
        100 => mw(&[0], R_PUSH, Right(0)),                  // PUSH
        108 => m(&[], NoChange(0)),                         // CALL
        112 => {
            // END: pops the loop condition when exiting a loop (h5 = is_loop flag)
            if u(cur[DECODER_TRACE_OFFSET + IS_LOOP_FLAG_COL_IDX]) == 1 {
                m(&[], Left(1))
            } else {
                m(&[], NoChange(0))
            }
        },
        116 => m(&[], Left(1)),                             // REPEAT
        120 | 124 => m(&[], NoChange(0)),                   // RESPAN HALT
        _ => return None,
    })
}

fn is_right_shift(op: u8) -> bool {
    (48..=63).contains(&op) || op == 72 || op == 100
}

fn is_left_shift(op: u8, cur: &[Felt]) -> bool {
    (32..=47).contains(&op)
        || op == 76
        || op == 78
        || op == 84
        || op == 85
        || op == 116
        || (op == 112 && u(cur[DECODER_TRACE_OFFSET + IS_LOOP_FLAG_COL_IDX]) == 1)
}

pub fn cell_name(col: usize) -> String {
    if col == CLK_COL_IDX {
        "sys.clk".into()
    } else if col == FMP_COL_IDX {
        "sys.fmp".into()
    } else if col == CTX_COL_IDX {
        "sys.ctx".into()
    } else if col == IN_SYSCALL_COL_IDX {
        "sys.in_syscall".into()
    } else if FN_HASH_RANGE.contains(&col) {
        format!("sys.fn_hash{}", col - FN_HASH_OFFSET)
    } else if DECODER_TRACE_RANGE.contains(&col) {
        let j = col - DECODER_TRACE_OFFSET;
        if (USER_OP_HELPERS_OFFSET..USER_OP_HELPERS_OFFSET + NUM_USER_OP_HELPERS).contains(&j) {
            format!("decoder.helper_h{}", j - USER_OP_HELPERS_OFFSET)
        } else {
            format!("decoder.col{j}")
        }
    } else if STACK_TRACE_RANGE.contains(&col) {
        let j = col - STACK_TRACE_OFFSET;
        match j {
            0..=15 => format!("stack.s{j}"),
            16 => "stack.b0".into(),
            17 => "stack.b1".into(),
            _ => "stack.h0".into(),
        }
    } else if col == M_COL_IDX {
        "range.m".into()
    } else if col == V_COL_IDX {
        "range.v".into()
    } else {
        format!("chiplets.col{}", col - CHIPLETS_OFFSET)
    }
}

// ---- system / stack region -----------------------------------------------------------------------

/// Expectation for a perturbation of `next[col]` where col is a system or stack column.
pub fn sys_stack_next(col: usize, cur: &[Felt], _nxt: &[Felt]) -> Result<Exp, String> {
    let op = opcode(cur);
    if col == CLK_COL_IDX {
        return Ok(Enf); // design/main.md: clk' - (clk + 1) = 0
    }
    if col == FMP_COL_IDX {
        return Ok(if op == 47 { Enf } else { Wl(R_FMP) });
    }
    if SYS_TRACE_RANGE.contains(&col) {
        return Ok(Wl(R_SYS));
    }
    let j = col - STACK_TRACE_OFFSET;
    let depth = u(cur[STACK_TRACE_OFFSET + B0_COL_IDX]);
    match j {
        16 => {
            // stack/main.md "Stack depth constraints": b0' - b0 + f_shl*f_ov - f_shr = 0
            if op == 112
                && (u(cur[DECODER_TRACE_OFFSET + IS_CALL_FLAG_COL_IDX]) == 1
                    || u(cur[DECODER_TRACE_OFFSET + IS_SYSCALL_FLAG_COL_IDX]) == 1)
            {
                Ok(Wl(R_END_CALL))
            } else {
                Ok(Enf)
            }
        },
        17 => {
            // stack/main.md: f_shr * (b1' - k0) = 0
            if is_right_shift(op) {
                Ok(Enf)
            } else if is_left_shift(op, cur) {
                Ok(Wl(R_B1_LEFT))
            } else {
                Ok(Wl(R_B1_NONE))
            }
        },
        18 => Ok(Wl(R_H0_NEXT)),
        _ => {
            let model = stack_op_model(op, cur)
                .ok_or_else(|| format!("operation {} (opcode {op}) has no model", op_name(op)))?;
            if model.wl.contains(&j) {
                return Ok(Wl(model.wl_reason));
            }
            if model.gap.contains(&j) {
                return Ok(Gap(model.gap_reason));
            }
            if model.unique.contains(&j) {
                return Ok(Enf);
            }
            Ok(match model.rest {
                Rest::All => Enf,
                Rest::NoChange(n) => {
                    if j >= n {
                        Enf
                    } else {
                        Wl(R_NOT_DOC)
                    }
                },
                Rest::Right(n) => {
                    if j > n {
                        Enf
                    } else {
                        Wl(R_NOT_DOC)
                    }
                },
                Rest::Left(n) => {
                    if j == 15 {
                        // stack/main.md: f_shl * (1 - f_ov) * s15' = 0, otherwise via p1
                        if depth == 16 {
                            Enf
                        } else {
                            Wl(R_S15_OVF)
                        }
                    } else if j + 1 >= n {
                        Enf
                    } else {
                        Wl(R_NOT_DOC)
                    }
                },
                Rest::Nothing => Wl(R_NOT_DOC),
            })
        },
    }
}

/// Current-row cells of the system / decoder / stack region that take part in single-row
/// relations: stack h0 and the decoder helper registers used by field / u32 operations.
/// Returns the list of (column, expectation).
pub fn sys_stack_current(cur: &[Felt]) -> Vec<(usize, Exp)> {
    let mut out = Vec::new();
    let op = opcode(cur);
    let depth = u(cur[STACK_TRACE_OFFSET + B0_COL_IDX]);
    // stack/main.md "Stack overflow flag": (1 - (b0-16)*h0) * (b0-16) = 0
    out.push((STACK_TRACE_OFFSET + H0_COL_IDX, if depth != 16 { Enf } else { Wl(R_H0_16) }));

    let h = |i: usize| DECODER_TRACE_OFFSET + USER_OP_HELPERS_OFFSET + i;
    let s = |i: usize| u(cur[STACK_TRACE_OFFSET + i]);
    let hv = |i: usize| u(cur[DECODER_TRACE_OFFSET + USER_OP_HELPERS_OFFSET + i]);
    match op {
        // field_ops.md EQZ: s0' = 1 - s0*h0 ; h0 is free when s0 = 0
        1 => out.push((h(0), if s(0) != 0 { Enf } else { Wl(R_HELPER_FREE) })),
        // field_ops.md EQ: s0' = 1 - (s0-s1)*h0
        33 => out.push((h(0), if s(0) != s(1) { Enf } else { Wl(R_HELPER_FREE) })),
        // field_ops.md EXPACC: h0 = val
        15 => out.push((h(0), Enf)),
        // u32_ops.md U32ADD / U32ADD3: h0..h2 limbs of the sum, h3 "set to 0" (no constraint)
        64 | 76 => {
            for i in 0..3 {
                out.push((h(i), Enf));
            }
            out.push((h(3), Wl(R_HELPER_FREE)));
        },
        // u32_ops.md U32SUB: s1' = 2^16*h1 + h0; h2, h3 only range-checked
        66 => {
            out.push((h(0), Enf));
            out.push((h(1), Enf));
            out.push((h(2), Wl(R_HELPER_FREE)));
            out.push((h(3), Wl(R_HELPER_FREE)));
        },
        // u32_ops.md U32MUL / U32MADD / U32SPLIT: h0..h3 limbs, h4 = m (element validity)
        68 | 78 | 72 => {
            for i in 0..4 {
                out.push((h(i), Enf));
            }
            let v_lo = hv(0) + (hv(1) << 16);
            out.push((h(4), if v_lo != 0 { Enf } else { Wl(R_HELPER_FREE) }));
        },
        // u32_ops.md U32DIV
        70 => {
            for i in 0..4 {
                out.push((h(i), Enf));
            }
        },
        // u32_ops.md U32ASSERT2: s0' = 2^16*h3 + h2, s1' = 2^16*h1 + h0
        74 => {
            for i in 0..4 {
                out.push((h(i), Gap(G_U32ASSERT2)));
            }
        },
        _ => {},
    }
    out
}

// ---- range checker ---------------------------------------------------------------------------------

const ALLOWED_DELTAS: [u64; 9] = [0, 1, 3, 9, 27, 81, 243, 729, 2187];

/// range.md "Execution trace constraints". Returns None when the perturbed value is itself an
/// allowed transition (delta 0 or a power of 3 up to 3^7): such a value is "wrong" only with
/// respect to the LogUp bus / boundary constraints.
pub fn range_next(col: usize, cur: &[Felt], new_val: Felt) -> Option<Exp> {
    if col == M_COL_IDX {
        return Some(Wl(R_RANGE_M));
    }
    let delta = u(new_val - cur[V_COL_IDX]);
    if ALLOWED_DELTAS.contains(&delta) {
        None
    } else {
        Some(Enf)
    }
}

// ---- chiplets ---------------------------------------------------------------------------------------

#[derive(Clone, Copy, Debug, PartialEq, Eq)]
pub enum Chiplet {
    Hasher,
    Bitwise,
    Memory,
    KernelRom,
    Padding,
}

pub fn chiplet_kind(row: &[Felt]) -> Chiplet {
    let c = |i: usize| u(row[CHIPLETS_OFFSET + i]);
    if c(0) == 0 {
        Chiplet::Hasher
    } else if c(1) == 0 {
        Chiplet::Bitwise
    } else if c(2) == 0 {
        Chiplet::Memory
    } else if c(3) == 0 {
        Chiplet::KernelRom
    } else {
        Chiplet::Padding
    }
}

pub fn hasher_row_kind(row: &[Felt], p: usize) -> String {
    let s = (
        u(row[HASHER_SELECTOR_COL_RANGE.start]),
        u(row[HASHER_SELECTOR_COL_RANGE.start + 1]),
        u(row[HASHER_SELECTOR_COL_RANGE.start + 2]),
    );
    let instr = if p == 7 {
        match s {
            (0, 0, 0) => "HOUT",
            (0, 0, 1) => "SOUT",
            (1, 0, 0) => "ABP",
            (1, 0, 1) => "MPA",
            (1, 1, 0) => "MVA",
            (1, 1, 1) => "MUA",
            _ => "?",
        }
    } else if p == 0 {
        match s {
            (1, 0, 0) => "BP+HR",
            (1, 0, 1) => "MP+HR",
            (1, 1, 0) => "MV+HR",
            (1, 1, 1) => "MU+HR",
            _ => "HR",
        }
    } else {
        "HR"
    };
    format!("hasher[{instr}, cycle row {p}]")
}

pub fn chiplet_row_kind(row: &[Felt], nxt: &[Felt], r: usize) -> String {
    let p = r % 8;
    match chiplet_kind(row) {
        Chiplet::Hasher => hasher_row_kind(row, p),
        Chiplet::Bitwise => {
            let op = if u(row[BITWISE_SELECTOR_COL_IDX]) == 0 { "AND" } else { "XOR" };
            let last = if chiplet_kind(nxt) != Chiplet::Bitwise { ", LAST ROW OF CHIPLET" } else { "" };
            format!("bitwise[{op}, cycle row {p}{last}]")
        },
        Chiplet::Memory => {
            let s0 = u(row[MEMORY_TRACE_OFFSET]);
            let s1 = u(row[MEMORY_TRACE_OFFSET + 1]);
            let k = match (s0, s1) {
                (0, 0) => "write",
                (1, 0) => "init-read",
                (1, 1) => "copy-read",
                _ => "?",
            };
            let last = if chiplet_kind(nxt) != Chiplet::Memory { ", LAST ROW OF CHIPLET" } else { "" };
            format!("memory[{k}{last}]")
        },
        Chiplet::KernelRom => "kernel-rom".into(),
        Chiplet::Padding => "chiplets-padding".into(),
    }
}

/// memory.md: a perturbed ctx' / addr' can itself be a LEGAL transition: if the (unchanged) delta
/// limbs d0', d1' and inverse t' happen to describe the new context / address delta and the next
/// row is not a copy-read, every documented memory constraint is satisfied (n0 resp. n1 becomes
/// 1). Such a row is "wrong" only with respect to the chiplets bus, exactly like a range-checker
/// step by another power of 3.
fn memory_legal_alternative(col: usize, cur: &[Felt], nxt: &[Felt], new_val: Felt) -> bool {
    let delta_next =
        nxt[MEMORY_D1_COL_IDX] * Felt::new(1 << 16) + nxt[MEMORY_D0_COL_IDX];
    let t_next = nxt[MEMORY_D_INV_COL_IDX];
    let s1_next = u(nxt[MEMORY_TRACE_OFFSET + 1]);
    let ctx_changed = cur[MEMORY_CTX_COL_IDX] != nxt[MEMORY_CTX_COL_IDX];
    if s1_next != 0 {
        return false;
    }
    if col == MEMORY_CTX_COL_IDX {
        let dc = new_val - cur[MEMORY_CTX_COL_IDX];
        return dc * t_next == Felt::new(1) && dc == delta_next;
    }
    if col == MEMORY_ADDR_COL_IDX && !ctx_changed {
        let da = new_val - cur[MEMORY_ADDR_COL_IDX];
        return da * t_next == Felt::new(1) && da == delta_next;
    }
    false
}

/// Expectation for a perturbation of next[CHIPLETS_OFFSET + j] to `new_val`. Returns None when
/// the perturbed row is itself a legal transition according to the documented constraints.
pub fn chiplet_next(j: usize, cur: &[Felt], nxt: &[Felt], r: usize, new_val: Felt) -> Option<Exp> {
    if chiplet_kind(cur) == Chiplet::Memory
        && chiplet_kind(nxt) == Chiplet::Memory
        && memory_legal_alternative(CHIPLETS_OFFSET + j, cur, nxt, new_val)
    {
        return None;
    }
    Some(chiplet_next_inner(j, cur, nxt, r))
}

fn chiplet_next_inner(j: usize, cur: &[Felt], nxt: &[Felt], r: usize) -> Exp {
    let p = r % 8;
    let cur_kind = chiplet_kind(cur);
    let nxt_kind = chiplet_kind(nxt);

    // chiplet selector columns (chiplets/main.md "Chiplet selector constraints")
    let n_sel = match cur_kind {
        Chiplet::Hasher => 1,
        Chiplet::Bitwise => 2,
        Chiplet::Memory => 3,
        _ => 4,
    };
    if j < n_sel {
        let cur_sel = u(cur[CHIPLETS_OFFSET + j]);
        if j == 3 {
            // s3 acts as selector on kernel-ROM / padding rows
            return if cur_sel == 1 { Gap(G_S3) } else { Wl(R_SEL_SWITCH) };
        }
        return if cur_sel == 1 { Enf } else { Wl(R_SEL_SWITCH) };
    }

    match cur_kind {
        Chiplet::Hasher => {
            let s = (
                u(cur[HASHER_SELECTOR_COL_RANGE.start]),
                u(cur[HASHER_SELECTOR_COL_RANGE.start + 1]),
                u(cur[HASHER_SELECTOR_COL_RANGE.start + 2]),
            );
            let f_out = p == 7 && s.0 == 0 && s.1 == 0;
            let absorb = p == 7 && s.0 == 1; // ABP, MPA, MVA, MUA
            let merkle_absorb = absorb && (s.1 == 1 || s.2 == 1);
            let col = CHIPLETS_OFFSET + j;
            if col == HASHER_SELECTOR_COL_RANGE.start {
                // hasher.md: s0' * (f_abp + f_mpa + f_mva + f_mua) = 0
                return if absorb { Enf } else { Wl(R_HASH_S0) };
            }
            if HASHER_SELECTOR_COL_RANGE.contains(&col) {
                // hasher.md: (s_i' - s_i) * (1 - f_out') * (1 - f_out) = 0, i = 1, 2
                let f_out_next = p == 6
                    && nxt_kind == Chiplet::Hasher
                    && u(nxt[HASHER_SELECTOR_COL_RANGE.start]) == 0
                    && u(nxt[HASHER_SELECTOR_COL_RANGE.start + 1]) == 0;
                return if !f_out && !f_out_next { Enf } else { Wl(R_HASH_S12) };
            }
            if col == HASHER_NODE_INDEX_COL_IDX {
                // hasher.md "Node index constraints"
                return if f_out { Wl(R_HASH_OUT) } else { Enf };
            }
            // hasher state h0..h11
            let k = col - HASHER_STATE_COL_RANGE.start;
            if p < 7 {
                return Enf; // hasher.md: RPO round constraints on the first 7 rows of a cycle
            }
            if f_out {
                return Wl(R_HASH_OUT);
            }
            if absorb && !merkle_absorb {
                // hasher.md: f_abp * (h_j' - h_j) = 0 for j in [0, 4)
                return if k < 4 { Enf } else { Wl(R_HASH_ABSORB) };
            }
            if merkle_absorb {
                // hasher.md: (f_mp+f_mv+f_mu) * ((1-b)(h'_{j+4} - h_{j+4}) + b (h'_{j+8} - h_{j+4})) = 0
                let i = u(cur[HASHER_NODE_INDEX_COL_IDX]);
                let i_next = u(nxt[HASHER_NODE_INDEX_COL_IDX]);
                let b = i - 2 * i_next;
                let copied = if b == 0 { 4..8 } else { 8..12 };
                return if copied.contains(&k) { Gap(G_HASH_MPA) } else { Wl(R_HASH_ABSORB) };
            }
            Wl(R_NOT_DOC)
        },
        Chiplet::Bitwise => {
            if j >= 15 {
                return Wl(R_UNUSED);
            }
            if nxt_kind != Chiplet::Bitwise || p == 7 {
                return Wl(R_BW_NEWOP);
            }
            let col = CHIPLETS_OFFSET + j;
            if col == BITWISE_OUTPUT_COL_IDX {
                return Wl(R_BW_Z_NEXT);
            }
            // bitwise.md: k1*(s'-s), k1*(a' - (16a + sum 2^i a_i')), same for b, k1*(z - z_p')
            Enf
        },
        Chiplet::Memory => {
            if j >= 15 {
                return Wl(R_UNUSED);
            }
            if nxt_kind != Chiplet::Memory {
                return Wl(R_MEM_LAST);
            }
            let col = CHIPLETS_OFFSET + j;
            let ctx_changed = cur[MEMORY_CTX_COL_IDX] != nxt[MEMORY_CTX_COL_IDX];
            let addr_changed = cur[MEMORY_ADDR_COL_IDX] != nxt[MEMORY_ADDR_COL_IDX];
            if col == MEMORY_TRACE_OFFSET {
                return Wl(R_MEM_RW);
            }
            if col == MEMORY_TRACE_OFFSET + 1 {
                return Enf; // memory.md: the two s1' constraints
            }
            if col == MEMORY_CTX_COL_IDX {
                return Enf; // memory.md: n0 binary, (1-n0)*dc = 0, delta constraint
            }
            if col == MEMORY_ADDR_COL_IDX {
                return if ctx_changed { Wl(R_MEM_CTXCHG) } else { Enf };
            }
            if col == MEMORY_CLK_COL_IDX {
                return if ctx_changed || addr_changed { Wl(R_MEM_CTXCHG) } else { Enf };
            }
            if MEMORY_V_COL_RANGE.contains(&col) {
                // memory.md: s1' * (v_i' - v_i) = 0
                return if u(nxt[MEMORY_TRACE_OFFSET + 1]) == 1 { Enf } else { Wl(R_MEM_V) };
            }
            if col == MEMORY_D0_COL_IDX || col == MEMORY_D1_COL_IDX {
                return Enf; // memory.md: delta constraint
            }
            if col == MEMORY_D_INV_COL_IDX {
                return if ctx_changed || addr_changed { Enf } else { Wl(R_MEM_T) };
            }
            Wl(R_NOT_DOC)
        },
        Chiplet::KernelRom | Chiplet::Padding => Wl(R_PAD),
    }
}

/// Current-row chiplet cells which take part in single-row relations or are the "current"
/// operand of a transition relation. Returns (relative column j, expectation).
pub fn chiplet_current(cur: &[Felt], nxt: &[Felt], r: usize) -> Vec<(usize, Exp)> {
    let p = r % 8;
    let mut out = Vec::new();
    match chiplet_kind(cur) {
        Chiplet::Bitwise => {
            let last_row_of_chiplet = chiplet_kind(nxt) != Chiplet::Bitwise;
            let rel = |col: usize| col - CHIPLETS_OFFSET;
            if last_row_of_chiplet {
                // chiplets/main.md: bitwise flag is s0*(1-s1) on the current row, so the single-row
                // output aggregation z = 16*z_p + op(bits) is documented to hold on this row too.
                out.push((rel(BITWISE_PREV_OUTPUT_COL_IDX), Gap(G_BW_LAST)));
                out.push((rel(BITWISE_OUTPUT_COL_IDX), Gap(G_BW_LAST)));
                return out;
            }
            // bitwise.md: k1 * (s' - s) = 0
            out.push((rel(BITWISE_SELECTOR_COL_IDX), if p < 7 { Enf } else { Wl(R_BW_CUR) }));
            // bitwise.md: k0*(a - sum 2^i a_i) = 0 and k1*(a' - (16 a + ...)) = 0
            out.push((rel(BITWISE_A_COL_IDX), if p < 7 { Enf } else { Wl(R_BW_CUR) }));
            out.push((rel(BITWISE_B_COL_IDX), if p < 7 { Enf } else { Wl(R_BW_CUR) }));
            for col in BITWISE_A_COL_RANGE.start..BITWISE_B_COL_RANGE.end {
                out.push((rel(col), if p == 0 { Enf } else { Wl(R_BW_CUR) }));
            }
            // bitwise.md: k0*z_p = 0 and z = 16*z_p + op(bits) on every row
            out.push((rel(BITWISE_PREV_OUTPUT_COL_IDX), Enf));
            out.push((rel(BITWISE_OUTPUT_COL_IDX), Enf));
        },
        Chiplet::Memory => {
            // memory.md: s0*(1-s1)*v_i = 0
            let init_read =
                u(cur[MEMORY_TRACE_OFFSET]) == 1 && u(cur[MEMORY_TRACE_OFFSET + 1]) == 0;
            if init_read {
                let last = chiplet_kind(nxt) != Chiplet::Memory;
                for col in MEMORY_V_COL_RANGE {
                    out.push((col - CHIPLETS_OFFSET, if last { Wl(R_MEM_LAST) } else { Enf }));
                }
            }
        },
        _ => {},
    }
    out
}

pub fn decoder_reason() -> &'static str {
    R_DECODER
}
