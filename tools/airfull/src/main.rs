//! airfull: bounded stand-in `air_full_coverage` for C04 (adapted from the demo written by the independent mutation
//! sub-agent for C04; machine-readable UNCAUGHT / GAP / SUMMARY lines added).  model.rs holds the documentation-derived
//! expectations (which cell is pinned on which kind of row), programs.rs the program generator.
//! C04 demo: "the AIR rejects any deviation from an operation's defined effect".
//!
//! For a family of programs (every operation kind at stack depth 16, 17 and 21; u32 / bitwise ops;
//! hperm / Merkle ops; memory loads and stores in several contexts) the execution trace is built
//! and for every row pair (current, next) of the MAIN trace
//!   1. the honest frame must satisfy ProcessorAir::evaluate_transition (all zero);
//!   2. every cell of the `next` row (system, decoder, stack, range checker, chiplets), and the helper /
//!      chiplet cells of the `current` row that take part in single-row relations, is perturbed
//!      (+1 and a pseudo-random value) and the constraints are evaluated again. If the
//!      documentation says that the cell is enforced on this kind of row by a main-trace
//!      transition constraint (see model.rs) at least one constraint must become non-zero.
//!
//! Exit code 0 = PASS, 1 = FAIL, 2 = internal error.

mod model;
mod programs;

use miden_air::{
    trace::*,
    Felt, FieldElement, ProcessorAir, ProvingOptions, PublicInputs,
};
use miden_assembly::Assembler;
use miden_core::StackInputs;
use miden_processor::{AdviceInputs, DefaultHost, ExecutionOptions, MemAdviceProvider};
use model::{Exp, *};
use std::collections::BTreeMap;
use winter_air::{Air, EvaluationFrame};
use winter_prover::Trace;

#[derive(Default)]
struct Finding {
    count: usize,
    first: String,
    reason: String,
}

#[derive(Default)]
struct Report {
    frames: usize,
    evaluations: usize,
    enforced_cells: usize,
    whitelisted_cells: usize,
    /// perturbed values which are themselves legal transitions per the documented constraints
    /// (range checker: another allowed delta; memory: ctx / addr delta matching d0', d1', t')
    legal_alternatives: usize,
    whitelisted_uncaught: BTreeMap<&'static str, usize>,
    honest_violations: Vec<String>,
    /// (row kind, cell) -> finding; documented-enforced, not caught, not a known gap
    failures: BTreeMap<(String, String), Finding>,
    /// known pre-existing gaps which were indeed not caught
    gaps: BTreeMap<(String, String), Finding>,
    /// known gaps that WERE caught (informational)
    gaps_caught: BTreeMap<(String, String), usize>,
    /// op name -> [seen at depth 16, 17, >17]
    op_cov: BTreeMap<&'static str, [usize; 3]>,
    chiplet_cov: BTreeMap<String, usize>,
    seen_ops: std::collections::BTreeSet<u8>,
}

struct Rng(u64);
impl Rng {
    fn next(&mut self) -> u64 {
        // xorshift64*
        self.0 ^= self.0 >> 12;
        self.0 ^= self.0 << 25;
        self.0 ^= self.0 >> 27;
        self.0.wrapping_mul(0x2545F4914F6CDD1D)
    }
}

struct Checker<'a> {
    air: &'a ProcessorAir,
    periodic: Vec<Vec<Felt>>,
    n_constraints: usize,
    prog: &'a str,
}

impl<'a> Checker<'a> {
    fn eval(&self, cur: &[Felt], nxt: &[Felt], r: usize) -> bool {
        let frame = EvaluationFrame::from_rows(cur.to_vec(), nxt.to_vec());
        let pv: Vec<Felt> = self.periodic.iter().map(|c| c[r % c.len()]).collect();
        let mut res = vec![Felt::ZERO; self.n_constraints];
        self.air.evaluate_transition(&frame, &pv, &mut res);
        res.iter().any(|v| *v != Felt::ZERO)
    }

    /// first index of a violated constraint (for diagnostics)
    fn first_violation(&self, cur: &[Felt], nxt: &[Felt], r: usize) -> Option<usize> {
        let frame = EvaluationFrame::from_rows(cur.to_vec(), nxt.to_vec());
        let pv: Vec<Felt> = self.periodic.iter().map(|c| c[r % c.len()]).collect();
        let mut res = vec![Felt::ZERO; self.n_constraints];
        self.air.evaluate_transition(&frame, &pv, &mut res);
        res.iter().position(|v| *v != Felt::ZERO)
    }
}

#[allow(clippy::too_many_arguments)]
fn record(
    rep: &mut Report,
    exp: Exp,
    caught: bool,
    kind: &str,
    cell: String,
    which_row: &str,
    prog: &str,
    r: usize,
    pert: &str,
) {
    let key = (kind.to_string(), format!("{which_row} {cell}"));
    let loc = format!("program {prog}, row {r} ({pert})");
    match exp {
        Exp::Enf => {
            rep.enforced_cells += 1;
            if !caught {
                let f = rep.failures.entry(key).or_default();
                f.count += 1;
                if f.first.is_empty() {
                    f.first = loc;
                }
            }
        },
        Exp::Wl(reason) => {
            rep.whitelisted_cells += 1;
            if !caught {
                *rep.whitelisted_uncaught.entry(reason).or_default() += 1;
            }
        },
        Exp::Gap(reason) => {
            if caught {
                *rep.gaps_caught.entry(key).or_default() += 1;
            } else {
                let f = rep.gaps.entry(key).or_default();
                f.count += 1;
                f.reason = reason.to_string();
                if f.first.is_empty() {
                    f.first = loc;
                }
            }
        },
    }
}

fn check_program(name: &str, src: &str, md: &programs::MerkleData, rep: &mut Report) -> Result<(), String> {
    // ---- assemble & execute ---------------------------------------------------------------------
    let program = Assembler::default().compile(src).map_err(|e| format!("assembly failed: {e}"))?;
    let stack_inputs =
        StackInputs::try_from_values((1u64..=16).map(|v| v * 3)).map_err(|e| format!("{e}"))?;
    let advice = AdviceInputs::default()
        .with_stack_values((0..64u64).map(|v| v * 1000 + 7))
        .map_err(|e| format!("{e}"))?
        .with_merkle_store(md.store.clone());
    let host = DefaultHost::new(MemAdviceProvider::from(advice));
    let trace = miden_processor::execute(&program, stack_inputs.clone(), host, ExecutionOptions::default())
        .map_err(|e| format!("execution failed: {e}"))?;

    let main = trace.main_segment();
    let n = trace.length();
    let width = main.num_cols();
    assert_eq!(width, TRACE_WIDTH);
    let rows: Vec<Vec<Felt>> =
        (0..n).map(|r| (0..width).map(|c| main.get(c, r)).collect()).collect();

    let pub_inputs = PublicInputs::new(
        trace.program_info().clone(),
        stack_inputs,
        trace.stack_outputs().clone(),
    );
    let air = ProcessorAir::new(trace.get_info(), pub_inputs, ProvingOptions::default().into());
    let n_constraints = air.context().num_main_transition_constraints();
    let exempt = air.context().num_transition_exemptions();
    let ck = Checker { air: &air, periodic: air.get_periodic_column_values(), n_constraints, prog: name };

    println!(
        "program {name}: {} cycles, trace length {n}, {} main transition constraints, frames 0..{}",
        trace.trace_len_summary().main_trace_len(),
        n_constraints,
        n - exempt
    );

    let mut rng = Rng(0x9E3779B97F4A7C15 ^ (n as u64) ^ (name.len() as u64) << 32);

    // columns of the next row which are perturbed
    let mut next_cols: Vec<usize> = Vec::new();
    next_cols.extend(SYS_TRACE_RANGE);
    next_cols.extend(DECODER_TRACE_RANGE);
    next_cols.extend(STACK_TRACE_RANGE);
    next_cols.extend(RANGE_CHECK_TRACE_RANGE);
    next_cols.extend(CHIPLETS_RANGE);

    for r in 0..n - exempt {
        let cur = &rows[r];
        let nxt = &rows[r + 1];
        rep.frames += 1;

        // 1. honest frame
        rep.evaluations += 1;
        if let Some(idx) = ck.first_violation(cur, nxt, r) {
            rep.honest_violations
                .push(format!("program {}, row {r}: honest frame violates constraint #{idx}", ck.prog));
            continue;
        }

        // row kinds
        let op = opcode(cur);
        let depth = u(cur[STACK_TRACE_OFFSET + stack::B0_COL_IDX]);
        let regime = if depth == 16 { 0 } else if depth == 17 { 1 } else { 2 };
        rep.op_cov.entry(op_name(op)).or_default()[regime] += 1;
        rep.seen_ops.insert(op);
        let regime_s = ["depth 16", "depth 17", "depth >17"][regime];
        let stack_kind = format!("stack op {} @ {}", op_name(op), regime_s);
        let chip_kind = chiplet_row_kind(cur, nxt, r);
        *rep.chiplet_cov.entry(chip_kind.clone()).or_default() += 1;

        // 2a. next-row cells
        for &col in &next_cols {
            for pert in 0..2 {
                let delta = if pert == 0 { Felt::ONE } else { Felt::new(rng.next() | 2) };
                let pert_s = if pert == 0 { "+1" } else { "random" };
                let new_val = nxt[col] + delta;
                let (exp, kind): (Exp, &str) = if SYS_TRACE_RANGE.contains(&col)
                    || STACK_TRACE_RANGE.contains(&col)
                {
                    (sys_stack_next(col, cur, nxt)?, stack_kind.as_str())
                } else if RANGE_CHECK_TRACE_RANGE.contains(&col) {
                    match range_next(col, cur, new_val) {
                        Some(e) => (e, "range checker row"),
                        None => {
                            // the perturbed value is itself a legal transition
                            rep.legal_alternatives += 1;
                            continue;
                        },
                    }
                } else if DECODER_TRACE_RANGE.contains(&col) {
                    (Exp::Wl(decoder_reason()), stack_kind.as_str())
                } else {
                    match chiplet_next(col - CHIPLETS_OFFSET, cur, nxt, r, new_val) {
                        Some(e) => (e, chip_kind.as_str()),
                        None => {
                            rep.legal_alternatives += 1;
                            continue;
                        },
                    }
                };
                let mut p = nxt.clone();
                p[col] = new_val;
                rep.evaluations += 1;
                let caught = ck.eval(cur, &p, r);
                let cell = if col >= CHIPLETS_OFFSET {
                    chiplet_cell_name(chiplet_kind(nxt), col - CHIPLETS_OFFSET)
                } else {
                    cell_name(col)
                };
                record(rep, exp, caught, kind, cell, "next", name, r, pert_s);
            }
        }

        // 2b. current-row cells (stack h0, decoder helper limbs, chiplet single-row cells)
        let mut cur_cells: Vec<(usize, Exp, &str)> = Vec::new();
        for (col, e) in sys_stack_current(cur) {
            cur_cells.push((col, e, stack_kind.as_str()));
        }
        for (j, e) in chiplet_current(cur, nxt, r) {
            cur_cells.push((CHIPLETS_OFFSET + j, e, chip_kind.as_str()));
        }
        for (col, exp, kind) in cur_cells {
            for pert in 0..2 {
                let delta = if pert == 0 { Felt::ONE } else { Felt::new(rng.next() | 2) };
                let pert_s = if pert == 0 { "+1" } else { "random" };
                let mut c = cur.clone();
                c[col] += delta;
                rep.evaluations += 1;
                let caught = ck.eval(&c, nxt, r);
                let cell = if col >= CHIPLETS_OFFSET {
                    chiplet_cell_name(chiplet_kind(cur), col - CHIPLETS_OFFSET)
                } else {
                    cell_name(col)
                };
                record(rep, exp, caught, kind, cell, "current", name, r, pert_s);
            }
        }
    }
    Ok(())
}

fn chiplet_cell_name(kind: Chiplet, j: usize) -> String {
    let names: &[&str] = match kind {
        Chiplet::Hasher => &[
            "s0(chiplet)", "hs0", "hs1", "hs2", "h0", "h1", "h2", "h3", "h4", "h5", "h6", "h7", "h8", "h9",
            "h10", "h11", "node_index",
        ],
        Chiplet::Bitwise => &[
            "s0(chiplet)", "s1(chiplet)", "op_sel", "a", "b", "a_bit0", "a_bit1", "a_bit2", "a_bit3", "b_bit0",
            "b_bit1", "b_bit2", "b_bit3", "z_prev", "z", "unused15", "unused16",
        ],
        Chiplet::Memory => &[
            "s0(chiplet)", "s1(chiplet)", "s2(chiplet)", "rw_s0", "rw_s1", "ctx", "addr", "clk", "v0", "v1", "v2",
            "v3", "d0", "d1", "t(d_inv)", "unused15", "unused16",
        ],
        _ => &[],
    };
    match names.get(j) {
        Some(n) => format!("chiplets.col{j}={n}"),
        None => format!("chiplets.col{j}"),
    }
}

/// Prints findings grouped by cell: one line per cell, followed by the row kinds on which it was
/// not caught.
fn print_grouped(prefix: &str, items: &[(&(String, String), &Finding)]) {
    let mut by_cell: BTreeMap<&str, Vec<(&str, &Finding)>> = BTreeMap::new();
    for ((kind, cell), f) in items {
        by_cell.entry(cell.as_str()).or_default().push((kind.as_str(), f));
    }
    for (cell, kinds) in by_cell {
        let total: usize = kinds.iter().map(|(_, f)| f.count).sum();
        println!("  {prefix}cell [{cell}]: {total} uncaught perturbations, first at {}", kinds[0].1.first);
        for (kind, f) in kinds.iter() {
            println!("{} {} | {} | {} | {} | {}", if prefix.trim().is_empty() { "GAP" } else { "UNCAUGHT" }, kind, cell, f.count, f.first, f.reason.chars().take(60).collect::<String>());
        }
        let mut line = String::from("        on rows: ");
        for (i, (kind, f)) in kinds.iter().enumerate() {
            if i > 0 {
                line.push_str("; ");
            }
            line.push_str(&format!("{kind} ({})", f.count));
        }
        println!("{line}");
    }
}

fn main() {
    let md = programs::merkle_data();
    let mut rep = Report::default();

    for extra in [0usize, 1, 5] {
        let (name, src) = programs::program(extra, &md);
        if std::env::var("C04_DUMP_MASM").is_ok() {
            println!("----- {name} -----\n{src}");
        }
        if let Err(e) = check_program(&name, &src, &md, &mut rep) {
            println!("INTERNAL ERROR in program {name}: {e}");
            std::process::exit(2);
        }
    }

    // ---- coverage ---------------------------------------------------------------------------------
    println!();
    println!("== coverage: operation x stack-depth regime (rows seen at depth 16 / 17 / >17) ==");
    let mut line = String::new();
    for (op, c) in &rep.op_cov {
        line.push_str(&format!("{op}:{}/{}/{}  ", c[0], c[1], c[2]));
        if line.len() > 100 {
            println!("  {line}");
            line.clear();
        }
    }
    if !line.is_empty() {
        println!("  {line}");
    }
    let unseen: Vec<&str> =
        MODELLED_OPS.iter().filter(|o| !rep.seen_ops.contains(o)).map(|o| op_name(*o)).collect();
    println!("  modelled operations never executed: {unseen:?}");
    println!("== coverage: chiplet row kinds ==");
    for (k, c) in &rep.chiplet_cov {
        println!("  {k}: {c}");
    }

    println!();
    println!(
        "frames checked: {}, constraint evaluations: {}, perturbations of documented-enforced cells: {}, of whitelisted cells: {}",
        rep.frames, rep.evaluations, rep.enforced_cells, rep.whitelisted_cells
    );
    println!(
        "perturbed values skipped because the perturbed row is itself a legal transition per the documented constraints (range checker step by another power of 3; memory ctx'/addr' delta that matches d0', d1', t'): {}",
        rep.legal_alternatives
    );

    println!();
    println!("== whitelisted cells (not pinned by a main-trace transition constraint per the docs) that were indeed not caught ==");
    for (reason, c) in &rep.whitelisted_uncaught {
        println!("  {c:>8} x  {reason}");
    }

    // ---- pre-existing gaps ------------------------------------------------------------------------
    println!();
    println!("== PRE-EXISTING (also present in the unchanged code, excluded from the verdict): documented as enforced by a main-trace transition constraint but NOT caught ==");
    if rep.gaps.is_empty() {
        println!("  (none observed)");
    }
    let mut by_reason: BTreeMap<String, Vec<(&(String, String), &Finding)>> = BTreeMap::new();
    for (key, f) in &rep.gaps {
        by_reason.entry(f.reason.clone()).or_default().push((key, f));
    }
    for (n, (reason, items)) in by_reason.iter().enumerate() {
        println!("  GAP {}: {reason}", n + 1);
        print_grouped("    ", items);
    }
    if !rep.gaps_caught.is_empty() {
        println!("  (note) perturbations of known-gap cells that were nevertheless caught (e.g. by a neighbouring constraint):");
        for ((kind, cell), c) in &rep.gaps_caught {
            println!("      - {kind} / {cell}: {c}");
        }
    }

    // ---- verdict ----------------------------------------------------------------------------------
    println!();
    let mut fail = false;
    if !rep.honest_violations.is_empty() {
        fail = true;
        println!("FAIL: honest frames violate transition constraints:");
        for v in rep.honest_violations.iter().take(20) {
            println!("  {v}");
        }
    }
    if !rep.failures.is_empty() {
        fail = true;
        println!("FAIL: cells documented as enforced by a main-trace transition constraint whose perturbation leaves ALL constraints zero:");
        let items: Vec<(&(String, String), &Finding)> = rep.failures.iter().collect();
        print_grouped("FAIL  ", &items);
    }
    println!("SUMMARY honest_violations={} uncaught_cells={} gap_cells={}", rep.honest_violations.len(), rep.failures.len(), rep.gaps.len());
    for v in rep.honest_violations.iter().take(5) { println!("HONEST-VIOLATION {v}"); }
    if fail {
        println!("RESULT: FAIL");
        std::process::exit(1);
    }
    println!("RESULT: PASS (every documented-enforced cell of every row pair is caught; pre-existing gaps listed above are excluded)");
}
