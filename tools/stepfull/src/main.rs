//! [adapted for /verif from the demo of the third C14 sub-agent: FAILCASE / SUMMARY lines]
//! C14 demonstration: execution is deterministic, independent of the expected-cycles hint, of
//! tracing / debug flags and of debug-mode assembly, and the step iterator agrees with the trace.
//!
//! Source notation used by the generators: a token prefixed with `@` is a decorator which must
//! not influence the VM (debug.*, emit.N, trace.N). The "full" source is obtained by removing the
//! `@` characters, the "stripped" source by removing the whole token.

mod gen;

use assembly::Assembler;
use gen::Case;
use miden_air::trace::{
    chiplets::{
        MEMORY_ADDR_COL_IDX, MEMORY_CLK_COL_IDX, MEMORY_CTX_COL_IDX, MEMORY_V_COL_RANGE,
    },
    decoder::{NUM_OP_BITS, OP_BITS_OFFSET},
    stack::B0_COL_IDX,
    CHIPLETS_OFFSET, CLK_COL_IDX, CTX_COL_IDX, DECODER_TRACE_OFFSET, FMP_COL_IDX,
    IN_SYSCALL_COL_IDX, STACK_TRACE_OFFSET,
};
use processor::{
    math::Felt,
    AdviceExtractor, AdviceInjector, AdviceProvider, ExecutionError, ExecutionOptions,
    ExecutionTrace, Host, HostResponse, MemAdviceProvider, Operation, ProcessState, Program,
    StackInputs, StackOutputs, VmState,
};
use std::collections::BTreeMap;
use std::panic::{catch_unwind, AssertUnwindSafe};
use vm_core::DebugOptions;
use winter_prover::Trace;

// HOSTS
// ================================================================================================

/// One observation made by a recording host.
#[derive(Clone, Debug, PartialEq, Eq)]
pub struct Obs {
    kind: char,
    what: String,
    clk: u32,
    ctx: u32,
    fmp: u64,
    stack: Vec<u64>,
    mem: Vec<(u64, [u64; 4])>,
}

/// Host whose debug / trace / event handlers either do nothing or record everything they can see.
pub struct DemoHost {
    adv: MemAdviceProvider,
    record: bool,
    log: Vec<Obs>,
}

impl DemoHost {
    fn new(case: &Case, record: bool) -> Self {
        Self {
            adv: MemAdviceProvider::from(case.advice.clone()),
            record,
            log: Vec::new(),
        }
    }

    fn observe<S: ProcessState>(&mut self, kind: char, what: String, p: &S) {
        if self.record {
            let ctx = p.ctx();
            self.log.push(Obs {
                kind,
                what,
                clk: p.clk(),
                ctx: ctx.into(),
                fmp: p.fmp(),
                stack: p.get_stack_state().iter().map(|e| e.as_int()).collect(),
                mem: p.get_mem_state(ctx).iter().map(|(a, w)| (*a, w2i(w))).collect(),
            });
        }
    }
}

impl Host for DemoHost {
    fn get_advice<S: ProcessState>(
        &mut self,
        process: &S,
        extractor: AdviceExtractor,
    ) -> Result<HostResponse, ExecutionError> {
        self.adv.get_advice(process, &extractor)
    }

    fn set_advice<S: ProcessState>(
        &mut self,
        process: &S,
        injector: AdviceInjector,
    ) -> Result<HostResponse, ExecutionError> {
        self.adv.set_advice(process, &injector)
    }

    fn on_event<S: ProcessState>(
        &mut self,
        process: &S,
        event_id: u32,
    ) -> Result<HostResponse, ExecutionError> {
        self.observe('E', format!("{event_id}"), process);
        Ok(HostResponse::None)
    }

    fn on_debug<S: ProcessState>(
        &mut self,
        process: &S,
        options: &DebugOptions,
    ) -> Result<HostResponse, ExecutionError> {
        self.observe('D', format!("{options:?}"), process);
        Ok(HostResponse::None)
    }

    fn on_trace<S: ProcessState>(
        &mut self,
        process: &S,
        trace_id: u32,
    ) -> Result<HostResponse, ExecutionError> {
        self.observe('T', format!("{trace_id}"), process);
        Ok(HostResponse::None)
    }
}

fn w2i(w: &[Felt; 4]) -> [u64; 4] {
    [w[0].as_int(), w[1].as_int(), w[2].as_int(), w[3].as_int()]
}

// ASSEMBLY
// ================================================================================================

fn full_source(src: &str) -> String {
    src.replace('@', "")
}

fn stripped_source(src: &str) -> String {
    src.split_whitespace()
        .filter(|t| !t.starts_with('@'))
        .collect::<Vec<_>>()
        .join(" ")
}

fn assemble(case: &Case, src: &str, debug: bool) -> Result<Program, String> {
    let r = catch_unwind(AssertUnwindSafe(|| {
        let mut asm = Assembler::default().with_debug_mode(debug);
        if case.stdlib {
            asm = asm
                .with_library(&stdlib::StdLibrary::default())
                .map_err(|e| format!("stdlib: {e}"))?;
        }
        if let Some(k) = &case.kernel {
            asm = asm.with_kernel(&full_source(k)).map_err(|e| format!("kernel: {e}"))?;
        }
        asm.compile(src).map_err(|e| format!("{e}"))
    }));
    match r {
        Ok(r) => r,
        Err(p) => Err(format!("assembler panicked: {}", panic_msg(&p))),
    }
}

fn panic_msg(p: &Box<dyn std::any::Any + Send>) -> String {
    if let Some(s) = p.downcast_ref::<&str>() {
        s.to_string()
    } else if let Some(s) = p.downcast_ref::<String>() {
        s.clone()
    } else {
        "<non-string panic>".to_string()
    }
}

// EXECUTION RESULTS
// ================================================================================================

/// Everything we compare between two executions.
pub struct Run {
    outputs: StackOutputs,
    trace_len: usize,
    /// number of executed cycles (the clock of the last executed row)
    last: usize,
    cols: Vec<Vec<Felt>>,
    mem_rows: Vec<(u32, u64, u64, [Felt; 4])>,
    log: Vec<Obs>,
}

#[derive(Clone, Copy, Debug, PartialEq, Eq)]
struct Config {
    hint: u32,
    tracing: bool,
    debug_asm: bool,
    recording_host: bool,
}

impl std::fmt::Display for Config {
    fn fmt(&self, f: &mut std::fmt::Formatter<'_>) -> std::fmt::Result {
        write!(
            f,
            "hint={} tracing={} asm={} host={}",
            self.hint,
            if self.tracing { "on" } else { "off" },
            if self.debug_asm { "debug" } else { "release" },
            if self.recording_host { "recording" } else { "noop" }
        )
    }
}

fn run(case: &Case, program: &Program, cfg: Config) -> Result<Run, String> {
    let r = catch_unwind(AssertUnwindSafe(|| -> Result<Run, String> {
        let mut host = DemoHost::new(case, cfg.recording_host);
        let opts = ExecutionOptions::new(None, cfg.hint, cfg.tracing)
            .map_err(|e| format!("options: {e}"))?;
        let stack = StackInputs::try_from_values(case.stack.iter().copied())
            .map_err(|e| format!("stack inputs: {e}"))?;
        let trace = processor::execute(program, stack, &mut host, opts)
            .map_err(|e| format!("execution error: {e}"))?;
        Ok(extract(&trace, host.log))
    }));
    match r {
        Ok(r) => r,
        Err(p) => Err(format!("PANIC: {}", panic_msg(&p))),
    }
}

fn extract(trace: &ExecutionTrace, log: Vec<Obs>) -> Run {
    let seg = trace.main_segment();
    let cols: Vec<Vec<Felt>> = (0..seg.num_cols()).map(|c| seg.get_column(c).to_vec()).collect();
    let summary = trace.trace_len_summary();
    let lens = summary.chiplets_trace_len();
    let mem_start = lens.hash_chiplet_len() + lens.bitwise_chiplet_len();
    let mut mem_rows = Vec::new();
    for r in mem_start..mem_start + lens.memory_chiplet_len() {
        // memory rows carry the chiplet selectors (1, 1, 0)
        assert_eq!(cols[CHIPLETS_OFFSET][r].as_int(), 1, "not a memory row");
        assert_eq!(cols[CHIPLETS_OFFSET + 1][r].as_int(), 1, "not a memory row");
        assert_eq!(cols[CHIPLETS_OFFSET + 2][r].as_int(), 0, "not a memory row");
        let mut w = [Felt::new(0); 4];
        for (i, c) in MEMORY_V_COL_RANGE.enumerate() {
            w[i] = cols[c][r];
        }
        mem_rows.push((
            cols[MEMORY_CTX_COL_IDX][r].as_int() as u32,
            cols[MEMORY_ADDR_COL_IDX][r].as_int(),
            cols[MEMORY_CLK_COL_IDX][r].as_int(),
            w,
        ));
    }
    Run {
        outputs: trace.stack_outputs().clone(),
        trace_len: trace.get_trace_len(),
        last: summary.main_trace_len(),
        cols,
        mem_rows,
        log,
    }
}

/// Compares two runs; returns a description of the first difference.
fn diff_runs(a: &Run, b: &Run) -> Option<String> {
    if a.outputs != b.outputs {
        return Some(format!(
            "stack outputs differ: expected {:?} / overflow addrs {:?}, actual {:?} / {:?}",
            a.outputs.stack(),
            a.outputs.overflow_addrs(),
            b.outputs.stack(),
            b.outputs.overflow_addrs()
        ));
    }
    if a.trace_len != b.trace_len {
        return Some(format!("trace length differs: expected {}, actual {}", a.trace_len, b.trace_len));
    }
    if a.cols.len() != b.cols.len() {
        return Some(format!("trace width differs: expected {}, actual {}", a.cols.len(), b.cols.len()));
    }
    for c in 0..a.cols.len() {
        if a.cols[c] != b.cols[c] {
            let r = (0..a.trace_len).find(|&r| a.cols[c][r] != b.cols[c][r]).unwrap();
            return Some(format!(
                "main segment differs at column {c} row {r}: expected {}, actual {}",
                a.cols[c][r].as_int(),
                b.cols[c][r].as_int()
            ));
        }
    }
    None
}

// REPORTING
// ================================================================================================

#[derive(Default)]
struct Report {
    /// true for the probes of pre-existing behaviour, which are excluded from the verdict
    probe: bool,
    failures: usize,
    printed: usize,
    checks: u64,
    notes: Vec<String>,
}

impl Report {
    fn fail(&mut self, case: &Case, what: &str, detail: &str) {
        self.failures += 1;
        if self.printed < 25 {
            self.printed += 1;
            let label = if self.probe {
                "PRE-EXISTING DEVIATION (unchanged code, excluded from the verdict)"
            } else {
                "FAIL"
            };
            println!(
                "FAILCASE {} :: {} :: {} :: {} | program: {} | stack inputs: {:?}",
                if self.probe { "probe" } else { "fail" },
                case.name,
                what,
                one_line(detail),
                one_line(&full_source(&case.src)),
                case.stack
            );
            println!("{label} [{}] {}\n     {}", case.name, what, detail);
            println!("     program: {}", one_line(&full_source(&case.src)));
            if let Some(k) = &case.kernel {
                println!("     kernel : {}", one_line(&full_source(k)));
            }
            println!("     stack inputs: {:?}", case.stack);
        } else if self.printed == 25 {
            self.printed += 1;
            println!("... further failures are counted but not printed");
        }
    }
}

fn one_line(s: &str) -> String {
    let s = s.split_whitespace().collect::<Vec<_>>().join(" ");
    if s.len() > 1500 {
        format!("{} ... [{} chars]", &s[..1500], s.len())
    } else {
        s
    }
}

// PART 1: hint / flags / assembly mode / host independence
// ================================================================================================

const HINTS: [u32; 11] = [64, 128, 256, 512, 1024, 2048, 4096, 8192, 16384, 32768, 65536];

fn part1(case: &Case, rel: &Program, dbg: &Program, rep: &mut Report) -> Option<Run> {
    let ref_cfg = Config {
        hint: 64,
        tracing: false,
        debug_asm: false,
        recording_host: false,
    };
    let reference = match run(case, rel, ref_cfg) {
        Ok(r) => r,
        Err(e) => {
            rep.fail(case, &format!("reference execution ({ref_cfg}) failed"), &e);
            return None;
        }
    };

    // executing twice gives identical results
    match run(case, rel, ref_cfg) {
        Ok(r) => {
            rep.checks += 1;
            if let Some(d) = diff_runs(&reference, &r) {
                rep.fail(case, "second execution with the same configuration differs", &d);
            }
        }
        Err(e) => rep.fail(case, "second execution failed", &e),
    }

    // logs of the recording host, keyed by (tracing, debug_asm)
    let mut logs: BTreeMap<(bool, bool), (Config, Vec<Obs>)> = BTreeMap::new();

    for &hint in HINTS.iter() {
        for tracing in [false, true] {
            for debug_asm in [false, true] {
                for recording_host in [false, true] {
                    let cfg = Config {
                        hint,
                        tracing,
                        debug_asm,
                        recording_host,
                    };
                    if cfg == ref_cfg {
                        continue;
                    }
                    let program = if debug_asm { dbg } else { rel };
                    match run(case, program, cfg) {
                        Ok(r) => {
                            rep.checks += 1;
                            if let Some(d) = diff_runs(&reference, &r) {
                                rep.fail(
                                    case,
                                    &format!("configuration [{cfg}] differs from [{ref_cfg}]"),
                                    &d,
                                );
                            }
                            if recording_host {
                                // what the handlers are shown must not depend on the hint
                                match logs.get(&(tracing, debug_asm)) {
                                    None => {
                                        logs.insert((tracing, debug_asm), (cfg, r.log));
                                    }
                                    Some((cfg0, log0)) => {
                                        rep.checks += 1;
                                        if *log0 != r.log {
                                            let i = (0..log0.len().max(r.log.len()))
                                                .find(|&i| log0.get(i) != r.log.get(i))
                                                .unwrap();
                                            rep.fail(
                                                case,
                                                &format!("handler observations of [{cfg}] differ from [{cfg0}]"),
                                                &format!(
                                                    "observation #{i}: expected {:?}, actual {:?}",
                                                    log0.get(i),
                                                    r.log.get(i)
                                                ),
                                            );
                                        }
                                    }
                                }
                            } else if !r.log.is_empty() {
                                rep.fail(case, "noop host recorded something", "");
                            }
                        }
                        Err(e) => rep.fail(case, &format!("configuration [{cfg}] failed"), &e),
                    }
                }
            }
        }
    }

    // cross-class consistency of the observations: events are shown in every class, traces only
    // with tracing enabled, debug decorators only with debug-mode assembly
    let pick = |k: (bool, bool), kind: char| -> Vec<Obs> {
        logs.get(&k)
            .map(|(_, l)| l.iter().filter(|o| o.kind == kind).cloned().collect())
            .unwrap_or_default()
    };
    let base_events = pick((true, true), 'E');
    for k in [(false, false), (false, true), (true, false)] {
        rep.checks += 1;
        if pick(k, 'E') != base_events {
            rep.fail(case, &format!("event observations differ between classes {k:?} and (true, true)"), "");
        }
    }
    rep.checks += 3;
    if pick((true, false), 'T') != pick((true, true), 'T') {
        rep.fail(case, "trace observations differ between release and debug assembly", "");
    }
    if !pick((false, false), 'T').is_empty() || !pick((false, true), 'T').is_empty() {
        rep.fail(case, "trace handler called although tracing is disabled", "");
    }
    if pick((false, true), 'D') != pick((true, true), 'D') {
        rep.fail(case, "debug observations differ between tracing on and off", "");
    }

    // decorators removed from the source give the identical trace
    if case.src.contains('@') {
        let stripped = stripped_source(&case.src);
        for debug_asm in [false, true] {
            match assemble(case, &stripped, debug_asm) {
                Ok(p) => {
                    let cfg = Config {
                        debug_asm,
                        ..ref_cfg
                    };
                    match run(case, &p, cfg) {
                        Ok(r) => {
                            rep.checks += 1;
                            if let Some(d) = diff_runs(&reference, &r) {
                                rep.fail(
                                    case,
                                    &format!("source without decorators [{cfg}] differs from source with decorators"),
                                    &format!("{d}\n     stripped: {}", one_line(&stripped)),
                                );
                            }
                        }
                        Err(e) => rep.fail(case, "source without decorators failed", &e),
                    }
                }
                Err(e) => rep.fail(case, "source without decorators does not assemble", &e),
            }
        }
    }

    // every `clk` pushed its own clock
    let clk_code = Operation::Clk.op_code() as u64;
    for r in 0..reference.last {
        if opcode_at(&reference, r) == clk_code {
            rep.checks += 1;
            let pushed = reference.cols[STACK_TRACE_OFFSET][r + 1].as_int();
            let clk_col = reference.cols[CLK_COL_IDX][r].as_int();
            if pushed != r as u64 || clk_col != r as u64 {
                rep.fail(
                    case,
                    "clk instruction",
                    &format!("clk executed at row {r} (clk column {clk_col}): expected {r} on the stack, actual {pushed}"),
                );
            }
        }
    }

    Some(reference)
}

fn opcode_at(run: &Run, row: usize) -> u64 {
    let mut code = 0u64;
    for i in 0..NUM_OP_BITS {
        code |= run.cols[DECODER_TRACE_OFFSET + OP_BITS_OFFSET + i][row].as_int() << i;
    }
    code
}

// PART 2: the step iterator agrees with the trace
// ================================================================================================

/// Per-row reference data derived from the trace.
struct Model<'a> {
    run: &'a Run,
    /// depth of the stack including the rows hidden by enclosing contexts, per row
    full_depth: Vec<u64>,
    /// memory accesses per context and address, ordered by clock: (clk, word)
    mem: BTreeMap<u32, BTreeMap<u64, Vec<(u64, [Felt; 4])>>>,
}

impl<'a> Model<'a> {
    fn new(run: &'a Run) -> Self {
        let b0 = &run.cols[STACK_TRACE_OFFSET + B0_COL_IDX];
        let ctx = &run.cols[CTX_COL_IDX];
        let sys = &run.cols[IN_SYSCALL_COL_IDX];
        let mut full_depth = vec![b0[0].as_int()];
        for r in 0..run.last {
            let prev = full_depth[r];
            if ctx[r] != ctx[r + 1] || sys[r] != sys[r + 1] {
                // entering or leaving a call / syscall: nothing is pushed or popped
                full_depth.push(prev);
            } else {
                full_depth.push(prev + b0[r + 1].as_int() - b0[r].as_int());
            }
        }
        let mut mem: BTreeMap<u32, BTreeMap<u64, Vec<(u64, [Felt; 4])>>> = BTreeMap::new();
        for &(c, a, k, w) in run.mem_rows.iter() {
            mem.entry(c).or_default().entry(a).or_default().push((k, w));
        }
        for m in mem.values_mut() {
            for v in m.values_mut() {
                v.sort_by_key(|e| e.0);
            }
        }
        Self {
            run,
            full_depth,
            mem,
        }
    }

    /// Memory of context `ctx` as the trace holds it at row `t`: all accesses made by the
    /// operations executed in rows 0..t-1 have been applied.
    fn mem_at(&self, ctx: u32, t: usize) -> Vec<(u64, [u64; 4])> {
        let mut out = Vec::new();
        if t == 0 {
            return out;
        }
        if let Some(m) = self.mem.get(&ctx) {
            for (&addr, accesses) in m.iter() {
                let mut val = None;
                for (k, w) in accesses.iter() {
                    if (*k as usize) < t {
                        val = Some(w2i(w));
                    }
                }
                if let Some(v) = val {
                    out.push((addr, v));
                }
            }
        }
        out
    }

    /// Checks one reported state against row `state.clk` of the trace.
    fn check(&self, st: &VmState) -> Result<(), String> {
        let t = st.clk as usize;
        let run = self.run;
        if t > run.last {
            return Err(format!("reported clock {t} beyond the last cycle {}", run.last));
        }
        // operation
        match (t, st.op) {
            (0, None) => {}
            (0, Some(op)) => return Err(format!("clk 0: expected no op, actual {op}")),
            (_, None) => return Err(format!("clk {t}: expected an op, actual none")),
            (_, Some(op)) => {
                let exp = opcode_at(run, t - 1);
                if op.op_code() as u64 != exp {
                    return Err(format!(
                        "clk {t}: op: expected opcode {exp} (trace row {}), actual {op} (opcode {})",
                        t - 1,
                        op.op_code()
                    ));
                }
            }
        }
        // stack: top 16
        if st.stack.len() < 16 {
            return Err(format!("clk {t}: reported stack has {} < 16 items", st.stack.len()));
        }
        for i in 0..16 {
            let exp = run.cols[STACK_TRACE_OFFSET + i][t];
            if st.stack[i] != exp {
                let exp_top: Vec<u64> =
                    (0..16).map(|i| run.cols[STACK_TRACE_OFFSET + i][t].as_int()).collect();
                let act_top: Vec<u64> = st.stack[..16].iter().map(|e| e.as_int()).collect();
                return Err(format!(
                    "clk {t}: stack[{i}]: expected {} actual {}\n       expected top16 {exp_top:?}\n       actual   top16 {act_top:?}",
                    exp.as_int(),
                    st.stack[i].as_int()
                ));
            }
        }
        // depth: the iterator is known to report the overflow part one cycle early and to include
        // the rows hidden by enclosing contexts; this is modelled here and not part of the verdict
        let exp_depth = self.full_depth[(t + 1).min(run.last)];
        if st.stack.len() as u64 != exp_depth {
            return Err(format!(
                "clk {t}: stack depth: expected {exp_depth} (full depth of row {}), actual {}",
                (t + 1).min(run.last),
                st.stack.len()
            ));
        }
        // fmp, ctx
        let exp_fmp = run.cols[FMP_COL_IDX][t];
        if st.fmp != exp_fmp {
            return Err(format!("clk {t}: fmp: expected {} actual {}", exp_fmp.as_int(), st.fmp.as_int()));
        }
        let exp_ctx = run.cols[CTX_COL_IDX][t].as_int() as u32;
        let act_ctx: u32 = st.ctx.into();
        if act_ctx != exp_ctx {
            return Err(format!("clk {t}: ctx: expected {exp_ctx} actual {act_ctx}"));
        }
        // memory of the current context
        let exp_mem = self.mem_at(exp_ctx, t);
        let act_mem: Vec<(u64, [u64; 4])> = st.memory.iter().map(|(a, w)| (*a, w2i(w))).collect();
        if exp_mem != act_mem {
            let i = (0..exp_mem.len().max(act_mem.len()))
                .find(|&i| exp_mem.get(i) != act_mem.get(i))
                .unwrap();
            return Err(format!(
                "clk {t}: memory of ctx {exp_ctx}: entry #{i}: expected {:?} actual {:?}\n       expected (replayed from the memory chiplet rows with clk < {t}) {:?}\n       actual   {:?}",
                exp_mem.get(i),
                act_mem.get(i),
                clip(&exp_mem),
                clip(&act_mem)
            ));
        }
        Ok(())
    }
}

fn clip(v: &[(u64, [u64; 4])]) -> String {
    if v.len() > 12 {
        format!("{:?} ... [{} entries]", &v[..12], v.len())
    } else {
        format!("{v:?}")
    }
}

/// Run-length encoded stepping history, e.g. `n*17 b*3 n*1`.
#[derive(Default)]
struct History(Vec<(char, usize)>);

impl History {
    fn push(&mut self, c: char) {
        match self.0.last_mut() {
            Some((l, n)) if *l == c => *n += 1,
            _ => self.0.push((c, 1)),
        }
    }
    fn show(&self) -> String {
        let items: Vec<String> = self.0.iter().map(|(c, n)| format!("{c}*{n}")).collect();
        if items.len() > 60 {
            format!("[{} runs] ... {}", items.len(), items[items.len() - 60..].join(" "))
        } else {
            items.join(" ")
        }
    }
}

pub struct Rng(pub u64);
impl Rng {
    pub fn next(&mut self) -> u64 {
        self.0 = self.0.wrapping_add(0x9E37_79B9_7F4A_7C15);
        let mut z = self.0;
        z = (z ^ (z >> 30)).wrapping_mul(0xBF58_476D_1CE4_E5B9);
        z = (z ^ (z >> 27)).wrapping_mul(0x94D0_49BB_1331_11EB);
        z ^ (z >> 31)
    }
    pub fn below(&mut self, n: u64) -> u64 {
        self.next() % n
    }
}

fn new_iter(case: &Case, program: &Program) -> processor::VmStateIterator {
    let host = DemoHost::new(case, false);
    let stack = StackInputs::try_from_values(case.stack.iter().copied()).unwrap();
    processor::execute_iter(program, stack, host)
}

fn part2(case: &Case, program: &Program, asm_mode: &str, reference: &Run, seed: u64, rep: &mut Report) {
    let model = Model::new(reference);
    // self-check of the depth model: the last row must agree with the stack outputs
    if model.full_depth[reference.last] as usize != reference.outputs.stack().len() {
        rep.fail(
            case,
            "depth model self-check",
            &format!(
                "full depth at last row {} vs {} stack outputs",
                model.full_depth[reference.last],
                reference.outputs.stack().len()
            ),
        );
        return;
    }

    let r = catch_unwind(AssertUnwindSafe(|| -> Result<u64, String> {
        let mut checks = 0u64;

        // forward to the end
        let mut it = new_iter(case, program);
        let mut hist = History::default();
        let mut expected_clk = 0usize;
        loop {
            hist.push('n');
            match it.next() {
                None => break,
                Some(Err(e)) => return Err(format!("[{}] iterator returned error {e}", hist.show())),
                Some(Ok(st)) => {
                    if st.clk as usize != expected_clk {
                        return Err(format!(
                            "[{}] forward pass: expected clk {expected_clk}, reported {}",
                            hist.show(),
                            st.clk
                        ));
                    }
                    model.check(&st).map_err(|e| format!("[stepping {}] {e}", hist.show()))?;
                    checks += 1;
                    expected_clk += 1;
                }
            }
        }
        if expected_clk != reference.last + 1 {
            return Err(format!(
                "forward pass ended after clk {} but the trace has {} cycles",
                expected_clk as i64 - 1,
                reference.last
            ));
        }

        // backward to the start
        let mut prev: Option<u32> = None;
        loop {
            hist.push('b');
            match it.back() {
                None => break,
                Some(st) => {
                    if let Some(p) = prev {
                        if st.clk + 1 != p {
                            return Err(format!(
                                "[{}] backward pass: expected clk {}, reported {}",
                                hist.show(),
                                p - 1,
                                st.clk
                            ));
                        }
                    }
                    prev = Some(st.clk);
                    model.check(&st).map_err(|e| format!("[stepping {}] {e}", hist.show()))?;
                    checks += 1;
                }
            }
        }
        match prev {
            Some(p) if p <= 1 => {}
            other => return Err(format!("backward pass stopped at clk {other:?}")),
        }

        // 200 seeded random next / back sequences (one fresh iterator each 20 sequences)
        let mut rng = Rng(seed);
        let mut it = new_iter(case, program);
        let mut hist = History::default();
        for seq in 0..200 {
            if seq % 20 == 0 && seq > 0 {
                it = new_iter(case, program);
                hist = History::default();
            }
            let bias = [50u64, 90, 10, 75, 25, 98, 2][rng.below(7) as usize];
            let len = 1 + rng.below((reference.last as u64 / 4).min(400) + 12);
            for _ in 0..len {
                let fwd = rng.below(100) < bias;
                hist.push(if fwd { 'n' } else { 'b' });
                let st = if fwd {
                    match it.next() {
                        None => continue,
                        Some(Err(e)) => {
                            return Err(format!("[seed {seed} seq {seq}: {}] iterator returned error {e}", hist.show()))
                        }
                        Some(Ok(st)) => st,
                    }
                } else {
                    match it.back() {
                        None => continue,
                        Some(st) => st,
                    }
                };
                model
                    .check(&st)
                    .map_err(|e| format!("[seed {seed} seq {seq}: stepping {}] {e}", hist.show()))?;
                checks += 1;
            }
        }
        Ok(checks)
    }));
    match r {
        Ok(Ok(n)) => rep.checks += n,
        Ok(Err(e)) => rep.fail(case, &format!("step iterator ({asm_mode} assembly) disagrees with the trace"), &e),
        Err(p) => rep.fail(
            case,
            &format!("step iterator ({asm_mode} assembly)"),
            &format!("PANIC: {}", panic_msg(&p)),
        ),
    }
}

// MAIN
// ================================================================================================

fn main() {
    // panics are caught and reported as failures; keep the default hook quiet
    std::panic::set_hook(Box::new(|_| {}));

    let only: Option<String> = std::env::args().nth(1);
    let cases = gen::all_cases();
    let mut rep = Report::default();
    let mut probe_rep = Report {
        probe: true,
        ..Default::default()
    };
    let mut generator_errors = 0usize;
    let mut families: BTreeMap<String, (usize, usize, usize)> = BTreeMap::new();

    for (idx, case) in cases.iter().enumerate() {
        if let Some(o) = &only {
            if !case.name.contains(o.as_str()) {
                continue;
            }
        }
        let src = full_source(&case.src);
        let (rel, dbg) = match (assemble(case, &src, false), assemble(case, &src, true)) {
            (Ok(a), Ok(b)) => (a, b),
            (a, b) => {
                generator_errors += 1;
                println!(
                    "GENERATOR ERROR [{}]: does not assemble: release: {:?} debug: {:?}\n     program: {}",
                    case.name,
                    a.err(),
                    b.err(),
                    one_line(&src)
                );
                continue;
            }
        };
        let r = if case.probe { &mut probe_rep } else { &mut rep };
        let before = r.failures;
        let mut cycles = 0;
        if let Some(reference) = part1(case, &rel, &dbg, r) {
            cycles = reference.last;
            part2(case, &rel, "release", &reference, 0xC14 + idx as u64, r);
            part2(case, &dbg, "debug", &reference, 0xC14_0000 + idx as u64, r);
        }
        let fam = case.name.split('/').next().unwrap().to_string();
        let e = families.entry(fam).or_insert((0, usize::MAX, 0));
        e.0 += 1;
        e.1 = e.1.min(cycles);
        e.2 = e.2.max(cycles);
        let failed = r.failures > before;
        if case.probe && failed {
            probe_rep.notes.push(case.name.clone());
        }
    }

    println!("--------------------------------------------------------------------------------");
    println!("program families (count, min cycles, max cycles):");
    for (f, (n, lo, hi)) in families.iter() {
        println!("  {f:<16} {n:>4} programs, {lo:>5} .. {hi:>5} cycles");
    }
    println!(
        "configurations per program: {} hints x tracing on/off x release/debug assembly x noop/recording host",
        HINTS.len()
    );
    println!("checks performed: {}", rep.checks + probe_rep.checks);
    if !probe_rep.notes.is_empty() {
        println!(
            "NOTE: {} probe program(s) for behaviour of the UNCHANGED code deviate (excluded from the verdict): {:?}",
            probe_rep.notes.len(),
            probe_rep.notes
        );
    }
    println!("SUMMARY programs={} checks={} failures={} probe_failures={} generator_errors={}", cases.len(), rep.checks + probe_rep.checks, rep.failures, probe_rep.failures, generator_errors);
    if generator_errors > 0 {
        println!("GENERATOR ERRORS: {generator_errors}");
        std::process::exit(2);
    }
    if rep.failures == 0 {
        println!("PASS");
    } else {
        println!("FAIL ({} failing checks)", rep.failures);
        std::process::exit(1);
    }
}
