//! Program family generators.
//!
//! Tokens prefixed with `@` are decorators which must not influence the VM; see main.rs.

use crate::Rng;
use processor::{
    crypto::{MerkleStore, MerkleTree, RpoDigest},
    math::Felt,
    AdviceInputs,
};

#[derive(Clone)]
pub struct Case {
    pub name: String,
    pub kernel: Option<String>,
    pub src: String,
    pub stack: Vec<u64>,
    pub advice: AdviceInputs,
    pub stdlib: bool,
    /// probe for behaviour of the unchanged code; excluded from the verdict
    pub probe: bool,
}

impl Case {
    fn new(name: impl Into<String>, src: impl Into<String>) -> Self {
        Self {
            name: name.into(),
            kernel: None,
            src: src.into(),
            stack: Vec::new(),
            advice: AdviceInputs::default(),
            stdlib: false,
            probe: false,
        }
    }
    fn stack(mut self, s: &[u64]) -> Self {
        self.stack = s.to_vec();
        self
    }
    fn kernel(mut self, k: &str) -> Self {
        self.kernel = Some(k.to_string());
        self
    }
    fn advice(mut self, a: AdviceInputs) -> Self {
        self.advice = a;
        self
    }
    fn stdlib(mut self) -> Self {
        self.stdlib = true;
        self
    }
    fn probe(mut self) -> Self {
        self.probe = true;
        self
    }
}

/// Decorators which may be removed from the source without any effect on the VM.
const STRIPPABLE: [&str; 9] = [
    "@debug.stack",
    "@debug.stack.3",
    "@debug.stack.20",
    "@debug.mem",
    "@debug.mem.5",
    "@debug.mem.0.2147483653",
    "@emit.7",
    "@trace.3",
    "@emit.4294967295",
];

/// Memory addresses used by the generators: global memory, the locals region, the syscall locals
/// region and the top of the address space.
const ADDRS: [u64; 10] = [
    0,
    1,
    5,
    1073741824,
    2147483647,
    2147483648,
    2147483653,
    3221225471,
    3221225472,
    4294967295,
];

pub fn all_cases() -> Vec<Case> {
    let mut v = Vec::new();
    memory(&mut v);
    loops(&mut v);
    calls(&mut v);
    decorators(&mut v);
    advice(&mut v);
    stdlib(&mut v);
    straight_line(&mut v);
    probes(&mut v);
    v
}

// STRAIGHT-LINE CODE
// ================================================================================================

/// Appends one random instruction (possibly preceded by a decorator) and returns the new depth.
fn random_instr(rng: &mut Rng, depth: i64, out: &mut Vec<String>, with_decorators: bool) -> i64 {
    if with_decorators && rng.below(6) == 0 {
        out.push(STRIPPABLE[rng.below(STRIPPABLE.len() as u64) as usize].to_string());
    }
    let addr = ADDRS[rng.below(ADDRS.len() as u64) as usize];
    let small = 1 + rng.below(1000);
    let u32a = rng.below(1 << 32);
    let u32b = 1 + rng.below((1 << 32) - 1);
    let big = rng.next() % 0xFFFF_FFFF_0000_0001;
    // keep the depth in a band: above 30 only shrink, below 16 only grow
    let choice = if depth > 30 {
        rng.below(4)
    } else if depth < 17 {
        4 + rng.below(10)
    } else {
        rng.below(34)
    };
    let (text, delta): (String, i64) = match choice {
        0 => ("drop".into(), -1),
        1 => ("add".into(), -1),
        2 => ("mul".into(), -1),
        3 => (format!("mem_store.{addr}"), -1),
        4 => (format!("push.{small}"), 1),
        5 => (format!("push.{big}"), 1),
        6 => (format!("dup.{}", rng.below(16)), 1),
        7 => ("clk".into(), 1),
        8 => (format!("mem_load.{addr}"), 1),
        9 => ("sdepth".into(), 1),
        10 => (format!("push.{u32a} push.{u32b} u32wrapping_add"), 1),
        11 => (format!("push.{u32b} u32clz"), 1),
        12 => (format!("push.{small} push.{big} lt"), 1),
        13 => (format!("push.{} pow2", rng.below(64)), 1),
        14 => ("swap".into(), 0),
        15 => (format!("movup.{}", 2 + rng.below(14)), 0),
        16 => (format!("movdn.{}", 2 + rng.below(14)), 0),
        17 => ("neg".into(), 0),
        18 => (format!("add.{small}"), 0),
        19 => ("swapw".into(), 0),
        20 => (format!("mem_storew.{addr}"), 0),
        21 => (format!("mem_loadw.{addr}"), 0),
        22 => ("eq".into(), -1),
        23 => ("padw".into(), 4),
        24 => ("dropw".into(), -4),
        25 => (format!("push.{u32a} push.{u32b} u32divmod"), 2),
        26 => (format!("push.{big} exp.{}", 1 + rng.below(9)), 1),
        27 => (format!("push.{u32b} ilog2"), 1),
        28 => (format!("push.{big} push.{small} gte"), 1),
        29 => (format!("push.{u32a} u32popcnt"), 1),
        30 => ("swapdw".into(), 0),
        31 => (format!("push.{small}.{big}.{u32a}"), 3),
        32 => ("clk".into(), 1),
        _ => (format!("mul.{small}"), 0),
    };
    out.push(text);
    depth + delta
}

fn straight_line(v: &mut Vec<Case>) {
    // numbers of instructions; the resulting cycle counts cover 10 .. 5000+ so that the system
    // and stack columns are reallocated 0 .. 7 times when starting from the minimum hint
    let sizes: [usize; 34] = [
        3, 8, 14, 20, 24, 28, 33, 40, 47, 52, 60, 75, 90, 100, 110, 130, 170, 200, 215, 260, 340,
        400, 430, 520, 680, 800, 860, 1000, 1300, 1500, 1700, 2000, 2300, 2600,
    ];
    for (i, &n) in sizes.iter().enumerate() {
        let mut rng = Rng(1000 + i as u64);
        let mut toks = Vec::new();
        let mut depth = 16;
        for _ in 0..n {
            depth = random_instr(&mut rng, depth, &mut toks, true);
        }
        let inputs: Vec<u64> = (1..=16).map(|x| x * 3 + i as u64).collect();
        v.push(
            Case::new(format!("straight/{i:02}_n{n}"), format!("begin {} end", toks.join(" ")))
                .stack(&inputs),
        );
    }
    // padding with single-cycle instructions to land on and around the reallocation boundaries:
    // k swaps give k + small constant cycles
    for k in [
        50usize, 51, 52, 53, 54, 55, 56, 57, 58, 59, 60, 61, 62, 63, 64, 110, 111, 112, 113, 114,
        115, 116, 117, 118, 119, 120, 121, 122, 123, 124, 125, 126, 127, 128, 225, 226, 227, 228,
        229, 230, 231, 232, 233, 234, 235, 236, 237, 238, 239, 240, 241, 242, 243, 244, 245, 246,
        247, 248, 249, 250, 251, 252, 253, 254, 255, 256,
    ] {
        let mut toks = vec!["push.1".to_string(), "push.2".to_string()];
        for j in 0..k {
            toks.push(if j % 7 == 3 { "@trace.1".to_string() } else { String::new() });
            toks.push("swap".into());
        }
        toks.push("clk".into());
        v.push(Case::new(
            format!("boundary/swaps_{k:03}"),
            format!("begin {} end", toks.join(" ")),
        ));
    }
}

// LOOPS AND CONDITIONALS
// ================================================================================================

fn loops(v: &mut Vec<Case>) {
    for n in [1u64, 2, 3, 17, 60, 300] {
        // counter loop writing the same addresses in every iteration
        v.push(Case::new(
            format!("loops/while_{n}"),
            format!(
                "begin push.{n} @debug.stack push.1 @trace.1
                   while.true
                     @debug.mem dup mem_store.5 @emit.1 clk mem_store.2147483653 @debug.mem.5
                     dup dup.1 mul mem_store.4294967295
                     sub.1 dup neq.0 @debug.stack.2
                   end
                   @emit.2 mem_load.5 mem_load.2147483653 @debug.mem clk
                 end"
            ),
        ));
    }
    for n in [1u64, 5, 40] {
        v.push(Case::new(
            format!("loops/repeat_{n}"),
            format!(
                "begin push.0
                   repeat.{n}
                     add.3 @trace.1 dup mem_store.100 @debug.mem mem_load.100 clk add
                     dup is_odd
                     if.true @emit.5 push.7 add @debug.stack else @emit.6 push.2 mul clk drop @trace.9 end
                     @debug.stack.1 dup mem_storew.2147483648 @debug.mem.2147483648
                   end
                 end"
            ),
        ));
    }
    // nested loops with conditionals, decorators before and after every control-flow block
    v.push(Case::new(
        "loops/nested",
        "begin
           push.4 @debug.stack
           push.1 @trace.1
           while.true
             @emit.1 push.3 push.1 @debug.stack.3
             while.true
               @debug.mem dup dup.2 mul mem_store.9 @trace.2 sub.1 dup neq.0 @emit.3
             end
             @trace.4 drop mem_load.9 drop @debug.mem.9
             dup is_odd @emit.8
             if.true
               @debug.stack clk mem_store.10 @debug.mem.10
             else
               @trace.5 clk mem_store.11 @emit.9
             end
             @emit.10 sub.1 dup neq.0 @trace.6
           end
           @debug.mem drop mem_load.10 mem_load.11 @debug.stack
         end",
    ));
    // a loop which is not entered, and an if without else
    v.push(Case::new(
        "loops/skipped",
        "begin push.0 @trace.1 while.true push.1 drop push.0 end @emit.1 push.1
           if.true @debug.stack push.5 @trace.2 end @emit.2 push.0
           if.true push.6 @trace.3 end @debug.stack clk end",
    ));
    // loops over deep stacks
    v.push(
        Case::new(
            "loops/deep_stack",
            "begin
               push.1.2.3.4.5.6.7.8 @debug.stack
               push.5 push.1
               while.true
                 @debug.stack.20 movup.9 movup.9 add movdn.8 clk mem_store.3 sub.1 dup neq.0
               end
               drop @debug.stack
             end",
        )
        .stack(&[16, 15, 14, 13, 12, 11, 10, 9, 8, 7, 6, 5, 4, 3, 2, 1]),
    );
}

// CALLS, SYSCALLS, DYNAMIC CALLS
// ================================================================================================

const KERNEL: &str = "
export.kstore.2
    @debug.local push.71 loc_store.0 @debug.local.0 push.72 loc_store.1 @debug.local.0.1
    loc_load.0 mem_store.3 @debug.mem clk mem_store.4 @trace.7
    padw caller @debug.stack.4 dropw
    loc_load.1 mem_load.3 add mem_store.2147483700 @emit.70
end
export.kread
    @debug.mem mem_load.3 mem_load.4 add @trace.8 mem_load.2147483700 add drop @debug.stack
    clk mem_store.3
end
";

fn calls(v: &mut Vec<Case>) {
    let procs = "
proc.leaf.2
    @debug.local push.11 loc_store.0 @debug.local.0 push.12 loc_store.1 @debug.local.0.1 @debug.local.1
    loc_load.0 loc_load.1 add @trace.1 mem_store.7 @debug.mem clk mem_store.8
    mem_load.7 mem_load.8 add mem_store.7 @emit.1
end
proc.helper.1
    @debug.local clk loc_store.0 @debug.local.0 loc_load.0 drop
end
proc.mid.3
    push.5 loc_store.0 @debug.local push.6 loc_store.2 @debug.local.0.2
    push.1.2.3.4.5 @debug.stack
    call.leaf
    @debug.stack.20 drop drop drop drop drop
    mem_load.7 drop @debug.mem
    exec.helper
    clk mem_store.7 @trace.2
    push.21.22.23 call.leaf drop drop drop
    loc_load.0 loc_load.2 add mem_store.9 @debug.local
end
proc.dynamic
    dropw @debug.stack push.31 mem_store.7 @debug.mem clk mem_store.12 @trace.3
end
proc.dynamic_inline
    dropw @trace.4 push.41 mem_store.13 @debug.mem clk drop
end
";
    // calls only
    v.push(Case::new(
        "calls/call_tree",
        format!(
            "{procs}
             begin
               push.9 mem_store.7 @debug.mem
               push.1.2.3 @debug.stack call.mid @emit.1 drop drop drop
               @trace.1 call.leaf @debug.mem
               mem_load.7 clk @debug.stack
               exec.helper
               call.mid
               mem_load.7 mem_load.9
             end"
        ),
    ));
    // stack deeper than 16 in the caller across nested calls
    v.push(
        Case::new(
            "calls/deep_caller",
            format!(
                "{procs}
                 begin
                   push.1.2.3.4.5.6.7.8.9.10 @debug.stack
                   call.mid @debug.stack.30
                   push.11.12 call.leaf @debug.stack
                   drop drop drop drop drop drop drop drop drop drop drop drop
                   call.mid clk
                 end"
            ),
        )
        .stack(&[16, 15, 14, 13, 12, 11, 10, 9, 8, 7, 6, 5, 4, 3, 2, 1]),
    );
    // syscalls from the root context and from within a call, kernel locals at 2^31
    v.push(
        Case::new(
            "calls/syscalls",
            format!(
                "{procs}
                 proc.user.1
                   push.3 loc_store.0 @debug.local
                   push.55 mem_store.3 @debug.mem
                   syscall.kstore @debug.stack
                   mem_load.3 drop @trace.1
                   syscall.kread @emit.1
                   loc_load.0 drop
                 end
                 begin
                   push.5 mem_store.3 @debug.mem
                   syscall.kstore @debug.mem
                   mem_load.3 mem_load.4 @debug.stack
                   call.user @trace.2
                   push.1.2.3.4.5.6 syscall.kread @debug.stack.25
                   mem_load.3 mem_load.2147483700 clk
                   call.user
                   call.mid
                 end"
            ),
        )
        .kernel(KERNEL),
    );
    // dyncall / dynexec through procref, several contexts writing the same addresses
    v.push(Case::new(
        "calls/dynamic",
        format!(
            "{procs}
             begin
               push.9 mem_store.7 @debug.mem
               procref.dynamic @debug.stack dyncall @debug.stack.24
               mem_load.7 @trace.1
               procref.dynamic_inline dynexec @emit.1
               mem_load.13 clk
               procref.dynamic dyncall @debug.mem
               procref.leaf @trace.2 swapw dropw
               call.leaf
               push.1.2.3.4.5.6.7.8.9 procref.dynamic dyncall @debug.stack clk
             end"
        ),
    ));
    // calls inside loops: many contexts, each with its own memory
    for n in [2u64, 9, 40] {
        v.push(
            Case::new(
                format!("calls/loop_calls_{n}"),
                format!(
                    "{procs}
                     begin
                       push.{n} push.1
                       while.true
                         clk drop @debug.stack call.leaf
                         @debug.mem dup mem_store.7 @trace.1
                         call.mid
                         @emit.1 clk mem_store.8 @debug.mem.8
                         syscall.kread
                         sub.1 dup neq.0
                       end
                       drop mem_load.7 clk
                     end"
                ),
            )
            .kernel(KERNEL),
        );
    }
}

// MEMORY
// ================================================================================================

fn memory(v: &mut Vec<Case>) {
    // write / read / write / read of the same address in consecutive cycles: after `mem_storew`
    // the top of the stack is the first element of the stored word, which is the address again
    for &a in ADDRS.iter() {
        v.push(Case::new(
            format!("memory/consecutive_{a}"),
            format!(
                "begin
                   push.7.6.5.4.3.{a}.{a}.{a}.{a} @debug.stack
                   mem_storew @debug.mem mem_loadw @debug.mem mem_storew mem_loadw @trace.1 mem_storew
                   mem_loadw @debug.mem.{a}.{a}
                   push.77 push.{a} mem_store push.{a} mem_load @emit.1
                   push.78 mem_store.{a} mem_load.{a} mem_store.{a} mem_load.{a} clk
                 end"
            ),
        ));
    }
    // many writes to the same few addresses with different values, interleaved with reads of
    // addresses which were never written
    let mut toks = Vec::new();
    let mut rng = Rng(77);
    for i in 0..120u64 {
        let a = ADDRS[rng.below(ADDRS.len() as u64) as usize];
        match rng.below(5) {
            0 => toks.push(format!("push.{} mem_store.{a}", i + 100)),
            1 => toks.push(format!("mem_load.{a} drop")),
            2 => toks.push(format!("push.{}.{}.{}.{} mem_storew.{a} dropw", i, i + 1, i + 2, i + 3)),
            3 => toks.push(format!("padw mem_loadw.{a} dropw")),
            _ => toks.push(format!("clk mem_store.{a} @debug.mem.{a}.{a}")),
        }
    }
    v.push(Case::new("memory/rewrites", format!("begin {} clk end", toks.join(" "))));

    // mem_stream and adv_pipe (two words per cycle), rewritten and streamed again
    let adv = AdviceInputs::default()
        .with_stack_values((1..=32u64).map(|x| x * 1000))
        .unwrap();
    for &a in [0u64, 2147483646, 4294967290].iter() {
        v.push(
            Case::new(
                format!("memory/stream_pipe_{a}"),
                format!(
                    "begin
                       push.{a} padw padw padw @debug.stack
                       adv_pipe @debug.mem adv_pipe @trace.1 adv_pipe @debug.mem
                       dropw dropw dropw drop
                       push.{a} padw padw padw
                       mem_stream @debug.stack mem_stream @emit.1
                       dropw dropw dropw drop
                       push.{a} padw padw padw adv_pipe @debug.mem mem_stream clk
                     end"
                ),
            )
            .advice(adv.clone()),
        );
    }
    // the same addresses in different contexts
    v.push(
        Case::new(
            "memory/contexts",
            "proc.w.1
               clk loc_store.0 @debug.local
               clk mem_store.5 @debug.mem clk mem_store.2147483648 clk mem_store.5 @debug.mem.5
               mem_load.5 mem_load.2147483648 add loc_load.0 add mem_store.4294967295 @trace.1
             end
             begin
               push.1 mem_store.5 @debug.mem
               call.w @debug.mem clk drop call.w @emit.1
               mem_load.5 @debug.stack
               syscall.kstore
               call.w
               mem_load.5 mem_load.4294967295 mem_load.3 clk
             end",
        )
        .kernel(KERNEL),
    );
}

// DECORATORS AT EVERY POSITION
// ================================================================================================

fn decorators(v: &mut Vec<Case>) {
    // a span with multi-operation instructions, immediate values at group ends and memory accesses
    let base: [&str; 14] = [
        "push.3",
        "push.4",
        "add",
        "dup",
        "mem_store.9",
        "push.18446744069414584320",
        "clk",
        "mul",
        "push.5.6",
        "lt",
        "mem_load.9",
        "swap",
        "clk",
        "mem_storew.2147483648",
    ];
    for (k, dec) in STRIPPABLE.iter().enumerate() {
        for pos in 0..=base.len() {
            let mut toks: Vec<String> = base.iter().map(|s| s.to_string()).collect();
            toks.insert(pos, dec.to_string());
            v.push(Case::new(
                format!("decorators/span_d{k}_p{pos:02}"),
                format!("begin {} end", toks.join(" ")),
            ));
        }
    }
    // debug.local variants at every position of a procedure body, called and executed
    let pbase: [&str; 8] = [
        "push.7",
        "loc_store.0",
        "clk",
        "loc_store.1",
        "loc_load.0",
        "loc_load.1",
        "add",
        "mem_store.2",
    ];
    for (k, dec) in ["@debug.local", "@debug.local.1", "@debug.local.0.2"].iter().enumerate() {
        for pos in 0..=pbase.len() {
            let mut toks: Vec<String> = pbase.iter().map(|s| s.to_string()).collect();
            toks.insert(pos, dec.to_string());
            v.push(
                Case::new(
                    format!("decorators/local_d{k}_p{pos}"),
                    format!(
                        "proc.p.3 {} end begin push.1 call.p exec.p syscall.kstore mem_load.2 end",
                        toks.join(" ")
                    ),
                )
                .kernel(KERNEL),
            );
        }
    }
    // a decorator at every position of a long span (several operation batches, RESPANs)
    let mut rng = Rng(4242);
    let mut instrs = Vec::new();
    let mut depth = 16;
    for _ in 0..150 {
        depth = random_instr(&mut rng, depth, &mut instrs, false);
    }
    let mut all = Vec::new();
    for (i, ins) in instrs.iter().enumerate() {
        all.push(STRIPPABLE[i % STRIPPABLE.len()].to_string());
        all.push(ins.clone());
    }
    all.push("@debug.stack".into());
    v.push(Case::new("decorators/long_span_all", format!("begin {} end", all.join(" "))));
    for pos in (0..=instrs.len()).step_by(3) {
        let mut toks = instrs.clone();
        toks.insert(pos, STRIPPABLE[pos % STRIPPABLE.len()].to_string());
        v.push(Case::new(
            format!("decorators/long_span_p{pos:03}"),
            format!("begin {} end", toks.join(" ")),
        ));
    }
    // several decorators at the same position
    v.push(Case::new(
        "decorators/stacked",
        "begin @debug.stack @trace.1 @emit.1 @debug.mem push.1 @trace.2 @trace.3 @emit.2 @debug.stack
           mem_store.1 @debug.mem @debug.mem.1 @emit.3 clk @trace.4 @debug.stack.1 @emit.4 end",
    ));
    // before and after every kind of control-flow block
    v.push(
        Case::new(
            "decorators/control_flow",
            "proc.f @trace.10 push.1 @debug.stack drop @emit.10 end
             proc.g.1 @debug.local clk loc_store.0 @trace.11 end
             begin
               push.1 @debug.stack @trace.1 @emit.1
               if.true @debug.stack @trace.2 push.2 @emit.2 @debug.mem else @trace.3 push.3 @emit.3 end
               @debug.stack @trace.4 @emit.4 drop push.2 push.1 @debug.mem @trace.5
               while.true @emit.5 @debug.stack sub.1 dup neq.0 @trace.6 @debug.stack.2 end
               @emit.6 @trace.7 @debug.stack drop push.1 @debug.mem
               exec.f
               @trace.8 push.4 @emit.7
               call.g
               @debug.stack @emit.8 drop push.5 @trace.9
               syscall.kread
               @debug.mem @emit.9 push.6 @debug.stack.3
               repeat.3 @trace.12 push.1 @emit.11 drop @debug.stack end
               @trace.13 clk @emit.12
               procref.f @debug.stack dynexec
               @trace.14 clk @emit.13
               procref.f @debug.stack.5 dyncall
               @trace.15 clk @emit.14 @debug.mem
             end",
        )
        .kernel(KERNEL),
    );
}

// ADVICE INJECTORS
// ================================================================================================

fn word(a: [u64; 4]) -> [Felt; 4] {
    [Felt::new(a[0]), Felt::new(a[1]), Felt::new(a[2]), Felt::new(a[3])]
}

fn advice(v: &mut Vec<Case>) {
    // adv.push_u64div at every position of a span which only permutes u32 values
    let perm: [&str; 10] = [
        "swap", "movup.2", "movup.3", "movdn.2", "swap", "movdn.3", "movup.3", "swap", "movup.2",
        "movdn.3",
    ];
    for pos in 0..=perm.len() {
        let mut toks: Vec<String> = perm.iter().map(|s| s.to_string()).collect();
        toks.insert(pos, "adv.push_u64div".into());
        toks.insert((pos + 4).min(toks.len()), "@debug.stack.4".into());
        v.push(Case::new(
            format!("advice/u64div_p{pos:02}"),
            format!("begin push.5.2.9.7.11.13 {} adv_push.4 @trace.1 clk end", toks.join(" ")),
        ));
    }
    // adv.push_mapval / push_mapvaln at every position (the key [7,7,7,7] is invariant under the
    // permutations), adv.insert_mem / insert_hdword / insert_hperm at every position
    let key = RpoDigest::new(word([7, 7, 7, 7]));
    let map_adv = AdviceInputs::default()
        .with_map([(key, vec![Felt::new(101), Felt::new(102), Felt::new(103)])]);
    for (k, inj) in [
        "adv.push_mapval",
        "adv.push_mapvaln",
        "adv.insert_mem",
        "adv.insert_hdword",
        "adv.insert_hdword.3",
        "adv.insert_hperm",
    ]
    .iter()
    .enumerate()
    {
        for pos in 0..=perm.len() {
            let mut toks: Vec<String> = perm.iter().map(|s| s.to_string()).collect();
            toks.insert(pos, inj.to_string());
            toks.insert((pos + 7) % toks.len(), "@trace.2".into());
            let tail = match k {
                0 => "adv_push.3",
                1 => "adv_push.4",
                _ => "adv.push_mapval adv_push.2",
            };
            v.push(
                Case::new(
                    format!("advice/inj{k}_p{pos:02}"),
                    format!(
                        "begin push.1.2.3.4 mem_storew.2 dropw push.9 mem_store.3 push.5.2.7.7.7.7 {} {tail} clk end",
                        toks.join(" ")
                    ),
                )
                .advice(map_adv.clone()),
            );
        }
    }
    // insert_mem, then read the inserted values back through the map
    v.push(Case::new(
        "advice/insert_mem_roundtrip",
        "begin
           push.1.2.3.4 mem_storew.10 dropw push.5.6.7.8 mem_storew.11 dropw @debug.mem
           push.12.10 push.4.3.2.1 adv.insert_mem @trace.1 adv.push_mapvaln adv_push.9 clk
         end",
    ));
    // insert_hdword / insert_hperm, keys recomputed by hmerge / hperm
    v.push(Case::new(
        "advice/insert_hdword_roundtrip",
        "begin push.1.2.3.4 push.5.6.7.8 @debug.stack adv.insert_hdword hmerge @trace.1
           adv.push_mapval adv_push.8 clk end",
    ));
    v.push(Case::new(
        "advice/insert_hperm_roundtrip",
        "begin padw push.1.2.3.4 push.5.6.7.8 adv.insert_hperm @debug.stack hperm dropw @trace.1
           adv.push_mapval adv_push.8 clk end",
    ));
    // merkle store injectors: push_mtnode, mtree_get / mtree_set / mtree_merge / mtree_verify
    let leaves: Vec<[Felt; 4]> = (0..8u64).map(|i| word([i, i + 1, i + 2, i + 3])).collect();
    let tree = MerkleTree::new(leaves.clone()).unwrap();
    let root = tree.root();
    let r: Vec<u64> = root.as_elements().iter().map(|e| e.as_int()).collect();
    let store = MerkleStore::from(&tree);
    let mt_adv = AdviceInputs::default().with_merkle_store(store);
    v.push(
        Case::new(
            "advice/merkle",
            format!(
                "begin
                   push.{}.{}.{}.{} push.3 push.3 @debug.stack adv.push_mtnode @trace.1 adv_push.4
                   movup.4 drop movup.4 drop
                   swapw push.5 push.3 mtree_get @debug.stack
                   dropw @emit.1 push.2 push.3 mtree_set @debug.stack.8
                   clk
                 end",
                r[0], r[1], r[2], r[3]
            ),
        )
        .advice(mt_adv),
    );
    // ext2 intt over memory, ext2inv, u32 bit counting and ilog2 (all backed by injectors)
    v.push(Case::new(
        "advice/ext2intt_and_friends",
        "begin
           push.1.2.3.4 mem_storew.20 dropw push.5.6.7.8 mem_storew.21 dropw @debug.mem
           push.20 push.4 push.3 @debug.stack adv.push_ext2intt @trace.1 adv_push.6
           push.5.9 ext2inv @emit.1
           push.4080 u32clz push.4080 u32ctz push.4294967040 u32clo push.255 u32cto @debug.stack
           push.1000000 ilog2 clk
         end",
    ));
}

// STDLIB
// ================================================================================================

fn stdlib(v: &mut Vec<Case>) {
    let a: u64 = 0xDEAD_BEEF_1234_5678;
    let b: u64 = 0x0000_0BAD_F00D_CAFE;
    let (a0, a1, b0, b1) = (a & 0xFFFF_FFFF, a >> 32, b & 0xFFFF_FFFF, b >> 32);
    for op in [
        "wrapping_add",
        "overflowing_add",
        "wrapping_sub",
        "wrapping_mul",
        "overflowing_mul",
        "lt",
        "gte",
        "eq",
        "min",
        "max",
        "div",
        "mod",
        "divmod",
        "and",
        "xor",
        "clz",
        "ctz",
    ] {
        let unary = matches!(op, "clz" | "ctz");
        let args = if unary {
            format!("push.{a0}.{a1}")
        } else {
            format!("push.{a0}.{a1} push.{b0}.{b1}")
        };
        v.push(
            Case::new(
                format!("stdlib/u64_{op}"),
                format!(
                    "use.std::math::u64 begin @debug.stack {args} @trace.1 exec.u64::{op} @emit.1 clk
                       push.{b0}.{b1} push.77.0 exec.u64::wrapping_mul @debug.stack clk end"
                ),
            )
            .stdlib(),
        );
    }
    for (k, sh) in [3u64, 31, 32, 63].iter().enumerate() {
        v.push(
            Case::new(
                format!("stdlib/u64_shifts_{k}"),
                format!(
                    "use.std::math::u64 begin push.{a0}.{a1} push.{sh} exec.u64::shl @trace.1
                       push.{sh} exec.u64::shr push.{sh} exec.u64::rotl @debug.stack push.{sh} exec.u64::rotr clk end"
                ),
            )
            .stdlib(),
        );
    }
    // u64 procedures invoked by call (own context) and inside a loop
    v.push(
        Case::new(
            "stdlib/u64_called_in_loop",
            format!(
                "use.std::math::u64
                 begin
                   push.6 push.1
                   while.true
                     push.{a0}.{a1} push.{b0}.{b1} @debug.stack call.u64::divmod @trace.1 dropw
                     dup mem_store.2147483648 @debug.mem
                     sub.1 dup neq.0
                   end
                   clk
                 end"
            ),
        )
        .stdlib(),
    );
    // hash functions
    let inputs16: Vec<u64> = (0..16u64).map(|i| (i * 0x0101_0101 + 0x1234_5678) & 0xFFFF_FFFF).collect();
    v.push(
        Case::new(
            "stdlib/blake3_2to1",
            "use.std::crypto::hashes::blake3 begin exec.blake3::hash_2to1 @debug.stack @trace.1 clk end",
        )
        .stack(&inputs16)
        .stdlib(),
    );
    v.push(
        Case::new(
            "stdlib/blake3_1to1",
            "use.std::crypto::hashes::blake3 begin exec.blake3::hash_1to1 @debug.stack @trace.1 clk end",
        )
        .stack(&inputs16[..8])
        .stdlib(),
    );
    v.push(
        Case::new(
            "stdlib/sha256_2to1",
            "use.std::crypto::hashes::sha256 begin exec.sha256::hash_2to1 @debug.stack @trace.1 clk end",
        )
        .stack(&inputs16)
        .stdlib(),
    );
    v.push(
        Case::new(
            "stdlib/sha256_1to1",
            "use.std::crypto::hashes::sha256 begin exec.sha256::hash_1to1 @debug.stack @trace.1 clk end",
        )
        .stack(&inputs16[..8])
        .stdlib(),
    );
    v.push(
        Case::new(
            "stdlib/native_hash_memory",
            "use.std::crypto::hashes::native
             begin
               push.1.2.3.4 mem_storew.1000 dropw push.5.6.7.8 mem_storew.1001 dropw
               push.9.10.11.12 mem_storew.1002 dropw @debug.mem
               push.1003 push.1000 @debug.stack exec.native::hash_memory @trace.1
               push.1002 push.1000 exec.native::hash_memory clk
             end",
        )
        .stdlib(),
    );
    v.push(Case::new(
        "stdlib/native_instructions",
        "begin push.1.2.3.4 push.5.6.7.8 @debug.stack hmerge @trace.1 padw push.1.2.3.4 push.5.6.7.8
           hperm @emit.1 hash clk end",
    ));
    let adv = AdviceInputs::default()
        .with_stack_values((1..=16u64).map(|x| x * 7))
        .unwrap();
    v.push(
        Case::new(
            "stdlib/mem_pipe_and_copy",
            "use.std::mem
             begin
               push.2147483646 padw padw padw @debug.stack
               adv_pipe hperm adv_pipe hperm @debug.mem dropw dropw dropw drop
               push.3000 push.2147483646 push.4 @trace.1 exec.mem::memcopy @debug.mem
               mem_load.3000 mem_load.3003 clk
             end",
        )
        .advice(adv)
        .stdlib(),
    );
}

// PROBES FOR BEHAVIOUR OF THE UNCHANGED CODE (excluded from the verdict)
// ================================================================================================

fn probes(v: &mut Vec<Case>) {
    // more than 16 stack inputs: the initial overflow rows are keyed by "negative" clocks
    v.push(
        Case::new(
            "probe/deep_inputs",
            "begin swap drop drop push.1 clk drop drop drop drop end",
        )
        .stack(&[20, 19, 18, 17, 16, 15, 14, 13, 12, 11, 10, 9, 8, 7, 6, 5, 4, 3, 2, 1])
        .probe(),
    );
}
