//! hashprobe: bounded stand-in `hash_invariance` for C08.
//! For a fixed family of programs: the MAST root must not change under comments / whitespace, procedure
//! renaming, debug-mode assembly and decorators (debug, emit, trace, advice injectors) inserted at EVERY
//! position of every body; it must change when an operation or an immediate changes; and the hash recorded
//! by an execution must be the program's hash.
//! Output: `FAIL <kind> <program> <detail>` lines and `SUMMARY checks=N failures=M`.
use miden_assembly::Assembler;
use miden_processor::{execute, DefaultHost, ExecutionOptions, StackInputs};
use std::panic::{catch_unwind, AssertUnwindSafe};

const KERNEL: &str = "export.kfoo add end export.kbar caller dropw end";

struct Prog {
    name: &'static str,
    src: &'static str,
    inputs: &'static [u64],
    kernel: bool,
}

const PROGS: &[Prog] = &[
    Prog { name: "arith", src: "begin push.1 push.2 add mul neg swap drop end", inputs: &[3, 4], kernel: false },
    Prog { name: "ifelse", src: "begin if.true push.5 add else push.7 mul end swap end", inputs: &[1, 2, 3], kernel: false },
    Prog { name: "ifnoelse", src: "begin dup.1 if.true add end drop end", inputs: &[5, 1, 3], kernel: false },
    Prog { name: "while", src: "begin push.3 push.1 while.true sub.1 dup neq.0 end drop end", inputs: &[], kernel: false },
    Prog { name: "repeat", src: "begin repeat.3 dup.1 add end movup.2 drop end", inputs: &[1, 2, 3], kernel: false },
    Prog { name: "exec", src: "proc.foo push.9 add end proc.bar exec.foo mul end begin exec.bar exec.foo swap end", inputs: &[2, 3, 4], kernel: false },
    Prog { name: "call", src: "proc.foo push.9 add end begin push.2 call.foo drop exec.foo end", inputs: &[2, 3], kernel: false },
    Prog { name: "locals", src: "proc.foo.2 loc_store.0 loc_load.1 add loc_load.0 end begin exec.foo mem_store.5 mem_load.5 end", inputs: &[7, 8, 9], kernel: false },
    Prog { name: "syscall", src: "begin push.1 syscall.kfoo swap drop end", inputs: &[2, 3], kernel: true },
    Prog { name: "nested", src: "begin push.1 if.true push.0 while.true push.0 end repeat.2 push.4 drop end else push.1 if.true add end end add end", inputs: &[1, 1, 5, 6], kernel: false },
    Prog { name: "asserts", src: "begin push.1 assert.err=1 push.2 u32assert.err=5 drop push.3 push.3 assert_eq.err=7 end", inputs: &[], kernel: false },
    Prog { name: "longspan", src: "begin push.1 push.2 push.3 push.4 push.5 push.6 push.7 push.8 push.9 push.10 add add add add add add add add add push.99999 mul u32split drop end", inputs: &[], kernel: false },
];

const DECORATORS: &[&str] = &["debug.stack", "debug.mem.3", "emit.42", "trace.7", "adv.push_mapval", "adv.insert_hdword"];

fn assembler(debug: bool, kernel: bool) -> Assembler {
    let a = Assembler::default().with_debug_mode(debug);
    if kernel { a.with_kernel(KERNEL).expect("kernel") } else { a }
}

/// Ok(hash hex) | Err(("error"|"panic", message))
fn compile(src: &str, debug: bool, kernel: bool) -> Result<String, (String, String)> {
    let src = src.to_string();
    match catch_unwind(AssertUnwindSafe(move || assembler(debug, kernel).compile(&src).map(|p| format!("{:?}", p.hash())))) {
        Ok(Ok(h)) => Ok(h),
        Ok(Err(e)) => Err(("error".into(), e.to_string())),
        Err(e) => {
            let msg = e.downcast_ref::<String>().cloned().or_else(|| e.downcast_ref::<&str>().map(|s| s.to_string())).unwrap_or_default();
            Err(("panic".into(), msg))
        }
    }
}

fn is_header(t: &str) -> bool {
    t == "begin" || t.starts_with("proc.") || t.starts_with("export.") || t.starts_with("use.") || t.starts_with("const.")
}

/// positions i such that inserting an instruction before tokens[i] puts it inside a body
fn body_positions(tokens: &[&str]) -> Vec<usize> {
    let mut depth = 0i32;
    let mut out = vec![];
    for (i, t) in tokens.iter().enumerate() {
        if depth > 0 { out.push(i); }
        if is_header(t) || t.starts_with("if.") || t.starts_with("while.") || t.starts_with("repeat.") { depth += 1; }
        else if *t == "end" { depth -= 1; }
    }
    out
}

/// a different instruction of the same stack effect where possible; the hash must change
fn substitute(t: &str) -> Option<String> {
    let m: &[(&str, &str)] = &[("add", "mul"), ("mul", "add"), ("neg", "inv"), ("swap", "movup.2"), ("drop", "neg"), ("dup.1", "dup.2"), ("dup", "dup.1"),
        ("neq.0", "neq.1"), ("sub.1", "sub.2"), ("movup.2", "movup.3"), ("u32split", "u32assert"), ("mem_store.5", "mem_store.6"), ("mem_load.5", "mem_load.6"),
        ("loc_store.0", "loc_store.1"), ("loc_load.1", "loc_load.0"), ("loc_load.0", "loc_load.1"), ("repeat.3", "repeat.4"), ("repeat.2", "repeat.3"),
        ("syscall.kfoo", "syscall.kbar")];
    for (a, b) in m { if t == *a { return Some(b.to_string()); } }
    // error codes are immediates of the assertion instructions
    for pre in ["assert.err=", "u32assert.err=", "assert_eq.err="] {
        if let Some(v) = t.strip_prefix(pre) { if let Ok(n) = v.parse::<u64>() { return Some(format!("{pre}{}", n + 1)); } }
    }
    if let Some(v) = t.strip_prefix("push.") { if let Ok(n) = v.parse::<u64>() { return Some(format!("push.{}", n + 1)); } }
    None
}

fn main() {
    std::panic::set_hook(Box::new(|_| {}));
    let mut checks = 0usize;
    let mut failures = 0usize;
    let mut fail = |kind: &str, prog: &str, detail: String| { failures += 1; println!("FAIL {kind} {prog} {}", detail.replace('\n', " | ")); };
    for p in PROGS {
        let tokens: Vec<&str> = p.src.split_whitespace().collect();
        let base = match compile(p.src, false, p.kernel) { Ok(h) => h, Err(e) => { fail("harness-base-does-not-compile", p.name, format!("{e:?}")); continue; } };

        // comments and whitespace
        let mut s = String::from("# leading comment\n\n");
        for (i, t) in tokens.iter().enumerate() { s += t; s += if i % 3 == 0 { "\n\t# a comment push.1 add\n   " } else if i % 3 == 1 { "   \t " } else { "\n\n" }; }
        checks += 1;
        match compile(&s, false, p.kernel) { Ok(h) if h == base => {}, r => fail("comments-whitespace", p.name, format!("{r:?} vs {base}")) }

        // procedure names
        let renamed = p.src.replace(".foo", ".a_much_longer_name_1").replace(".bar", ".z");
        if renamed != p.src {
            checks += 1;
            match compile(&renamed, false, p.kernel) { Ok(h) if h == base => {}, r => fail("procedure-names", p.name, format!("{r:?} vs {base}")) }
        }

        // debug mode
        checks += 1;
        match compile(p.src, true, p.kernel) { Ok(h) if h == base => {}, r => fail("debug-mode", p.name, format!("{r:?} vs {base}")) }

        // decorators at every body position, both modes
        for &pos in &body_positions(&tokens) {
            for d in DECORATORS {
                for debug in [false, true] {
                    let mut t2: Vec<&str> = tokens.clone();
                    t2.insert(pos, d);
                    let src = t2.join(" ");
                    checks += 1;
                    match compile(&src, debug, p.kernel) {
                        Ok(h) if h == base => {}
                        Ok(h) => fail("decorator-changes-hash", p.name, format!("debug={debug} `{src}` {h} vs {base}")),
                        Err((k, m)) if k == "panic" && m.contains("decorators in an empty SPAN block") =>
                            fail("decorator-empty-span-panic", p.name, format!("debug={debug} `{src}`")),
                        Err((k, m)) => fail(&format!("decorator-{k}"), p.name, format!("debug={debug} `{src}` {m}")),
                    }
                }
            }
        }
        // `breakpoint` is documented as a debug-only instruction without effect on the program
        for &pos in &body_positions(&tokens) {
            let mut t2: Vec<&str> = tokens.clone();
            t2.insert(pos, "breakpoint");
            let src = t2.join(" ");
            for debug in [false, true] {
                checks += 1;
                match compile(&src, debug, p.kernel) {
                    Ok(h) if h == base => {}
                    Ok(h) => { fail(if debug { "breakpoint-changes-hash-in-debug-mode" } else { "breakpoint-changes-hash" }, p.name, format!("debug={debug} `{src}` {h} vs {base}")); }
                    Err((k, m)) => fail(&format!("breakpoint-{k}"), p.name, format!("debug={debug} `{src}` {m}")),
                }
            }
        }

        // sensitivity: one operation or immediate changed => another hash
        for (i, t) in tokens.iter().enumerate() {
            if let Some(r) = substitute(t) {
                let mut t2: Vec<String> = tokens.iter().map(|x| x.to_string()).collect();
                t2[i] = r;
                let src = t2.join(" ");
                checks += 1;
                match compile(&src, false, p.kernel) {
                    Ok(h) if h != base => {}
                    Ok(_) => fail(if t.contains(".err=") { "insensitive-to-error-code" } else { "insensitive" }, p.name, format!("`{src}` has the hash of `{}`", p.src)),
                    Err(_) => {} // the substituted program need not be valid
                }
            }
        }

        // the hash recorded by an execution
        let program = assembler(false, p.kernel).compile(p.src).unwrap();
        let mut vals = p.inputs.to_vec();
        vals.reverse();
        checks += 1;
        let r = catch_unwind(AssertUnwindSafe(|| execute(&program, StackInputs::try_from_values(vals).unwrap(), DefaultHost::default(), ExecutionOptions::default())));
        match r {
            Ok(Ok(trace)) => { if *trace.program_hash() != program.hash() || *trace.program_info().program_hash() != program.hash() { fail("trace-hash", p.name, "trace.program_hash() != program.hash()".into()); } }
            Ok(Err(e)) => fail("harness-execution-failed", p.name, e.to_string()),
            Err(_) => fail("trace-hash-panic", p.name, "execute panicked (hash assertion?)".into()),
        }
    }
    println!("SUMMARY checks={checks} failures={failures}");
}
