//! decmodel: bounded stand-in `decoder_model` for C13 (adapted from the demo written by the independent mutation
//! sub-agent for C13: independent batching / decoding model written from programs.md and decoder/main.md vs the decoder
//! columns and VmStateIterator; machine-readable SUMMARY line added).
//! C13 demonstration: "the decoded operation stream is exactly the program".
//!
//! For several thousand programs (built directly as MAST and from MASM) this binary computes,
//! with an INDEPENDENT model written from docs/src/design/programs.md and
//! docs/src/design/decoder/main.md, the expected
//!   * operation stream (SPAN / RESPAN / END / JOIN / SPLIT / LOOP / REPEAT / CALL / SYSCALL / DYN /
//!     HALT rows, user operations, and the documented NOOP padding),
//!   * group-count column,
//!   * hasher-state columns on control rows (op groups on SPAN / RESPAN, child hashes on block
//!     starts, block hash on END, program hash on the final rows),
//! and compares them with the decoder part of `ExecutionTrace::main_segment()` and with the
//! operation reported per clock cycle by `VmStateIterator`.
//!
//! The model does NOT use `OpBatch` / `Span::op_batches()` to derive batches or groups: it
//! re-implements the grouping rules from the documentation.  The only things taken from the
//! code base are the ISA (opcodes / which op carries an immediate) and the RPO hash function.

use std::collections::VecDeque;
use std::fmt::Write as _;
use std::panic::{self, AssertUnwindSafe};

use air::trace::{
    decoder::{GROUP_COUNT_COL_IDX, HASHER_STATE_OFFSET, NUM_OP_BITS, OP_BITS_OFFSET},
    DECODER_TRACE_OFFSET,
};
use processor::{execute, execute_iter, DefaultHost, ExecutionOptions, ExecutionTrace};
use vm_core::{
    chiplets::hasher::{self, Digest},
    code_blocks::CodeBlock,
    CodeBlockTable, Felt, Kernel, Operation, Program, StackInputs, StarkField, ZERO,
};
use winter_prover::Trace;

// MODEL PROGRAM REPRESENTATION
// ================================================================================================

#[derive(Clone, Debug)]
enum M {
    Span(Vec<Operation>),
    Join(Box<M>, Box<M>),
    Split(Box<M>, Box<M>),
    Loop(Box<M>),
    Call(Box<M>),
    SysCall(Box<M>),
    /// DYN block; the boxed program is the one whose hash is on the stack when DYN executes.
    Dyn(Box<M>),
    /// CALL to the DYN block (dyncall).
    DynCall(Box<M>),
}

fn join(a: M, b: M) -> M {
    M::Join(Box::new(a), Box::new(b))
}
fn split(a: M, b: M) -> M {
    M::Split(Box::new(a), Box::new(b))
}
fn lp(a: M) -> M {
    M::Loop(Box::new(a))
}
fn call(a: M) -> M {
    M::Call(Box::new(a))
}
fn span(ops: Vec<Operation>) -> M {
    M::Span(ops)
}

fn describe(m: &M) -> String {
    fn go(m: &M, s: &mut String) {
        match m {
            M::Span(ops) => {
                s.push_str("span[");
                for (i, op) in ops.iter().enumerate() {
                    if i > 0 {
                        s.push(' ');
                    }
                    let _ = write!(s, "{op}");
                }
                s.push(']');
            }
            M::Join(a, b) => {
                s.push_str("join(");
                go(a, s);
                s.push_str(", ");
                go(b, s);
                s.push(')');
            }
            M::Split(a, b) => {
                s.push_str("split(");
                go(a, s);
                s.push_str(", ");
                go(b, s);
                s.push(')');
            }
            M::Loop(a) => {
                s.push_str("loop(");
                go(a, s);
                s.push(')');
            }
            M::Call(a) => {
                s.push_str("call(");
                go(a, s);
                s.push(')');
            }
            M::SysCall(a) => {
                s.push_str("syscall(");
                go(a, s);
                s.push(')');
            }
            M::Dyn(a) => {
                s.push_str("dyn->(");
                go(a, s);
                s.push(')');
            }
            M::DynCall(a) => {
                s.push_str("dyncall->(");
                go(a, s);
                s.push(')');
            }
        }
    }
    let mut s = String::new();
    go(m, &mut s);
    if s.len() > 1500 {
        let head: String = s.chars().take(1200).collect();
        format!("{head} ... ({} chars)", s.len())
    } else {
        s
    }
}

// MODEL: SPAN BATCHING (docs/src/design/programs.md, "Span block")
// ================================================================================================

const GROUPS_PER_BATCH: usize = 8;
const OPS_PER_GROUP: usize = 9;
const OPCODE_BITS: usize = 7;

struct MBatch {
    /// the 8 field elements of the batch (op groups and immediate values)
    slots: [Felt; GROUPS_PER_BATCH],
    /// operation groups in execution order: (slot index, operations)
    groups: Vec<(usize, Vec<Operation>)>,
    /// number of slots in use (op groups + immediates)
    used: usize,
}

impl MBatch {
    fn new() -> Self {
        MBatch { slots: [ZERO; GROUPS_PER_BATCH], groups: vec![(0, Vec::new())], used: 1 }
    }
    fn seal(&mut self) {
        for (slot, ops) in &self.groups {
            let mut v = 0u64;
            for (i, op) in ops.iter().enumerate() {
                v |= (op.op_code() as u64) << (OPCODE_BITS * i);
            }
            self.slots[*slot] = Felt::new(v);
        }
    }
}

fn has_imm(op: &Operation) -> Option<Felt> {
    op.imm_value()
}

/// Splits a list of operations into batches and groups:
/// - a group holds up to 9 operations, or one immediate value;
/// - a batch holds up to 8 groups;
/// - the immediate value of an operation goes into the next free group of the same batch;
/// - an operation with an immediate value cannot be the last (9th) operation of a group.
fn model_batches(ops: &[Operation]) -> Vec<MBatch> {
    let mut done = Vec::new();
    let mut cur = MBatch::new();
    for op in ops {
        let imm = has_imm(op);
        loop {
            let in_group = cur.groups.last().unwrap().1.len();
            let new_group =
                in_group == OPS_PER_GROUP || (imm.is_some() && in_group == OPS_PER_GROUP - 1);
            let slots_needed = new_group as usize + imm.is_some() as usize;
            if cur.used + slots_needed <= GROUPS_PER_BATCH {
                if new_group {
                    cur.groups.push((cur.used, Vec::new()));
                    cur.used += 1;
                }
                if let Some(v) = imm {
                    cur.slots[cur.used] = v;
                    cur.used += 1;
                }
                cur.groups.last_mut().unwrap().1.push(*op);
                break;
            }
            cur.seal();
            done.push(std::mem::replace(&mut cur, MBatch::new()));
        }
    }
    cur.seal();
    done.push(cur);
    done
}

fn pow2ceil(n: usize) -> usize {
    let mut p = 1;
    while p < n {
        p *= 2;
    }
    p
}

// MODEL: HASHES (docs/src/design/programs.md, "Program hash computation")
// ================================================================================================

fn domain(op: Operation) -> Felt {
    Felt::new(op.op_code() as u64)
}

fn model_hash(m: &M) -> Digest {
    let zero = Digest::default();
    match m {
        M::Span(ops) => {
            let elements: Vec<Felt> =
                model_batches(ops).iter().flat_map(|b| b.slots.to_vec()).collect();
            hasher::hash_elements(&elements)
        }
        M::Join(a, b) => {
            hasher::merge_in_domain(&[model_hash(a), model_hash(b)], domain(Operation::Join))
        }
        M::Split(a, b) => {
            hasher::merge_in_domain(&[model_hash(a), model_hash(b)], domain(Operation::Split))
        }
        M::Loop(a) => hasher::merge_in_domain(&[model_hash(a), zero], domain(Operation::Loop)),
        M::Call(a) => hasher::merge_in_domain(&[model_hash(a), zero], domain(Operation::Call)),
        M::SysCall(a) => {
            hasher::merge_in_domain(&[model_hash(a), zero], domain(Operation::SysCall))
        }
        M::Dyn(_) => dyn_const_hash(),
        M::DynCall(_) => {
            hasher::merge_in_domain(&[dyn_const_hash(), zero], domain(Operation::Call))
        }
    }
}

fn dyn_const_hash() -> Digest {
    hasher::merge_in_domain(&[Digest::default(), Digest::default()], domain(Operation::Dyn))
}

// MODEL: EXPECTED DECODER ROWS (docs/src/design/decoder/main.md)
// ================================================================================================

#[derive(Clone, Debug)]
enum Hs {
    /// not checked
    Any,
    /// h0 = operations of the current group which are still to be executed
    H0(Felt),
    /// h0..h3
    First4([Felt; 4]),
    /// h0..h7
    Full([Felt; 8]),
}

#[derive(Clone, Debug)]
struct Row {
    op: Operation,
    gc: u64,
    hs: Hs,
}

struct Model {
    rows: Vec<Row>,
    conds: VecDeque<u64>,
}

fn two_words(a: Digest, b: Digest) -> Hs {
    let mut r = [ZERO; 8];
    r[..4].copy_from_slice(a.as_elements());
    r[4..].copy_from_slice(b.as_elements());
    Hs::Full(r)
}

fn one_word(a: Digest) -> Hs {
    let mut r = [ZERO; 4];
    r.copy_from_slice(a.as_elements());
    Hs::First4(r)
}

impl Model {
    fn cond(&mut self) -> u64 {
        self.conds.pop_front().unwrap_or(0)
    }

    fn ctrl(&mut self, op: Operation, hs: Hs) {
        self.rows.push(Row { op, gc: 0, hs });
    }

    fn end(&mut self, m: &M) {
        self.ctrl(Operation::End, one_word(model_hash(m)));
    }

    fn run(&mut self, m: &M) {
        let zero = Digest::default();
        match m {
            M::Span(ops) => self.run_span(m, ops),
            M::Join(a, b) => {
                self.ctrl(Operation::Join, two_words(model_hash(a), model_hash(b)));
                self.run(a);
                self.run(b);
                self.end(m);
            }
            M::Split(a, b) => {
                self.ctrl(Operation::Split, two_words(model_hash(a), model_hash(b)));
                match self.cond() {
                    1 => self.run(a),
                    0 => self.run(b),
                    c => panic!("model: non-binary condition {c}"),
                }
                self.end(m);
            }
            M::Loop(body) => {
                self.ctrl(Operation::Loop, two_words(model_hash(body), zero));
                if self.cond() == 1 {
                    self.run(body);
                    while self.cond() == 1 {
                        // REPEAT copies the hasher state of the previous row; not checked here
                        self.ctrl(Operation::Repeat, Hs::Any);
                        self.run(body);
                    }
                }
                self.end(m);
            }
            M::Call(body) => {
                self.ctrl(Operation::Call, two_words(model_hash(body), zero));
                self.run(body);
                self.end(m);
            }
            M::SysCall(body) => {
                self.ctrl(Operation::SysCall, two_words(model_hash(body), zero));
                self.run(body);
                self.end(m);
            }
            M::Dyn(target) => {
                // the docs say h0..h7 are zero on a DYN row, the implementation puts the target
                // hash there; this column is not part of the property, so it is not compared
                self.ctrl(Operation::Dyn, Hs::Any);
                self.run(target);
                self.end(m);
            }
            M::DynCall(target) => {
                self.ctrl(Operation::Call, two_words(dyn_const_hash(), zero));
                let inner = M::Dyn(target.clone());
                self.run(&inner);
                self.end(m);
            }
        }
    }

    fn run_span(&mut self, m: &M, ops: &[Operation]) {
        let batches = model_batches(ops);
        let last = batches.len() - 1;
        // total number of groups: 8 per batch for all batches but the last one; for the last
        // batch the number of groups is brought up to 1, 2, 4 or 8
        let mut gc = (GROUPS_PER_BATCH * last + pow2ceil(batches[last].used)) as u64;
        for (bi, batch) in batches.iter().enumerate() {
            // SPAN / RESPAN: h0..h7 hold the batch; the group count is decremented afterwards
            let op = if bi == 0 { Operation::Span } else { Operation::Respan };
            self.rows.push(Row { op, gc, hs: Hs::Full(batch.slots) });
            gc -= 1;
            for (gi, (slot, group_ops)) in batch.groups.iter().enumerate() {
                if gi > 0 {
                    // moving on to the next op group of the batch
                    gc -= 1;
                }
                let mut left = batch.slots[*slot].as_int();
                for op in group_ops {
                    left = (left - op.op_code() as u64) >> OPCODE_BITS;
                    self.rows.push(Row { op: *op, gc, hs: Hs::H0(Felt::new(left)) });
                    if has_imm(op).is_some() {
                        // the immediate value is consumed from the op group table
                        gc -= 1;
                    }
                }
                assert_eq!(left, 0, "model: group not fully executed");
                // an operation carrying an immediate value cannot be the last one in a group
                if has_imm(group_ops.last().unwrap()).is_some() {
                    self.rows.push(Row { op: Operation::Noop, gc, hs: Hs::H0(ZERO) });
                }
            }
            // the number of groups in a batch is 1, 2, 4 or 8; missing groups are NOOP groups
            let target = if bi == last { pow2ceil(batch.used) } else { GROUPS_PER_BATCH };
            for _ in batch.used..target {
                gc -= 1;
                self.rows.push(Row { op: Operation::Noop, gc, hs: Hs::H0(ZERO) });
            }
        }
        assert_eq!(gc, 0, "model: group count must be zero at the end of a span");
        self.rows.push(Row { op: Operation::End, gc, hs: one_word(model_hash(m)) });
    }
}

// BUILDING REAL PROGRAMS
// ================================================================================================

fn build(m: &M, table: &mut CodeBlockTable, kernel: &mut Vec<Digest>) -> CodeBlock {
    match m {
        M::Span(ops) => CodeBlock::new_span(ops.clone()),
        M::Join(a, b) => {
            let a = build(a, table, kernel);
            let b = build(b, table, kernel);
            CodeBlock::new_join([a, b])
        }
        M::Split(a, b) => {
            let a = build(a, table, kernel);
            let b = build(b, table, kernel);
            CodeBlock::new_split(a, b)
        }
        M::Loop(a) => CodeBlock::new_loop(build(a, table, kernel)),
        M::Call(a) => {
            let body = build(a, table, kernel);
            let h = body.hash();
            table.insert(body);
            CodeBlock::new_call(h)
        }
        M::SysCall(a) => {
            let body = build(a, table, kernel);
            let h = body.hash();
            table.insert(body);
            if !kernel.contains(&h) {
                kernel.push(h);
            }
            CodeBlock::new_syscall(h)
        }
        M::Dyn(a) => {
            let body = build(a, table, kernel);
            table.insert(body);
            CodeBlock::new_dyn()
        }
        M::DynCall(a) => {
            let body = build(a, table, kernel);
            table.insert(body);
            CodeBlock::new_dyncall()
        }
    }
}

fn build_program(m: &M) -> Program {
    let mut table = CodeBlockTable::default();
    let mut kernel = Vec::new();
    let root = build(m, &mut table, &mut kernel);
    let kernel = Kernel::new(&kernel).expect("kernel");
    Program::with_kernel(root, kernel, table)
}

/// Converts an assembled program into the model representation (only the flat list of
/// operations of every span is taken over; batches and groups are recomputed by the model).
fn from_code_block(b: &CodeBlock, table: &CodeBlockTable) -> M {
    match b {
        CodeBlock::Span(s) => {
            M::Span(s.op_batches().iter().flat_map(|b| b.ops().iter().copied()).collect())
        }
        CodeBlock::Join(j) => {
            join(from_code_block(j.first(), table), from_code_block(j.second(), table))
        }
        CodeBlock::Split(s) => {
            split(from_code_block(s.on_true(), table), from_code_block(s.on_false(), table))
        }
        CodeBlock::Loop(l) => lp(from_code_block(l.body(), table)),
        CodeBlock::Call(c) => {
            let body = table.get(c.fn_hash()).expect("call target");
            let body = from_code_block(body, table);
            if c.is_syscall() {
                M::SysCall(Box::new(body))
            } else {
                call(body)
            }
        }
        _ => panic!("unsupported block in MASM test program"),
    }
}

// CHECKING ONE PROGRAM
// ================================================================================================

fn op_name(code: u8) -> String {
    use Operation::*;
    let known = [
        Noop, Pad, Drop, Incr, Neg, Swap, Dup0, Add, Mul, Eqz, Push(ZERO), Join, Split, Loop,
        Call, SysCall, Dyn, Span, Respan, End, Repeat, Halt, Dup1, MovUp2, Eq, Not, And, Or,
        Assert(0), FmpAdd, FmpUpdate, Dup2, Dup3, MovDn2, CSwap, Inv, Expacc, Clk, SDepth,
        Caller, U32add, U32sub, U32mul, U32div, U32and, U32xor, U32split, MovUp3, MovDn3,
        MovUp4, MovDn4, Dup4, Dup5, Dup6, Dup7, SwapW, MLoad, MStore, MLoadW, MStoreW, AdvPop,
        AdvPopW, HPerm,
    ];
    for k in known {
        if k.op_code() == code {
            return match k {
                Push(_) => "push".to_string(),
                other => format!("{other}"),
            };
        }
    }
    format!("opcode {code:#09b}")
}

struct Actual {
    /// number of rows before the rows filled with random values
    n: usize,
    opcode: Vec<u8>,
    gc: Vec<u64>,
    hs: Vec<[Felt; 8]>,
}

fn read_decoder(trace: &ExecutionTrace) -> Actual {
    let main = trace.main_segment();
    let n = trace.length() - ExecutionTrace::NUM_RAND_ROWS;
    let col = |i: usize| main.get_column(DECODER_TRACE_OFFSET + i);
    let mut opcode = vec![0u8; n];
    for b in 0..NUM_OP_BITS {
        let c = col(OP_BITS_OFFSET + b);
        for (r, code) in opcode.iter_mut().enumerate() {
            let bit = c[r].as_int();
            assert!(bit <= 1, "op bit is not binary");
            *code |= (bit as u8) << b;
        }
    }
    let gc = col(GROUP_COUNT_COL_IDX)[..n].iter().map(|v| v.as_int()).collect();
    let mut hs = vec![[ZERO; 8]; n];
    for h in 0..8 {
        let c = col(HASHER_STATE_OFFSET + h);
        for (r, row) in hs.iter_mut().enumerate() {
            row[h] = c[r];
        }
    }
    Actual { n, opcode, gc, hs }
}

/// Model-free structural check of the actual stream: block starts and ends are properly nested,
/// user operations / RESPAN occur only inside a span, REPEAT only directly inside a loop, the
/// group count is zero on every END row, nothing but HALT follows the END of the root block.
fn structural_check(a: &Actual) -> Result<(), String> {
    use Operation::*;
    let code = |op: Operation| op.op_code();
    let mut stack: Vec<u8> = Vec::new();
    let mut finished = false;
    for r in 0..a.n {
        let c = a.opcode[r];
        if finished {
            if c != code(Halt) {
                return Err(format!("row {r}: {} after the root block ended", op_name(c)));
            }
            continue;
        }
        let is_start = [Join, Split, Loop, Call, SysCall, Dyn, Span].iter().any(|o| code(*o) == c);
        if is_start {
            if stack.last() == Some(&code(Span)) {
                return Err(format!("row {r}: block start {} inside a span", op_name(c)));
            }
            stack.push(c);
        } else if c == code(End) {
            if stack.pop().is_none() {
                return Err(format!("row {r}: END without an open block"));
            }
            if a.gc[r] != 0 {
                return Err(format!("row {r}: group count is {} on an END row", a.gc[r]));
            }
            if stack.is_empty() {
                finished = true;
            }
        } else if c == code(Repeat) {
            if stack.last() != Some(&code(Loop)) {
                return Err(format!("row {r}: REPEAT outside of a loop"));
            }
        } else if c == code(Halt) {
            return Err(format!("row {r}: HALT while {} block(s) are still open", stack.len()));
        } else if stack.last() != Some(&code(Span)) {
            return Err(format!("row {r}: {} outside of a span", op_name(c)));
        }
    }
    if !finished {
        return Err("the root block never ended".to_string());
    }
    Ok(())
}

fn fmt_word(w: &[Felt]) -> String {
    let v: Vec<String> = w.iter().map(|f| f.as_int().to_string()).collect();
    format!("[{}]", v.join(", "))
}

fn context(expected: &[Row], a: &Actual, r: usize) -> String {
    let mut s = String::new();
    let lo = r.saturating_sub(4);
    let hi = (r + 4).min(a.n);
    let _ = writeln!(s, "        row | expected op (gc)      | actual op (gc)");
    for i in lo..hi {
        let (eop, egc) = match expected.get(i) {
            Some(row) => (op_name(row.op.op_code()), row.gc),
            None => ("halt".to_string(), 0),
        };
        let mark = if i == r { "<<<" } else { "" };
        let _ = writeln!(
            s,
            "      {i:5} | {:<14} ({:>3}) | {:<14} ({:>3}) {mark}",
            eop,
            egc,
            op_name(a.opcode[i]),
            a.gc[i]
        );
    }
    s
}

fn panic_message(e: Box<dyn std::any::Any + Send>) -> String {
    if let Some(s) = e.downcast_ref::<String>() {
        s.clone()
    } else if let Some(s) = e.downcast_ref::<&str>() {
        s.to_string()
    } else {
        "unknown panic".to_string()
    }
}

/// Runs one program and returns the list of deviations (empty = as expected).
fn check_program(m: &M, program: &Program, conds: &[u64]) -> Vec<String> {
    let mut failures = Vec::new();

    // --- expected ------------------------------------------------------------------------------
    let mut model = Model { rows: Vec::new(), conds: conds.iter().copied().collect() };
    model.run(m);
    let expected = model.rows;
    let expected_hash = model_hash(m);
    if expected_hash != program.hash() {
        failures.push(format!(
            "MAST root computed by the model {} differs from Program::hash() {}",
            fmt_word(expected_hash.as_elements()),
            fmt_word(program.hash().as_elements())
        ));
        return failures;
    }

    let inputs: Vec<u64> = conds.iter().take(16).rev().copied().collect();
    assert!(conds.iter().skip(16).all(|&c| c == 0));
    let stack_inputs = || StackInputs::try_from_values(inputs.clone()).unwrap();

    // --- decoder columns of the execution trace -------------------------------------------------
    let result = panic::catch_unwind(AssertUnwindSafe(|| {
        execute(program, stack_inputs(), DefaultHost::default(), ExecutionOptions::default())
    }));
    match result {
        Err(e) => failures.push(format!("execute() panicked: {}", panic_message(e))),
        Ok(Err(e)) => failures.push(format!("execute() failed: {e}")),
        Ok(Ok(trace)) => {
            let a = read_decoder(&trace);
            if let Err(e) = structural_check(&a) {
                failures.push(format!("nesting / structure: {e}"));
            }
            if expected.len() > a.n {
                failures.push(format!(
                    "trace has {} decoder rows but the program needs {}",
                    a.n,
                    expected.len()
                ));
            }
            let halt = Row {
                op: Operation::Halt,
                gc: 0,
                hs: one_word(expected_hash),
            };
            let mut op_bad = None;
            let mut gc_bad = None;
            let mut hs_bad = None;
            for r in 0..a.n {
                let e = expected.get(r).unwrap_or(&halt);
                if e.op.op_code() != a.opcode[r] {
                    // from here on expected and actual rows are no longer aligned, so the other
                    // columns are compared only up to this row (the model-free structural check
                    // above still covers nesting and "group count is zero on END" for all rows)
                    op_bad = Some(r);
                    break;
                }
                if gc_bad.is_none() && e.gc != a.gc[r] {
                    gc_bad = Some(r);
                }
                if hs_bad.is_none() {
                    let ok = match &e.hs {
                        Hs::Any => true,
                        Hs::H0(v) => a.hs[r][0] == *v,
                        Hs::First4(w) => a.hs[r][..4] == w[..],
                        Hs::Full(w) => a.hs[r] == *w,
                    };
                    if !ok {
                        hs_bad = Some(r);
                    }
                }
            }
            if let Some(r) = op_bad {
                let e = expected.get(r).unwrap_or(&halt);
                failures.push(format!(
                    "OPERATION SEQUENCE: decoder row {r} holds {} but the program requires {}\n{}",
                    op_name(a.opcode[r]),
                    op_name(e.op.op_code()),
                    context(&expected, &a, r)
                ));
            }
            if let Some(r) = gc_bad {
                let e = expected.get(r).unwrap_or(&halt);
                failures.push(format!(
                    "GROUP COUNT: decoder row {r} ({}) has group count {} but {} is required\n{}",
                    op_name(a.opcode[r]),
                    a.gc[r],
                    e.gc,
                    context(&expected, &a, r)
                ));
            }
            if let Some(r) = hs_bad {
                let e = expected.get(r).unwrap_or(&halt);
                failures.push(format!(
                    "HASHER STATE: decoder row {r} ({}) has h0..h7 = {} but {:?} is required",
                    op_name(a.opcode[r]),
                    fmt_word(&a.hs[r]),
                    e.hs
                ));
            }
            // the final decoder row carries the program hash
            let last = a.n - 1;
            if a.hs[last][..4] != expected_hash.as_elements()[..] {
                failures.push(format!(
                    "FINAL HASH: last decoder row {last} has h0..h3 = {} but the program hash is {}",
                    fmt_word(&a.hs[last][..4]),
                    fmt_word(expected_hash.as_elements())
                ));
            }
        }
    }

    // --- operation per clock cycle reported by VmStateIterator ---------------------------------
    let result = panic::catch_unwind(AssertUnwindSafe(|| {
        let mut ops = Vec::new();
        for state in execute_iter(program, stack_inputs(), DefaultHost::default()) {
            match state {
                Ok(s) => ops.push((s.clk, s.op)),
                Err(e) => return Err(format!("{e}")),
            }
        }
        Ok(ops)
    }));
    match result {
        Err(e) => failures.push(format!("execute_iter() panicked: {}", panic_message(e))),
        Ok(Err(e)) => failures.push(format!("execute_iter() failed: {e}")),
        Ok(Ok(ops)) => {
            let mut bad = None;
            if ops.len() != expected.len() + 1 {
                bad = Some(format!(
                    "VmStateIterator yields {} states but {} are required",
                    ops.len(),
                    expected.len() + 1
                ));
            }
            for (i, (clk, op)) in ops.iter().enumerate() {
                let e = if i == 0 { None } else { expected.get(i - 1).map(|r| r.op) };
                if *clk as usize != i || (*op != e && (i == 0 || i <= expected.len())) {
                    bad = Some(format!(
                        "VmStateIterator reports {:?} at clk {} but the program requires {:?}",
                        op, clk, e
                    ));
                    break;
                }
            }
            if let Some(b) = bad {
                failures.push(format!("OPERATION SEQUENCE (VmStateIterator): {b}"));
            }
        }
    }

    failures
}

// TEST PROGRAM GENERATORS
// ================================================================================================

struct Rng(u64);
impl Rng {
    fn next(&mut self) -> u64 {
        // xorshift64*
        self.0 ^= self.0 >> 12;
        self.0 ^= self.0 << 25;
        self.0 ^= self.0 >> 27;
        self.0.wrapping_mul(0x2545F4914F6CDD1D)
    }
    fn below(&mut self, n: u64) -> u64 {
        (self.next() >> 11) % n
    }
}

/// operations which never fail, whatever the stack holds
fn filler(rng: &mut Rng) -> Operation {
    use Operation::*;
    const F: [Operation; 10] = [Pad, Incr, Neg, Noop, Drop, Swap, Dup0, Add, Mul, Eqz];
    F[rng.below(F.len() as u64) as usize]
}

fn push_val(rng: &mut Rng) -> Operation {
    // immediate values: small, large, and (rarely) zero
    match rng.below(8) {
        0 => Operation::Push(ZERO),
        1 => Operation::Push(Felt::new(rng.next() % Felt::MODULUS)),
        _ => Operation::Push(Felt::new(2 + rng.below(1000))),
    }
}

/// span of the given length with PUSH at the positions selected by `is_push`
fn masked_span(len: usize, rng: &mut Rng, is_push: impl Fn(usize) -> bool) -> M {
    let ops =
        (0..len).map(|i| if is_push(i) { push_val(rng) } else { filler(rng) }).collect::<Vec<_>>();
    span(ops)
}

/// A span which leaves the stack below it untouched and has no net effect on the stack depth.
fn balanced_span(len: usize, push_density: u64, rng: &mut Rng) -> M {
    use Operation::*;
    let mut ops = Vec::new();
    let mut d = 0usize; // number of own elements on the stack
    while ops.len() + d < len {
        let r = rng.below(100);
        if r < push_density {
            ops.push(push_val(rng));
            d += 1;
        } else if r < push_density + 15 {
            ops.push(Pad);
            d += 1;
        } else if d >= 2 && r < push_density + 35 {
            ops.push(if r % 2 == 0 { Add } else { Swap });
            if r % 2 == 0 {
                d -= 1;
            }
        } else if d >= 1 && r < push_density + 60 {
            ops.push([Incr, Neg, Eqz][(r % 3) as usize]);
        } else if d >= 1 && r < push_density + 70 {
            ops.push(Drop);
            d -= 1;
        } else {
            ops.push(Noop);
        }
    }
    for _ in 0..d {
        ops.push(Drop);
    }
    span(ops)
}

/// pool of stack-neutral leaves used for the control-flow shapes
fn leaf_pool(rng: &mut Rng) -> Vec<M> {
    use Operation::*;
    let mut pool = vec![
        span(vec![Noop]),
        span(vec![Pad, Drop]),
        span(vec![Push(Felt::new(7)), Drop]),
        // (a span made only of NOOPs would have the same MAST hash as span[noop] - all its op
        // groups are zero - and call targets are looked up by hash, so the pool contains only
        // one such span)
        span(vec![Noop, Noop, Noop, Noop, Noop, Noop, Noop, Noop, Noop, Pad, Drop]),
        // a span ending with PUSH (at index 7 of its group) followed by a span which drops it
        join(
            span(vec![Noop, Noop, Noop, Noop, Noop, Noop, Noop, Push(Felt::new(9))]),
            span(vec![Drop]),
        ),
        join(span(vec![Push(Felt::new(3)), Push(Felt::new(4))]), span(vec![Drop, Drop])),
        // the second group holds 8 operations, ends with a PUSH and is followed by a PUSH
        span(vec![
            Noop, Noop, Noop, Noop, Noop, Noop, Noop, Noop, Noop, // group 0
            Pad, Incr, Neg, Neg, Incr, Drop, Noop, Push(Felt::new(21)), // group 1
            Push(Felt::new(22)), Add, Drop,
        ]),
    ];
    for (len, density) in [
        (3, 30),
        (8, 20),
        (9, 0),
        (10, 40),
        (17, 25),
        (18, 10),
        (30, 50),
        (40, 15),
        (71, 0),
        (72, 0),
        (73, 0),
        (80, 30),
        (150, 20),
        (230, 10),
    ] {
        pool.push(balanced_span(len, density, rng));
    }
    pool
}

/// all shapes of the given maximal depth over {span, join, split, loop, call}; leaves are empty
/// placeholder spans which are filled in by `fill_leaves`
fn shapes(depth: usize) -> Vec<M> {
    if depth == 0 {
        return vec![span(vec![])];
    }
    let sub = shapes(depth - 1);
    let mut out = vec![span(vec![])];
    for a in &sub {
        out.push(lp(a.clone()));
        out.push(call(a.clone()));
        for b in &sub {
            out.push(join(a.clone(), b.clone()));
            out.push(split(a.clone(), b.clone()));
        }
    }
    out
}

/// replaces every placeholder leaf by the next entry of the leaf pool
fn fill_leaves(m: &M, leaves: &[M], next_leaf: &mut usize) -> M {
    match m {
        M::Span(ops) if ops.is_empty() => {
            let l = leaves[*next_leaf % leaves.len()].clone();
            *next_leaf += 1;
            l
        }
        M::Span(_) => m.clone(),
        M::Join(a, b) => {
            let a = fill_leaves(a, leaves, next_leaf);
            join(a, fill_leaves(b, leaves, next_leaf))
        }
        M::Split(a, b) => {
            let a = fill_leaves(a, leaves, next_leaf);
            split(a, fill_leaves(b, leaves, next_leaf))
        }
        M::Loop(a) => lp(fill_leaves(a, leaves, next_leaf)),
        M::Call(a) => call(fill_leaves(a, leaves, next_leaf)),
        M::SysCall(a) => M::SysCall(Box::new(fill_leaves(a, leaves, next_leaf))),
        M::Dyn(a) => M::Dyn(Box::new(fill_leaves(a, leaves, next_leaf))),
        M::DynCall(a) => M::DynCall(Box::new(fill_leaves(a, leaves, next_leaf))),
    }
}

/// Chooses branch / loop decisions for a program and returns the conditions in the order in
/// which the VM pops them.  Only the first 16 conditions can be non-zero (they are supplied
/// as the initial stack; everything below the initial stack is zero).
fn choose_conds(m: &M, rng: &mut Rng, iter_choices: &[u64], out: &mut Vec<u64>) {
    const BUDGET: usize = 16;
    match m {
        M::Span(_) => {}
        M::Join(a, b) => {
            choose_conds(a, rng, iter_choices, out);
            choose_conds(b, rng, iter_choices, out);
        }
        M::Split(a, b) => {
            let c = if out.len() < BUDGET { rng.below(2) } else { 0 };
            out.push(c);
            choose_conds(if c == 1 { a } else { b }, rng, iter_choices, out);
        }
        M::Loop(body) => {
            let n = if out.len() < BUDGET {
                iter_choices[rng.below(iter_choices.len() as u64) as usize]
            } else {
                0
            };
            if n == 0 {
                out.push(0);
                return;
            }
            out.push(1);
            for i in 0..n {
                choose_conds(body, rng, iter_choices, out);
                if i + 1 < n && out.len() < BUDGET {
                    out.push(1);
                } else {
                    out.push(0);
                    break;
                }
            }
        }
        M::Call(a) | M::SysCall(a) | M::Dyn(a) | M::DynCall(a) => {
            choose_conds(a, rng, iter_choices, out)
        }
    }
}

/// `push h0 .. push h3` (hash of the target) followed by the DYN / dyncall block.
/// - DYN: the target runs in the same context, so it must start by dropping the four hash
///   elements itself.
/// - dyncall: the target runs in a fresh context and must leave the stack as it found it (it must
///   not pop any split / loop condition either); the caller drops the hash after the call.
fn with_dyn(target: M, as_call: bool) -> M {
    let h = model_hash(&target);
    let pushes = h.as_elements().iter().map(|e| Operation::Push(*e)).collect::<Vec<_>>();
    if as_call {
        let drops = span(vec![Operation::Drop; 4]);
        join(join(span(pushes), M::DynCall(Box::new(target))), drops)
    } else {
        join(span(pushes), M::Dyn(Box::new(target)))
    }
}

// DRIVER
// ================================================================================================

#[derive(Default)]
struct Stats {
    programs: usize,
    failed: usize,
    printed: usize,
}

const MAX_PRINTED: usize = 12;

fn run_case(stats: &mut Stats, family: &str, m: &M, program: &Program, conds: &[u64]) {
    stats.programs += 1;
    let failures = check_program(m, program, conds);
    if !failures.is_empty() {
        stats.failed += 1;
        if stats.printed < MAX_PRINTED {
            stats.printed += 1;
            println!("FAIL [{family}] program: {}", describe(m));
            println!("     conditions popped by split/loop (in order): {conds:?}");
            for f in &failures {
                println!("  -> {f}");
            }
            let kind = failures[0].split(':').next().unwrap_or("deviation").trim().to_string();
            println!("FAILCASE {} :: {} :: conds={:?} :: {}", kind, describe(m).chars().take(500).collect::<String>(), conds, failures[0].replace('\n', " ").chars().take(500).collect::<String>());
        } else if stats.printed == MAX_PRINTED {
            stats.printed += 1;
            println!("(further failing programs are only counted)");
        }
    }
}

fn run_model(stats: &mut Stats, family: &str, m: &M, conds: &[u64]) {
    let program = build_program(m);
    run_case(stats, family, m, &program, conds);
}

fn main() {
    // silence the default panic hook; panics inside the VM are caught and reported as failures
    panic::set_hook(Box::new(|_| {}));

    let mut total = Stats::default();
    let family = |name: &str, total: &mut Stats, f: &mut dyn FnMut(&mut Stats)| {
        let (p0, f0) = (total.programs, total.failed);
        f(total);
        println!(
            "family {:<44} {:>6} programs, {:>5} deviating",
            name,
            total.programs - p0,
            total.failed - f0
        );
    };

    // --- A1: single spans of length 1..=11, PUSH at every subset of positions -----------------
    family("A1 span len 1..11, every push pattern", &mut total, &mut |st| {
        let mut rng = Rng(0x1234_5678_9abc_def1);
        for len in 1..=11usize {
            for mask in 0u32..(1 << len) {
                let m = masked_span(len, &mut rng, |i| mask >> i & 1 == 1);
                run_model(st, "A1", &m, &[]);
            }
        }
    });

    // --- A2: single spans of length 12..=80 ---------------------------------------------------
    family("A2 span len 12..80, structured+random pushes", &mut total, &mut |st| {
        let mut rng = Rng(0x0bad_cafe_dead_beef);
        for len in 12..=80usize {
            run_model(st, "A2", &masked_span(len, &mut rng, |_| false), &[]);
            run_model(st, "A2", &masked_span(len, &mut rng, |_| true), &[]);
            for p in 0..len {
                run_model(st, "A2", &masked_span(len, &mut rng, |i| i == p), &[]);
            }
            run_model(st, "A2", &masked_span(len, &mut rng, |i| i == 0 || i == len - 1), &[]);
            for density in [8u64, 4, 2] {
                for _ in 0..4 {
                    let bits: Vec<bool> = (0..len).map(|_| rng.below(density) == 0).collect();
                    run_model(st, "A2", &masked_span(len, &mut rng, |i| bits[i]), &[]);
                    let bits: Vec<bool> = (0..len).map(|_| rng.below(density) != 0).collect();
                    run_model(st, "A2", &masked_span(len, &mut rng, |i| bits[i]), &[]);
                }
            }
        }
    });

    // --- A3: batch boundaries -----------------------------------------------------------------
    family("A3 spans around 1, 2, 3, 4 full batches", &mut total, &mut |st| {
        let mut rng = Rng(0x5555_aaaa_1234_4321);
        // no immediates: 72 operations per batch
        for batches in 1..=4usize {
            for delta in -3i64..=3 {
                let len = (72 * batches as i64 + delta) as usize;
                run_model(st, "A3", &masked_span(len, &mut rng, |_| false), &[]);
                // ... and with PUSH as the last one / two operations
                run_model(st, "A3", &masked_span(len, &mut rng, |i| i == len - 1), &[]);
                run_model(st, "A3", &masked_span(len, &mut rng, |i| i + 2 >= len), &[]);
                run_model(st, "A3", &masked_span(len, &mut rng, |i| i + 2 == len), &[]);
            }
        }
        // only immediates: 7 operations per batch
        for len in 1..=30usize {
            run_model(st, "A3", &masked_span(len, &mut rng, |_| true), &[]);
        }
        // k pushes first, then fillers up to the capacity of the first batch (+-2), then
        // optionally one more push
        for k in 0..=7usize {
            let cap = (8 - k) * 9;
            for len in cap.saturating_sub(3).max(k + 1)..=cap + 3 {
                run_model(st, "A3", &masked_span(len, &mut rng, |i| i < k), &[]);
                run_model(st, "A3", &masked_span(len + 1, &mut rng, |i| i < k || i == len), &[]);
                // same thing in the second batch of a span
                run_model(st, "A3", &masked_span(72 + len, &mut rng, |i| i >= 72 && i < 72 + k), &[]);
                run_model(
                    st,
                    "A3",
                    &masked_span(72 + len + 1, &mut rng, |i| (i >= 72 && i < 72 + k) || i == 72 + len),
                    &[],
                );
            }
        }
        // f fillers followed by p pushes
        for f in 0..=75usize {
            for p in 1..=9usize {
                run_model(st, "A3", &masked_span(f + p, &mut rng, |i| i >= f), &[]);
            }
        }
        // long pseudo-random spans
        for len in [100usize, 144, 200, 216, 250, 300, 400] {
            for density in [16u64, 6, 3, 2] {
                let bits: Vec<bool> = (0..len).map(|_| rng.below(density) == 0).collect();
                run_model(st, "A3", &masked_span(len, &mut rng, |i| bits[i]), &[]);
            }
        }
    });

    // --- B1: all control-flow shapes nested up to 3 deep --------------------------------------
    family("B1 all join/split/loop/call shapes, depth<=3", &mut total, &mut |st| {
        let mut rng = Rng(0x0123_4567_89ab_cdef);
        let leaves = leaf_pool(&mut rng);
        let mut next_leaf = 0usize;
        let all = shapes(3);
        for (i, m) in all.iter().enumerate() {
            let m = &fill_leaves(m, &leaves, &mut next_leaf);
            // two decision policies per shape: loops iterate {0,1,2,3} times / {1,2} times
            for choices in [&[0u64, 1, 2, 3][..], &[1u64, 2][..]] {
                let mut conds = Vec::new();
                choose_conds(m, &mut rng, choices, &mut conds);
                run_model(st, "B1", m, &conds);
                if i % 7 != 0 {
                    break;
                }
            }
        }
    });

    // --- B2: loops with 0, 1, n iterations, deeper nesting, syscall, dyn, dyncall ---------------
    family("B2 loops 0/1/n, syscall, dyn, dyncall, depth 4-5", &mut total, &mut |st| {
        use Operation::*;
        let mut rng = Rng(0x7777_1111_3333_9999);
        let leaves = leaf_pool(&mut rng);
        let leaf = |i: usize| leaves[i % leaves.len()].clone();
        // a single loop executed 0..=14 times, for several bodies
        for li in 0..leaves.len() {
            for n in 0..=14usize {
                let m = lp(leaf(li));
                let mut conds = vec![1u64; n];
                conds.push(0);
                run_model(st, "B2", &m, &conds);
                let m = join(leaf(li + 1), join(lp(leaf(li)), leaf(li + 2)));
                run_model(st, "B2", &m, &conds);
            }
        }
        // nested loops: outer n, inner k
        for n in 0..=3usize {
            for k in 0..=3usize {
                let m = lp(join(leaf(n + k), lp(leaf(7 + n))));
                let mut conds = Vec::new();
                if n == 0 {
                    conds.push(0);
                } else {
                    conds.push(1);
                    for i in 0..n {
                        // inner loop
                        if k == 0 {
                            conds.push(0);
                        } else {
                            conds.extend(std::iter::repeat(1).take(k));
                            conds.push(0);
                        }
                        conds.push(if i + 1 < n { 1 } else { 0 });
                    }
                }
                if conds.len() <= 16 {
                    run_model(st, "B2", &m, &conds);
                }
            }
        }
        // syscalls (a syscall cannot contain calls)
        let k1 = span(vec![Pad, Incr, Drop, Push(Felt::new(11)), Drop]);
        let k2 = join(leaf(2), split(leaf(8), lp(leaf(9))));
        for k in [k1, k2] {
            for conds in [vec![], vec![1u64], vec![0, 1, 1, 0], vec![0, 0]] {
                run_model(st, "B2", &M::SysCall(Box::new(k.clone())), &conds);
                let m = join(leaf(5), call(join(M::SysCall(Box::new(k.clone())), leaf(1))));
                run_model(st, "B2", &m, &conds);
                let m = lp(M::SysCall(Box::new(k.clone())));
                run_model(st, "B2", &m, &[1]);
            }
        }
        // dyn: the target drops the hash first
        let drop4 = |rest: &[Operation]| {
            let mut v = vec![Drop, Drop, Drop, Drop];
            v.extend_from_slice(rest);
            span(v)
        };
        let t1 = drop4(&[]);
        let t2 = join(drop4(&[Pad, Drop]), leaf(12));
        let t3 = join(drop4(&[Push(Felt::new(5)), Neg, Drop]), split(leaf(3), lp(leaf(4))));
        for t in [t1, t2, t3] {
            for conds in [vec![], vec![1u64], vec![0, 1, 1, 0], vec![1, 1, 1, 1, 0]] {
                run_model(st, "B2", &with_dyn(t.clone(), false), &conds);
                let m = join(leaf(1), call(with_dyn(t.clone(), false)));
                run_model(st, "B2", &m, &conds);
                let m = lp(with_dyn(t.clone(), false));
                let mut c = vec![1];
                c.extend_from_slice(&conds);
                run_model(st, "B2", &m, &c);
            }
        }
        // dyncall: the target leaves the stack untouched and pops no conditions
        for li in 0..leaves.len() {
            let t = join(leaf(li), call(leaf(li + 3)));
            run_model(st, "B2", &with_dyn(leaf(li), true), &[]);
            run_model(st, "B2", &with_dyn(t.clone(), true), &[]);
            run_model(st, "B2", &join(leaf(1), call(with_dyn(t.clone(), true))), &[]);
            run_model(st, "B2", &lp(with_dyn(t.clone(), true)), &[1, 1, 0]);
            run_model(st, "B2", &split(leaf(2), with_dyn(t.clone(), true)), &[0]);
        }
        // random deeper trees
        for _ in 0..600 {
            fn tree(d: usize, rng: &mut Rng, leaves: &[M]) -> M {
                let pick = if d == 0 { 0 } else { rng.below(6) };
                let l = |rng: &mut Rng| leaves[rng.below(leaves.len() as u64) as usize].clone();
                match pick {
                    0 => l(rng),
                    1 | 2 => join(tree(d - 1, rng, leaves), tree(d - 1, rng, leaves)),
                    3 => split(tree(d - 1, rng, leaves), tree(d - 1, rng, leaves)),
                    4 => lp(tree(d - 1, rng, leaves)),
                    _ => call(tree(d - 1, rng, leaves)),
                }
            }
            let d = 4 + rng.below(2) as usize;
            let m = tree(d, &mut rng, &leaves);
            let mut conds = Vec::new();
            choose_conds(&m, &mut rng, &[0, 1, 2, 3], &mut conds);
            run_model(st, "B2", &m, &conds);
        }
    });

    // --- C: programs assembled from MASM ------------------------------------------------------
    family("C  programs assembled from MASM", &mut total, &mut |st| {
        let sources: Vec<(String, Vec<u64>)> = masm_programs();
        for (src, conds) in sources {
            let program = match assembly::Assembler::default().compile(&src) {
                Ok(p) => p,
                Err(e) => {
                    st.programs += 1;
                    st.failed += 1;
                    println!("FAIL [C] could not assemble {src}: {e}");
                    continue;
                }
            };
            let m = from_code_block(program.root(), program.cb_table());
            run_case(st, "C", &m, &program, &conds);
        }
    });

    println!();
    println!("programs checked: {}", total.programs);
    println!("programs deviating from the model: {}", total.failed);
    println!("SUMMARY programs={} deviating={}", total.programs, total.failed);
    if total.failed == 0 {
        println!("PASS: decoder op bits, group count, hasher state and VmStateIterator ops match the model for all programs");
    } else {
        println!("FAIL: {} program(s) deviate (first {} shown above)", total.failed, MAX_PRINTED.min(total.failed));
        std::process::exit(1);
    }
}

fn masm_programs() -> Vec<(String, Vec<u64>)> {
    let mut v: Vec<(String, Vec<u64>)> = Vec::new();
    let mut add = |s: &str, c: &[u64]| v.push((s.to_string(), c.to_vec()));

    add("begin push.2 push.3 add drop end", &[]);
    add("begin push.2 push.3 push.4 push.5 push.6 push.7 push.8 push.9 push.10 add end", &[]);
    add("begin swap swap swap swap swap swap swap push.5 end", &[]);
    add("begin swap swap swap swap swap swap push.5 end", &[]);
    add("begin swap swap swap swap swap swap swap swap push.5 end", &[]);
    add("begin swap swap swap swap swap swap swap push.5 push.6 end", &[]);
    add("begin repeat.20 push.5 drop end end", &[]);
    add("begin repeat.40 swap end push.3 push.4 repeat.31 swap end push.9 end", &[]);
    add("begin repeat.72 swap end end", &[]);
    add("begin repeat.73 swap end end", &[]);
    add("begin repeat.8 push.3 end repeat.8 drop end end", &[]);
    // second group of the batch holds 8 operations, the last one being a push, and is followed
    // by another push
    add("begin repeat.8 neg neg end push.3 push.4 add drop end", &[]);
    add("begin repeat.17 neg neg end push.3 push.4 push.5 end", &[]);
    add("begin repeat.40 neg end push.2 push.3 repeat.7 neg end push.4 push.5 push.6 end", &[]);
    for c in [0u64, 1] {
        add("begin if.true push.2 drop else push.3 push.4 add drop end end", &[c]);
        add(
            "begin push.7 drop if.true dup.0 neg neg neg neg neg drop push.5 drop else push.3 drop end push.9 drop end",
            &[c],
        );
    }
    for n in 0..=5usize {
        let mut conds = vec![1u64; n];
        conds.push(0);
        add("begin while.true push.3 drop end end", &conds);
        add("begin push.2 drop while.true push.3 push.4 add drop end push.5 drop end", &conds);
        add(
            "begin while.true dup.0 neg neg neg neg neg drop push.5 drop end end",
            &conds,
        );
    }
    // nested: while inside if inside while, conditions: enter outer, if-branch, inner loop ...
    add(
        "begin while.true if.true while.true push.2 drop end else push.3 drop end end end",
        &[1, 1, 1, 1, 0, 1, 0, 1, 1, 0, 0, 0],
    );
    add(
        "begin while.true if.true while.true push.2 drop end else push.3 drop end end end",
        &[0],
    );
    add(
        "proc.foo push.3 push.4 add drop end begin push.2 drop call.foo push.5 drop call.foo end",
        &[],
    );
    add(
        "proc.foo if.true push.3 drop else while.true push.4 drop end end end begin call.foo call.foo exec.foo end",
        &[1, 0, 1, 1, 0, 0, 0],
    );
    add(
        "proc.bar repeat.10 push.9 drop end end proc.foo call.bar while.true call.bar end end begin call.foo end",
        &[1, 1, 0],
    );
    v
}
