//! [adapted for /verif from the demo of the third C02 sub-agent: FAILCASE / SUMMARY lines, DEMO_SPEC_STEP to thin out the program family]
//! C02 demonstration: a proof binds to its statement; altered statements or proofs are rejected.
//!
//! Proves a family of programs once each, checks that the honest statement verifies, and then
//! requires `verify()` to return an error for every single-field alteration of the statement and
//! for a large set of alterations of the serialised proof, plus for proofs which were honestly
//! generated with proving parameters outside the documented accepted sets.
//!
//! Prints PASS / FAIL and exits non-zero on FAIL.

use miden::{
    math::{Felt, StarkField},
    prove, verify, Assembler, DefaultHost, Digest, ExecutionProof, HashFunction, Kernel, Program,
    ProgramInfo, ProvingOptions, StackInputs, StackOutputs,
};
use std::{
    cell::RefCell,
    collections::BTreeMap,
    panic::{self, AssertUnwindSafe},
    sync::{
        atomic::{AtomicUsize, Ordering},
        Mutex,
    },
    time::Instant,
};
use vm_core::utils::Serializable;
use winter_air::{FieldExtension, ProofOptions};

// PRESETS
// ================================================================================================

#[derive(Clone, Copy, Debug, PartialEq, Eq)]
enum Preset {
    Default96,
    Recursive96,
    Regular128,
    Recursive128,
}

const PRESETS: [Preset; 4] =
    [Preset::Default96, Preset::Recursive96, Preset::Regular128, Preset::Recursive128];

impl Preset {
    fn name(&self) -> &'static str {
        match self {
            Preset::Default96 => "default(96-bit,blake3_192)",
            Preset::Recursive96 => "96-bit-recursive(rpo)",
            Preset::Regular128 => "128-bit(blake3_256)",
            Preset::Recursive128 => "128-bit-recursive(rpo)",
        }
    }
    fn options(&self) -> ProvingOptions {
        match self {
            Preset::Default96 => ProvingOptions::default(),
            Preset::Recursive96 => ProvingOptions::with_96_bit_security(true),
            Preset::Regular128 => ProvingOptions::with_128_bit_security(false),
            Preset::Recursive128 => ProvingOptions::with_128_bit_security(true),
        }
    }
    fn winter(&self) -> ProofOptions {
        match self {
            Preset::Default96 => ProvingOptions::REGULAR_96_BITS,
            Preset::Recursive96 => ProvingOptions::RECURSIVE_96_BITS,
            Preset::Regular128 => ProvingOptions::REGULAR_128_BITS,
            Preset::Recursive128 => ProvingOptions::RECURSIVE_128_BITS,
        }
    }
    fn hash_fn(&self) -> HashFunction {
        self.options().hash_fn()
    }
}

// RESULT COLLECTION
// ================================================================================================

#[derive(Debug)]
enum Outcome {
    Rejected(String),
    Accepted(u32),
    Panic(String),
}

thread_local! {
    static LAST_PANIC: RefCell<Option<String>> = const { RefCell::new(None) };
}

#[derive(Default)]
struct Report {
    /// category -> (checked, rejected)
    counts: BTreeMap<String, (usize, usize)>,
    skipped_identical: usize,
    failures: Vec<String>,
    /// known header panic (message @ location) -> (count, first example)
    known_panics: BTreeMap<String, (usize, String)>,
    /// informational probes which are excluded from the verdict
    info: Vec<String>,
    /// error returned for rejected alterations (digits normalised) -> count
    rejections: BTreeMap<String, usize>,
}

static REPORT: Mutex<Option<Report>> = Mutex::new(None);

fn with_report<R>(f: impl FnOnce(&mut Report) -> R) -> R {
    let mut guard = REPORT.lock().unwrap_or_else(|e| e.into_inner());
    f(guard.as_mut().expect("report initialised"))
}

/// Runs `f` under catch_unwind and classifies the result.
fn run(f: impl FnOnce() -> Result<u32, String>) -> Outcome {
    LAST_PANIC.with(|p| *p.borrow_mut() = None);
    match panic::catch_unwind(AssertUnwindSafe(f)) {
        Ok(Ok(level)) => Outcome::Accepted(level),
        Ok(Err(err)) => Outcome::Rejected(err),
        Err(_) => {
            let msg = LAST_PANIC
                .with(|p| p.borrow_mut().take())
                .unwrap_or_else(|| "<panic without message>".to_string());
            Outcome::Panic(msg)
        }
    }
}

/// A panic is one of the already-reported ones when it is raised by an asserting constructor
/// inside the winter-air crate while the (corrupted) proof header is processed.
fn is_known_header_panic(msg: &str) -> bool {
    msg.contains("/winter-air-")
}

/// Records the outcome of an alteration which must be rejected.
fn must_reject(case: &str, category: &str, alteration: &str, proof_bytes_altered: bool, out: Outcome) {
    with_report(|r| {
        let entry = r.counts.entry(category.to_string()).or_insert((0, 0));
        entry.0 += 1;
        match out {
            Outcome::Rejected(err) => {
                entry.1 += 1;
                let mut key: String = err
                    .chars()
                    .map(|c| if c.is_ascii_digit() { '#' } else { c })
                    .take(90)
                    .collect();
                while key.contains("##") {
                    key = key.replace("##", "#");
                }
                *r.rejections.entry(key).or_insert(0) += 1;
            }
            Outcome::Accepted(level) => r.failures.push(format!(
                "FAIL [{case}] {category}: {alteration} -> verify() returned Ok({level})"
            )),
            Outcome::Panic(msg) => {
                if proof_bytes_altered && is_known_header_panic(&msg) {
                    let e = r
                        .known_panics
                        .entry(msg)
                        .or_insert((0, format!("[{case}] {category}: {alteration}")));
                    e.0 += 1;
                } else {
                    r.failures.push(format!(
                        "FAIL [{case}] {category}: {alteration} -> PANIC: {msg}"
                    ));
                }
            }
        }
    });
}

// CASES
// ================================================================================================

struct Case {
    name: String,
    preset: Preset,
    info: ProgramInfo,
    /// stack inputs in the order expected by `StackInputs::new` (last element = top of stack)
    inputs: Vec<Felt>,
    outputs: StackOutputs,
    proof_bytes: Vec<u8>,
}

const KERNELS: [(usize, &str); 3] = [
    (0, ""),
    (1, "export.k0 push.7 add end"),
    (3, "export.k0 push.7 add end export.k1 push.3 mul end export.k2 swap end"),
];
const NUM_INPUTS: [usize; 6] = [0, 1, 5, 16, 17, 24];
const FINAL_DEPTHS: [usize; 4] = [16, 17, 20, 33];

fn program_source(num_kernel_procs: usize, num_inputs: usize, final_depth: usize) -> String {
    let mut src = String::from("begin\n");
    for k in 0..num_kernel_procs {
        src.push_str(&format!("  syscall.k{k}\n"));
    }
    let start = num_inputs.max(16);
    if final_depth > start {
        for j in 0..(final_depth - start) {
            src.push_str(&format!("  push.{}\n", 100 + j));
        }
    } else {
        for _ in 0..(start - final_depth) {
            src.push_str("  drop\n");
        }
    }
    src.push_str("  push.5 add swap\nend\n");
    src
}

fn input_values(num_inputs: usize) -> Vec<Felt> {
    // deepest element (index 0) is zero so that a removable "trailing zero" exists
    (0..num_inputs).map(|i| Felt::new(3 * i as u64)).collect()
}

fn compile(kernel_src: &str, src: &str) -> Program {
    let assembler = if kernel_src.is_empty() {
        Assembler::default()
    } else {
        Assembler::default().with_kernel(kernel_src).expect("kernel must compile")
    };
    assembler.compile(src).expect("program must compile")
}

fn build_case(
    name: String,
    kernel_src: &str,
    src: &str,
    inputs: Vec<Felt>,
    preset: Preset,
) -> Case {
    let program = compile(kernel_src, src);
    let (outputs, proof) = prove(
        &program,
        StackInputs::new(inputs.clone()),
        DefaultHost::default(),
        preset.options(),
    )
    .unwrap_or_else(|e| panic!("proving {name} failed: {e}"));
    let info = ProgramInfo::from(program);
    Case {
        name,
        preset,
        info,
        inputs,
        outputs,
        proof_bytes: proof.to_bytes(),
    }
}

// VERIFICATION HELPERS
// ================================================================================================

fn verify_bytes(
    info: &ProgramInfo,
    inputs: &[Felt],
    outputs: &StackOutputs,
    proof_bytes: &[u8],
) -> Result<u32, String> {
    let proof =
        ExecutionProof::from_bytes(proof_bytes).map_err(|e| format!("from_bytes: {e}"))?;
    verify(info.clone(), StackInputs::new(inputs.to_vec()), outputs.clone(), proof)
        .map_err(|e| format!("verify: {e}"))
}

struct Statement {
    info: ProgramInfo,
    inputs: Vec<Felt>,
    outputs: StackOutputs,
}

/// Checks one alteration of the statement against the honest proof of `case`.
fn check_statement(
    case: &Case,
    category: &str,
    alteration: String,
    build: impl FnOnce() -> Result<Statement, String>,
) {
    let mut identical = false;
    let out = run(|| {
        let stmt = build().map_err(|e| format!("constructor: {e}"))?;
        if stmt.info == case.info && stmt.inputs == case.inputs && stmt.outputs == case.outputs {
            identical = true;
            return Err("identical".into());
        }
        verify_bytes(&stmt.info, &stmt.inputs, &stmt.outputs, &case.proof_bytes)
    });
    if identical {
        with_report(|r| r.skipped_identical += 1);
        return;
    }
    must_reject(&case.name, category, &alteration, false, out);
}

fn honest(case: &Case) -> Statement {
    Statement {
        info: case.info.clone(),
        inputs: case.inputs.clone(),
        outputs: case.outputs.clone(),
    }
}

fn bump(v: Felt) -> Felt {
    v + Felt::new(1)
}

fn bump_u64(v: u64) -> u64 {
    (Felt::new(v) + Felt::new(1)).as_int()
}

// STATEMENT ALTERATIONS
// ================================================================================================

fn alter_inputs(case: &Case) {
    let cat = "stack inputs";
    let n = case.inputs.len();
    let with_inputs = |inputs: Vec<Felt>| -> Result<Statement, String> {
        Ok(Statement { inputs, ..honest(case) })
    };
    // index 0 is the deepest element, index n-1 is the top of the stack
    for i in 0..n {
        let mut v = case.inputs.clone();
        v[i] = bump(v[i]);
        check_statement(case, cat, format!("input[{i}] (depth {}) + 1", n - 1 - i), || with_inputs(v));

        let mut v = case.inputs.clone();
        v[i] = Felt::new(0);
        check_statement(case, cat, format!("input[{i}] (depth {}) := 0", n - 1 - i), || with_inputs(v));

        if i + 1 < n {
            let mut v = case.inputs.clone();
            v.swap(i, i + 1);
            check_statement(case, cat, format!("input[{i}] <-> input[{}]", i + 1), || with_inputs(v));
        }
    }
    for (label, val) in [("zero", 0u64), ("non-zero (9)", 9u64)] {
        let mut v = case.inputs.clone();
        v.insert(0, Felt::new(val));
        check_statement(case, cat, format!("{label} element appended below the deepest input"), || with_inputs(v));

        let mut v = case.inputs.clone();
        v.push(Felt::new(val));
        check_statement(case, cat, format!("{label} element appended on top of the inputs"), || with_inputs(v));
    }
    if n > 0 {
        let mut v = case.inputs.clone();
        let removed = v.remove(0);
        check_statement(case, cat, format!("deepest (trailing) input removed (value {removed})"), || with_inputs(v));

        let mut v = case.inputs.clone();
        let removed = v.pop().unwrap();
        check_statement(case, cat, format!("top input removed (value {removed})"), || with_inputs(v));
    }
    if n > 16 {
        let v = case.inputs[n - 16..].to_vec();
        check_statement(case, cat, "all inputs deeper than 16 removed".into(), || with_inputs(v));
    }
}

fn alter_outputs(case: &Case) {
    let stack = case.outputs.stack().to_vec();
    let addrs = case.outputs.overflow_addrs().to_vec();
    let with_outputs = |stack: Vec<u64>, addrs: Vec<u64>| -> Result<Statement, String> {
        let outputs = StackOutputs::new(stack, addrs).map_err(|e| format!("{e}"))?;
        Ok(Statement { outputs, ..honest(case) })
    };
    let cat_of = |i: usize| if i < 16 { "stack outputs 0..15" } else { "overflow output elements" };

    for i in 0..stack.len() {
        let mut s = stack.clone();
        s[i] = bump_u64(s[i]);
        check_statement(case, cat_of(i), format!("output[{i}] + 1"), || with_outputs(s, addrs.clone()));

        let mut s = stack.clone();
        s[i] = 0;
        check_statement(case, cat_of(i), format!("output[{i}] := 0"), || with_outputs(s, addrs.clone()));

        if i + 1 < stack.len() {
            let mut s = stack.clone();
            s.swap(i, i + 1);
            check_statement(case, cat_of(i), format!("output[{i}] <-> output[{}]", i + 1), || with_outputs(s, addrs.clone()));
        }
    }

    let cat = "overflow addresses";
    for j in 0..addrs.len() {
        let mut a = addrs.clone();
        a[j] = bump_u64(a[j]);
        check_statement(case, cat, format!("overflow_addr[{j}] + 1"), || with_outputs(stack.clone(), a));

        let mut a = addrs.clone();
        a[j] = 0;
        check_statement(case, cat, format!("overflow_addr[{j}] := 0"), || with_outputs(stack.clone(), a));

        let mut a = addrs.clone();
        a[j] = a[j].wrapping_sub(1).min(Felt::MODULUS - 1);
        check_statement(case, cat, format!("overflow_addr[{j}] - 1"), || with_outputs(stack.clone(), a));

        if j + 1 < addrs.len() {
            let mut a = addrs.clone();
            a.swap(j, j + 1);
            check_statement(case, cat, format!("overflow_addr[{j}] <-> overflow_addr[{}]", j + 1), || with_outputs(stack.clone(), a));
        }
    }

    let cat = "overflow list lengthened / shortened";
    for val in [0u64, 7] {
        for extra_addr in [0u64, 1, addrs.last().copied().unwrap_or(0) + 1] {
            // new deepest element
            let mut s = stack.clone();
            s.push(val);
            let mut a = addrs.clone();
            if a.is_empty() {
                a = vec![0, extra_addr];
            } else {
                a.push(extra_addr);
            }
            check_statement(case, cat, format!("element {val} appended at the bottom, overflow addrs extended with {extra_addr}"), || with_outputs(s, a));

            // new element right below the top 16
            let mut s = stack.clone();
            s.insert(16, val);
            let mut a = addrs.clone();
            if a.is_empty() {
                a = vec![0, extra_addr];
            } else {
                a.insert(1, extra_addr);
            }
            check_statement(case, cat, format!("element {val} inserted at position 16, overflow addr {extra_addr} inserted at 1"), || with_outputs(s, a));
        }
    }
    if stack.len() > 16 {
        let shorten = |s_idx: usize, a_idx: usize| {
            let mut s = stack.clone();
            s.remove(s_idx);
            let mut a = addrs.clone();
            a.remove(a_idx);
            if s.len() == 16 {
                a.clear();
            }
            (s, a)
        };
        let last_s = stack.len() - 1;
        let last_a = addrs.len() - 1;
        for (s_idx, a_idx) in [(last_s, last_a), (last_s, 1), (last_s, 0), (16, last_a), (16, 1), (16, 0)] {
            let (s, a) = shorten(s_idx, a_idx);
            check_statement(case, cat, format!("output[{s_idx}] and overflow_addr[{a_idx}] removed"), || with_outputs(s, a));
        }
        check_statement(case, cat, "all overflow outputs and addresses removed".into(), || with_outputs(stack[..16].to_vec(), vec![]));
    }
    // inconsistent lengths must be rejected (by the constructor)
    let mut s = stack.clone();
    s.push(0);
    check_statement(case, cat, "zero element appended without an overflow address".into(), || with_outputs(s, addrs.clone()));
    let mut a = addrs.clone();
    a.push(0);
    check_statement(case, cat, "overflow address 0 appended without an element".into(), || with_outputs(stack.clone(), a));
    if !addrs.is_empty() {
        let mut a = addrs.clone();
        a.pop();
        check_statement(case, cat, "last overflow address removed without removing an element".into(), || with_outputs(stack.clone(), a));
    }
}

fn digest_bumped(d: &Digest, elem: usize) -> Digest {
    let mut e: [Felt; 4] = d.as_elements().try_into().unwrap();
    e[elem] = bump(e[elem]);
    Digest::new(e)
}

fn alter_program_info(case: &Case, other_kernels: &[Kernel], other_hash: Digest) {
    let hash = *case.info.program_hash();
    let kernel = case.info.kernel().clone();
    let procs = kernel.proc_hashes().to_vec();
    let with_info = |hash: Digest, procs: Vec<Digest>| -> Result<Statement, String> {
        let kernel = Kernel::new(&procs).map_err(|e| format!("{e}"))?;
        Ok(Statement { info: ProgramInfo::new(hash, kernel), ..honest(case) })
    };

    let cat = "program hash";
    for e in 0..4 {
        check_statement(case, cat, format!("program_hash[{e}] + 1"), || with_info(digest_bumped(&hash, e), procs.clone()));
    }
    check_statement(case, cat, "program hash of another program".into(), || with_info(other_hash, procs.clone()));
    let rev: [Felt; 4] = {
        let mut e: [Felt; 4] = hash.as_elements().try_into().unwrap();
        e.reverse();
        e
    };
    check_statement(case, cat, "program hash elements reversed".into(), || with_info(Digest::new(rev), procs.clone()));

    let cat = "kernel procedure hashes";
    for i in 0..procs.len() {
        for e in 0..4 {
            let mut p = procs.clone();
            p[i] = digest_bumped(&p[i], e);
            check_statement(case, cat, format!("kernel_proc[{i}][{e}] + 1"), || with_info(hash, p));
        }
        let mut p = procs.clone();
        p.remove(i);
        check_statement(case, cat, format!("kernel_proc[{i}] removed"), || with_info(hash, p));

        let mut p = procs.clone();
        p.push(procs[i]);
        check_statement(case, cat, format!("kernel_proc[{i}] duplicated"), || with_info(hash, p));
    }
    let fresh = [
        Digest::new([Felt::new(1), Felt::new(2), Felt::new(3), Felt::new(4)]),
        Digest::new([Felt::new(0); 4]),
        hash,
    ];
    for (i, d) in fresh.iter().enumerate() {
        let mut p = procs.clone();
        p.push(*d);
        check_statement(case, cat, format!("kernel procedure added (variant {i})"), || with_info(hash, p));
    }
    if procs.len() > 1 {
        // Kernel::new sorts the hashes, so this is expected to be the identical statement
        let mut p = procs.clone();
        p.reverse();
        check_statement(case, cat, "kernel procedures reordered (reversed)".into(), || with_info(hash, p));
    }
    let cat = "whole kernel swapped";
    for (i, other) in other_kernels.iter().enumerate() {
        let p = other.proc_hashes().to_vec();
        check_statement(case, cat, format!("kernel replaced by kernel #{i} ({} procs)", p.len()), || with_info(hash, p));
    }
}

/// Informational probe, excluded from the verdict: `StackOutputs::stack_mut()` allows storing a
/// non-canonical u64 (v + p) which denotes the same field element.
fn probe_non_canonical_output(case: &Case) {
    let mut outputs = case.outputs.clone();
    let v = outputs.stack()[0];
    if let Some(alias) = v.checked_add(Felt::MODULUS) {
        outputs.stack_mut()[0] = alias;
        let out = run(|| verify_bytes(&case.info, &case.inputs, &outputs, &case.proof_bytes));
        if let Outcome::Accepted(_) = out {
            with_report(|r| {
                if r.info.len() < 3 {
                    r.info.push(format!(
                        "INFO (excluded from verdict) [{}] output[0] set through stack_mut() to the non-canonical u64 {alias} (= {v} + p, same field element) -> {out:?}",
                        case.name
                    ))
                }
            });
        }
    }
}

// PROOF ALTERATIONS
// ================================================================================================

fn find_subslice(haystack: &[u8], needle: &[u8]) -> Option<usize> {
    haystack.windows(needle.len()).position(|w| w == needle)
}

fn weaker_options(o: &ProofOptions) -> Vec<(String, ProofOptions)> {
    let fri = o.to_fri_options();
    let mk = |q: usize, b: usize, g: u32| {
        ProofOptions::new(q, b, g, o.field_extension(), fri.folding_factor(), fri.remainder_max_degree())
    };
    let (q, b, g) = (o.num_queries(), o.blowup_factor(), o.grinding_factor());
    vec![
        (format!("fewer queries ({} -> {})", q, q - 7), mk(q - 7, b, g)),
        ("one query".to_string(), mk(1, b, g)),
        (format!("lower grinding ({g} -> 0)"), mk(q, b, 0)),
        (format!("smaller blowup ({b} -> {})", b / 2), mk(q, b / 2, g)),
        ("fewer queries, no grinding, smaller blowup".to_string(), mk(q - 7, b / 2, 0)),
        (
            "no field extension".to_string(),
            ProofOptions::new(q, b, g, FieldExtension::None, fri.folding_factor(), fri.remainder_max_degree()),
        ),
    ]
}

fn alter_proof(case: &Case) {
    let bytes = &case.proof_bytes;
    let len = bytes.len();
    let check = |category: &str, alteration: String, altered: Vec<u8>| {
        let out = run(|| verify_bytes(&case.info, &case.inputs, &case.outputs, &altered));
        must_reject(&case.name, category, &alteration, true, out);
    };

    // --- hash function tag ----------------------------------------------------------------------
    for tag in 0..=255u8 {
        if tag == bytes[0] {
            continue;
        }
        let mut b = bytes.clone();
        b[0] = tag;
        check("hash-function tag relabelled", format!("tag {:#04x} -> {tag:#04x}", bytes[0]), b);
    }

    // --- proof options ---------------------------------------------------------------------------
    let own = case.preset.winter().to_bytes();
    let opt_off = find_subslice(&bytes[..200.min(len)], &own)
        .expect("serialised proof options must be found in the proof header");
    for (label, weaker) in weaker_options(&case.preset.winter()) {
        let mut b = bytes.clone();
        b[opt_off..opt_off + own.len()].copy_from_slice(&weaker.to_bytes());
        check("proof options bytes replaced by weaker ones (tag kept)", label, b);
    }
    for other in PRESETS.iter().filter(|p| **p != case.preset) {
        let mut b = bytes.clone();
        b[opt_off..opt_off + own.len()].copy_from_slice(&other.winter().to_bytes());
        check(
            "proof options bytes replaced by another preset's (tag kept)",
            format!("options of {}", other.name()),
            b.clone(),
        );
        b[0] = other.hash_fn() as u8;
        check(
            "proof of one preset presented as another (tag and options)",
            format!("presented as {}", other.name()),
            b,
        );
    }

    // --- truncation / extension -----------------------------------------------------------------
    let mut offsets = vec![0, 1, 2, 3, 4, len - 2, len - 1];
    let extra = 50 - offsets.len();
    for k in 0..extra {
        offsets.push(5 + k * (len - 8) / extra);
    }
    for off in offsets {
        check("proof truncated", format!("truncated to {off} of {len} bytes"), bytes[..off].to_vec());
    }
    for extra in [vec![0u8], vec![0xff], vec![0u8; 32]] {
        let mut b = bytes.clone();
        b.extend_from_slice(&extra);
        check("proof extended", format!("{} byte(s) appended", extra.len()), b);
    }

    // --- bit flips -------------------------------------------------------------------------------
    let head = 200.min(len);
    for off in 0..head {
        let mut b = bytes.clone();
        b[off] ^= 1 << (off % 8);
        check("bit flip (first 200 bytes)", format!("bit {} of byte {off}", off % 8), b);
    }
    let spread = 1800;
    for k in 0..spread {
        let off = head + k * (len - head) / spread;
        let bit = (k * 5 + 3) % 8;
        let mut b = bytes.clone();
        b[off] ^= 1 << bit;
        check("bit flip (spread over the proof)", format!("bit {bit} of byte {off} (of {len})"), b);
    }
}

// PROOFS GENERATED WITH PARAMETERS OUTSIDE THE ACCEPTED SETS
// ================================================================================================

fn hash_fn_name(h: HashFunction) -> &'static str {
    match h {
        HashFunction::Blake3_192 => "Blake3_192",
        HashFunction::Blake3_256 => "Blake3_256",
        HashFunction::Rpo256 => "Rpo256",
    }
}

fn is_documented_combination(h: HashFunction, o: &ProofOptions) -> bool {
    PRESETS.iter().any(|p| p.hash_fn() == h && p.winter() == *o)
}

fn off_set_parameter_sets() -> Vec<(String, ProofOptions)> {
    use FieldExtension::*;
    let mut sets: Vec<(String, ProofOptions)> = vec![
        ("REGULAR_96_BITS".into(), ProvingOptions::REGULAR_96_BITS),
        ("RECURSIVE_96_BITS".into(), ProvingOptions::RECURSIVE_96_BITS),
        ("REGULAR_128_BITS".into(), ProvingOptions::REGULAR_128_BITS),
        ("RECURSIVE_128_BITS".into(), ProvingOptions::RECURSIVE_128_BITS),
    ];
    let custom = [
        ("regular 96-bit with 20 queries", (20, 8, 16, Quadratic, 8, 255)),
        ("regular 96-bit without grinding", (27, 8, 0, Quadratic, 8, 255)),
        ("regular 128-bit with blowup 8", (27, 8, 21, Cubic, 8, 255)),
        ("regular 128-bit with 20 queries", (20, 16, 21, Cubic, 8, 255)),
        ("regular 128-bit with quadratic extension", (27, 16, 21, Quadratic, 8, 255)),
        ("recursive 96-bit with 20 queries", (20, 8, 16, Quadratic, 4, 7)),
        ("recursive 128-bit without grinding", (27, 16, 0, Cubic, 4, 7)),
    ];
    for (name, (q, b, g, e, f, r)) in custom {
        sets.push((name.into(), ProofOptions::new(q, b, g, e, f, r)));
    }
    sets
}

struct OffSetJob {
    program_name: &'static str,
    kernel_src: &'static str,
    src: String,
    inputs: Vec<Felt>,
    hash_fn: HashFunction,
    set_name: String,
    set: ProofOptions,
}

fn run_off_set_job(job: &OffSetJob) {
    let fri = job.set.to_fri_options();
    let options = ProvingOptions::new(
        job.set.num_queries(),
        job.set.blowup_factor(),
        job.set.grinding_factor(),
        job.set.field_extension(),
        fri.folding_factor(),
        fri.remainder_max_degree(),
        job.hash_fn,
    );
    let label = format!(
        "proof generated with {} + {} (queries {}, blowup {}, grinding {}, ext {:?}, fri {}/{})",
        hash_fn_name(job.hash_fn),
        job.set_name,
        job.set.num_queries(),
        job.set.blowup_factor(),
        job.set.grinding_factor(),
        job.set.field_extension(),
        fri.folding_factor(),
        fri.remainder_max_degree()
    );
    let program = compile(job.kernel_src, &job.src);
    let proved = panic::catch_unwind(AssertUnwindSafe(|| {
        prove(&program, StackInputs::new(job.inputs.clone()), DefaultHost::default(), options)
    }));
    let (outputs, proof) = match proved {
        Ok(Ok(r)) => r,
        _ => {
            with_report(|r| r.info.push(format!("INFO [{}] could not generate: {label}", job.program_name)));
            return;
        }
    };
    let info = ProgramInfo::from(program);
    let bytes = proof.to_bytes();
    let out = run(|| verify_bytes(&info, &job.inputs, &outputs, &bytes));
    if is_documented_combination(job.hash_fn, &job.set) {
        match out {
            Outcome::Accepted(_) => with_report(|r| {
                let e = r.counts.entry("honest statement verifies (documented parameter set)".into()).or_insert((0, 0));
                e.0 += 1;
                e.1 += 1;
            }),
            other => with_report(|r| {
                r.failures.push(format!("FAIL [{}] honest {label} -> {other:?}", job.program_name))
            }),
        }
    } else {
        must_reject(
            job.program_name,
            "honest proof generated with parameters outside the accepted sets",
            &label,
            false,
            out,
        );
    }
}

// MAIN
// ================================================================================================

fn parallel<T: Sync>(items: &[T], threads: usize, f: impl Fn(&T) + Sync) {
    let next = AtomicUsize::new(0);
    std::thread::scope(|s| {
        for _ in 0..threads {
            std::thread::Builder::new()
                .stack_size(64 << 20)
                .spawn_scoped(s, || loop {
                    let i = next.fetch_add(1, Ordering::SeqCst);
                    if i >= items.len() {
                        break;
                    }
                    f(&items[i]);
                })
                .expect("thread spawn");
        }
    });
}

fn main() {
    let threads: usize = std::env::var("DEMO_THREADS").ok().and_then(|v| v.parse().ok()).unwrap_or(6);
    *REPORT.lock().unwrap() = Some(Report::default());
    panic::set_hook(Box::new(|info| {
        let msg = if let Some(s) = info.payload().downcast_ref::<&str>() {
            s.to_string()
        } else if let Some(s) = info.payload().downcast_ref::<String>() {
            s.clone()
        } else {
            "<non-string panic payload>".to_string()
        };
        let loc = info
            .location()
            .map(|l| format!("{}:{}", l.file(), l.line()))
            .unwrap_or_else(|| "<unknown location>".into());
        LAST_PANIC.with(|p| *p.borrow_mut() = Some(format!("{msg} @ {loc}")));
    }));

    let start = Instant::now();

    // --- phase 1: prove the family ---------------------------------------------------------------
    struct Spec {
        name: String,
        kernel_src: &'static str,
        src: String,
        inputs: Vec<Felt>,
        preset: Preset,
    }
    let mut specs = Vec::new();
    for (ki, (nk, ksrc)) in KERNELS.iter().enumerate() {
        for (ni, n) in NUM_INPUTS.iter().enumerate() {
            for (di, d) in FINAL_DEPTHS.iter().enumerate() {
                let preset = PRESETS[(ki + ni + di) % 4];
                specs.push(Spec {
                    name: format!(
                        "kernel_procs={nk} inputs={n} final_depth={d} preset={}",
                        preset.name()
                    ),
                    kernel_src: ksrc,
                    src: program_source(*nk, *n, *d),
                    inputs: input_values(*n),
                    preset,
                });
            }
        }
    }
    let step: usize = std::env::var("DEMO_SPEC_STEP").ok().and_then(|v| v.parse().ok()).unwrap_or(1).max(1);
    let specs: Vec<Spec> = specs.into_iter().enumerate().filter(|(i, _)| i % step == 0).map(|(_, s)| s).collect();
    let cases: Mutex<Vec<Case>> = Mutex::new(Vec::new());
    parallel(&specs, threads, |s| {
        let case = build_case(s.name.clone(), s.kernel_src, &s.src, s.inputs.clone(), s.preset);
        cases.lock().unwrap().push(case);
    });
    let mut cases = cases.into_inner().unwrap();
    cases.sort_by(|a, b| a.name.cmp(&b.name));
    println!(
        "proved {} programs in {:.1}s (proof sizes {}..{} bytes)",
        cases.len(),
        start.elapsed().as_secs_f64(),
        cases.iter().map(|c| c.proof_bytes.len()).min().unwrap(),
        cases.iter().map(|c| c.proof_bytes.len()).max().unwrap()
    );
    for p in PRESETS {
        println!("  preset {:32} used by {} programs", p.name(), cases.iter().filter(|c| c.preset == p).count());
    }

    // --- phase 2: honest statements must verify ----------------------------------------------------
    let mut honest_ok = true;
    for c in &cases {
        let out = run(|| verify_bytes(&c.info, &c.inputs, &c.outputs, &c.proof_bytes));
        match out {
            Outcome::Accepted(_) => {
                // the final stack depth and the overflow addresses exist as designed
                let depth = c.outputs.stack().len();
                assert!(c.name.contains(&format!("final_depth={depth} ")), "{}: depth {depth}", c.name);
                assert_eq!(c.outputs.overflow_addrs().len(), if depth > 16 { depth - 15 } else { 0 });
            }
            other => {
                honest_ok = false;
                with_report(|r| r.failures.push(format!("FAIL [{}] honest statement -> {other:?}", c.name)));
            }
        }
    }
    println!("honest statements verify: {}", if honest_ok { "yes" } else { "NO" });

    // --- phase 3: statement alterations ------------------------------------------------------------
    let all_kernels: Vec<Kernel> = {
        let mut ks = vec![Kernel::default()];
        for c in &cases {
            if !ks.contains(c.info.kernel()) {
                ks.push(c.info.kernel().clone());
            }
        }
        ks
    };
    parallel(&cases, threads, |c| {
        let other_kernels: Vec<Kernel> =
            all_kernels.iter().filter(|k| *k != c.info.kernel()).cloned().collect();
        let other_hash = cases
            .iter()
            .map(|o| *o.info.program_hash())
            .find(|h| h != c.info.program_hash())
            .unwrap();
        alter_inputs(c);
        alter_outputs(c);
        alter_program_info(c, &other_kernels, other_hash);
        probe_non_canonical_output(c);
    });
    println!("statement alterations done at {:.1}s", start.elapsed().as_secs_f64());

    // --- phase 4: proof alterations ----------------------------------------------------------------
    parallel(&cases, threads, alter_proof);
    println!("proof alterations done at {:.1}s", start.elapsed().as_secs_f64());

    // --- phase 5: honestly generated proofs with parameters outside the accepted sets ------------
    let mut jobs = Vec::new();
    let programs: [(&'static str, &'static str, String, Vec<Felt>); 2] = [
        ("off-set: no kernel, 1 input, depth 16", KERNELS[0].1, program_source(0, 1, 16), input_values(1)),
        ("off-set: 3 kernel procs, 17 inputs, depth 20", KERNELS[2].1, program_source(3, 17, 20), input_values(17)),
    ];
    for (pname, ksrc, src, inputs) in programs.iter() {
        for hash_fn in [HashFunction::Blake3_192, HashFunction::Blake3_256, HashFunction::Rpo256] {
            for (set_name, set) in off_set_parameter_sets() {
                jobs.push(OffSetJob {
                    program_name: pname,
                    kernel_src: ksrc,
                    src: src.clone(),
                    inputs: inputs.clone(),
                    hash_fn,
                    set_name,
                    set,
                });
            }
        }
    }
    parallel(&jobs, threads, run_off_set_job);
    println!("off-set parameter proofs done at {:.1}s", start.elapsed().as_secs_f64());

    // --- report ------------------------------------------------------------------------------------
    let _ = panic::take_hook();
    let report = REPORT.lock().unwrap().take().unwrap();
    println!("\n{:<72} {:>9} {:>9}", "category", "checked", "rejected");
    let mut total = (0, 0);
    for (cat, (checked, rejected)) in &report.counts {
        println!("{cat:<72} {checked:>9} {rejected:>9}");
        total.0 += checked;
        total.1 += rejected;
    }
    println!("{:<72} {:>9} {:>9}", "TOTAL", total.0, total.1);
    println!(
        "alterations skipped because they produce the identical statement (e.g. 0 := 0, swap of equal \
         neighbours, kernel reordering which Kernel::new undoes): {}",
        report.skipped_identical
    );

    println!("\nknown header panics of the unchanged code (winter-air constructors; listed, excluded from the verdict): {}",
        report.known_panics.values().map(|v| v.0).sum::<usize>());
    for (msg, (count, example)) in &report.known_panics {
        println!("  {count:>5} x {msg}\n          first seen: {example}");
    }
    println!("\nerrors returned for the rejected alterations (digits replaced by #):");
    let mut rej: Vec<_> = report.rejections.iter().collect();
    rej.sort_by(|a, b| b.1.cmp(a.1));
    for (msg, count) in rej.iter().take(40) {
        println!("  {count:>7} x {msg}");
    }
    if rej.len() > 40 {
        println!("  ... and {} more distinct messages", rej.len() - 40);
    }
    if !report.info.is_empty() {
        println!();
        for line in &report.info {
            println!("{line}");
        }
    }

    for f in report.failures.iter().take(60) {
        println!("FAILCASE {}", f.replace('\n', " | "));
    }
    println!("SUMMARY programs={} checked={} rejected={} failures={} known_header_panics={}", cases.len(), total.0, total.1, report.failures.len(),
        report.known_panics.values().map(|v| v.0).sum::<usize>());
    println!();
    if report.failures.is_empty() {
        println!("PASS: every alteration of the statement or of the proof was rejected with an error");
    } else {
        for f in &report.failures {
            println!("{f}");
        }
        println!("\nFAIL: {} alteration(s) were accepted or panicked", report.failures.len());
        std::process::exit(1);
    }
}
