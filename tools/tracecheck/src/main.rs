//! [adapted for /verif from the demo of the C03 sub-agent: FAILCASE / SUMMARY lines, DEMO_STEP to thin out the family]
//! C03 demo: honest execution traces satisfy the entire processor AIR.
//!
//! For a large generated family of programs this binary
//!   * executes the program with `processor::execute`,
//!   * instantiates `air::ProcessorAir` with the public inputs of that execution,
//!   * builds the auxiliary segment for several pseudo-random challenge vectors (quadratic
//!     extension) and runs winter-prover's `Trace::validate` under `catch_unwind`,
//!   * checks the trace-length clause directly (power of two, large enough for the executed
//!     cycles / range-checker table / chiplets plus the random row, minimal, and identical for the
//!     expected-cycle hints 0, 64, 2^10, 2^16).
//!
//! It prints PASS / FAIL and exits with a non-zero status on FAIL.

mod gen;

use air::{ExecutionOptions, Felt, ProcessorAir, ProvingOptions, PublicInputs};
use assembly::Assembler;
use processor::{
    crypto::MerkleStore, AdviceInputs, DefaultHost, ExecutionTrace, MemAdviceProvider, Program,
    StackInputs,
};
use std::{
    cell::RefCell,
    panic::{self, AssertUnwindSafe},
    sync::{
        atomic::{AtomicUsize, Ordering},
        Mutex,
    },
    time::Instant,
};
use winter_prover::{Air, AuxTraceRandElements, Trace};

pub type QuadFelt = vm_core::QuadExtension<Felt>;

// TEST CASE
// ================================================================================================

#[derive(Clone)]
pub struct Case {
    pub family: &'static str,
    pub name: String,
    pub source: String,
    pub kernel: Option<String>,
    /// operand stack inputs; the LAST value is the top of the stack
    pub stack: Vec<u64>,
    /// advice stack; the FIRST value is popped first
    pub adv_stack: Vec<u64>,
    pub store: Option<MerkleStore>,
    pub use_stdlib: bool,
    /// the inputs are outside of the documented domain of an instruction whose behaviour is
    /// documented as "undefined" for them; reported separately and excluded from the verdict
    pub ub: bool,
    /// the program triggers a defect which is already present in the UNCHANGED code base; it is
    /// reported separately and excluded from the verdict
    pub known: Option<&'static str>,
}

impl Case {
    pub fn new(family: &'static str, name: impl Into<String>, source: impl Into<String>) -> Self {
        Case {
            family,
            name: name.into(),
            source: source.into(),
            kernel: None,
            stack: vec![],
            adv_stack: vec![],
            store: None,
            use_stdlib: false,
            ub: false,
            known: None,
        }
    }
    pub fn stack(mut self, s: Vec<u64>) -> Self {
        self.stack = s;
        self
    }
    pub fn adv(mut self, s: Vec<u64>) -> Self {
        self.adv_stack = s;
        self
    }
    pub fn kernel(mut self, k: impl Into<String>) -> Self {
        self.kernel = Some(k.into());
        self
    }
    pub fn store(mut self, s: MerkleStore) -> Self {
        self.store = Some(s);
        self
    }
    pub fn stdlib(mut self) -> Self {
        self.use_stdlib = true;
        self
    }
    pub fn known(mut self, why: &'static str) -> Self {
        self.known = Some(why);
        self
    }
    pub fn ub(mut self, ub: bool) -> Self {
        self.ub = ub;
        self
    }
}

#[derive(Debug, Clone)]
pub enum Outcome {
    Pass { len: usize, clk: usize, range: usize, chiplets: usize },
    CompileError(String),
    ExecError(String),
    ExecPanic(String),
    Fail(String),
}

// PANIC CAPTURE
// ================================================================================================

thread_local! {
    static LAST_PANIC: RefCell<Option<String>> = RefCell::new(None);
}

fn install_panic_hook() {
    panic::set_hook(Box::new(|info| {
        let msg = format!("{info}");
        LAST_PANIC.with(|c| *c.borrow_mut() = Some(msg));
    }));
}

fn take_panic() -> String {
    LAST_PANIC
        .with(|c| c.borrow_mut().take())
        .unwrap_or_else(|| "<no panic message>".to_string())
}

// SMALL DETERMINISTIC RNG
// ================================================================================================

#[derive(Clone)]
pub struct Rng(pub u64);

impl Rng {
    pub fn next(&mut self) -> u64 {
        // splitmix64
        self.0 = self.0.wrapping_add(0x9E37_79B9_7F4A_7C15);
        let mut z = self.0;
        z = (z ^ (z >> 30)).wrapping_mul(0xBF58_476D_1CE4_E5B9);
        z = (z ^ (z >> 27)).wrapping_mul(0x94D0_49BB_1331_11EB);
        z ^ (z >> 31)
    }
    pub fn below(&mut self, n: u64) -> u64 {
        self.next() % n
    }
    pub fn pick<'a, T>(&mut self, xs: &'a [T]) -> &'a T {
        &xs[self.below(xs.len() as u64) as usize]
    }
    pub fn chance(&mut self, num: u64, den: u64) -> bool {
        self.below(den) < num
    }
}

// COMPILATION / EXECUTION
// ================================================================================================

pub fn compile(case: &Case) -> Result<Program, String> {
    let mut assembler = Assembler::default();
    if case.use_stdlib {
        assembler = assembler
            .with_library(&stdlib::StdLibrary::default())
            .map_err(|e| format!("stdlib: {e}"))?;
    }
    if let Some(kernel) = &case.kernel {
        assembler = assembler.with_kernel(kernel).map_err(|e| format!("kernel: {e}"))?;
    }
    assembler.compile(&case.source).map_err(|e| format!("{e}"))
}

pub enum ExecResult {
    Ok(ExecutionTrace),
    Err(String),
    Panic(String),
}

pub fn run_program(case: &Case, program: &Program, hint: u32) -> ExecResult {
    let stack_inputs = match StackInputs::try_from_values(case.stack.iter().copied()) {
        Ok(s) => s,
        Err(e) => return ExecResult::Err(format!("stack inputs: {e}")),
    };
    let mut advice = match AdviceInputs::default().with_stack_values(case.adv_stack.iter().copied())
    {
        Ok(a) => a,
        Err(e) => return ExecResult::Err(format!("advice inputs: {e}")),
    };
    if let Some(store) = &case.store {
        advice = advice.with_merkle_store(store.clone());
    }
    let host = DefaultHost::new(MemAdviceProvider::from(advice));
    let options = ExecutionOptions::new(None, hint, false).expect("execution options");
    let res = panic::catch_unwind(AssertUnwindSafe(|| {
        processor::execute(program, stack_inputs, host, options)
    }));
    match res {
        Ok(Ok(trace)) => ExecResult::Ok(trace),
        Ok(Err(e)) => ExecResult::Err(format!("{e}")),
        Err(_) => ExecResult::Panic(take_panic()),
    }
}

/// Cheap measurement used by the generators which tune programs to a particular length regime:
/// returns (cycles, range table length, chiplets length, trace length).
pub fn measure(case: &Case) -> Option<(usize, usize, usize, usize)> {
    let program = compile(case).ok()?;
    match run_program(case, &program, 64) {
        ExecResult::Ok(trace) => {
            let s = *trace.trace_len_summary();
            Some((
                s.main_trace_len(),
                s.range_trace_len(),
                s.chiplets_trace_len().trace_len(),
                trace.get_trace_len(),
            ))
        }
        _ => None,
    }
}

// THE CHECK
// ================================================================================================

const HINTS: [u32; 4] = [64, 0, 1 << 10, 1 << 16];

fn check_length_clause(trace: &ExecutionTrace) -> Result<(usize, usize, usize, usize), String> {
    let s = *trace.trace_len_summary();
    let len = trace.get_trace_len();
    let clk = s.main_trace_len();
    let range = s.range_trace_len();
    let chiplets = s.chiplets_trace_len().trace_len();
    let rand_rows = ExecutionTrace::NUM_RAND_ROWS;
    if trace.length() != len || trace.main_segment().num_rows() != len {
        return Err(format!(
            "inconsistent trace length: get_trace_len()={len}, Trace::length()={}, main segment rows={}",
            trace.length(),
            trace.main_segment().num_rows()
        ));
    }
    if !len.is_power_of_two() {
        return Err(format!("trace length {len} is not a power of two"));
    }
    if len < clk + 1 + rand_rows {
        return Err(format!(
            "trace length {len} does not accommodate {clk} cycles + 1 HALT row + {rand_rows} random row(s)"
        ));
    }
    if len < range + rand_rows {
        return Err(format!(
            "trace length {len} does not accommodate the range-checker table ({range} rows) + {rand_rows} random row(s)"
        ));
    }
    if len < chiplets + rand_rows {
        return Err(format!(
            "trace length {len} does not accommodate the chiplets ({chiplets} rows) + {rand_rows} random row(s)"
        ));
    }
    let needed = (clk + 1).max(range).max(chiplets) + rand_rows;
    let minimal = needed.next_power_of_two().max(air::trace::MIN_TRACE_LEN);
    if len != minimal {
        return Err(format!(
            "trace length {len} is not the smallest admissible power of two {minimal} (cycles={clk}, range={range}, chiplets={chiplets})"
        ));
    }
    Ok((len, clk, range, chiplets))
}

fn main_segments_equal(a: &ExecutionTrace, b: &ExecutionTrace) -> Result<(), String> {
    let (ma, mb) = (a.main_segment(), b.main_segment());
    if ma.num_cols() != mb.num_cols() || ma.num_rows() != mb.num_rows() {
        return Err("main segment dimensions differ".into());
    }
    for c in 0..ma.num_cols() {
        if ma.get_column(c) != mb.get_column(c) {
            let row = ma
                .get_column(c)
                .iter()
                .zip(mb.get_column(c).iter())
                .position(|(x, y)| x != y)
                .unwrap();
            return Err(format!("main segment differs in column {c}, row {row}"));
        }
    }
    Ok(())
}

fn validate(case: &Case, trace: &mut ExecutionTrace, rng: &mut Rng) -> Result<(), String> {
    let stack_inputs = StackInputs::try_from_values(case.stack.iter().copied()).unwrap();
    let len = trace.get_trace_len();
    let num_challenges = if len <= 1 << 12 {
        3
    } else if len <= 1 << 15 {
        2
    } else {
        2
    };
    let num_rand = trace.layout().get_aux_segment_rand_elements(0);
    for round in 0..num_challenges {
        let pub_inputs = PublicInputs::new(
            trace.program_info().clone(),
            stack_inputs.clone(),
            trace.stack_outputs().clone(),
        );
        let air = ProcessorAir::new(trace.get_info(), pub_inputs, ProvingOptions::default().into());
        let rand: Vec<QuadFelt> = (0..num_rand)
            .map(|_| QuadFelt::new(Felt::new(rng.next()), Felt::new(rng.next())))
            .collect();
        let res = panic::catch_unwind(AssertUnwindSafe(|| {
            let aux = trace
                .build_aux_segment::<QuadFelt>(&[], &rand)
                .expect("auxiliary segment was not built");
            if aux.num_rows() != trace.length() {
                panic!(
                    "auxiliary segment has {} rows but the main segment has {}",
                    aux.num_rows(),
                    trace.length()
                );
            }
            let mut aux_rand = AuxTraceRandElements::new();
            aux_rand.add_segment_elements(rand.clone());
            trace.validate::<ProcessorAir, QuadFelt>(&air, &[aux], &aux_rand);
        }));
        if res.is_err() {
            return Err(format!("challenge vector #{round}: {}", take_panic()));
        }
        let _ = air.trace_length();
    }
    Ok(())
}

pub fn run_case(case: &Case, seed: u64) -> Outcome {
    let program = match compile(case) {
        Ok(p) => p,
        Err(e) => return Outcome::CompileError(e),
    };
    let mut rng = Rng(seed ^ 0xC03C_03C0_3C03_C03C);

    // --- execution with the default hint ---------------------------------------------------------
    let mut trace0 = match run_program(case, &program, HINTS[0]) {
        ExecResult::Ok(t) => t,
        ExecResult::Err(e) => return Outcome::ExecError(e),
        ExecResult::Panic(p) => return Outcome::ExecPanic(p),
    };

    // --- trace length clause ---------------------------------------------------------------------
    let (len, clk, range, chiplets) = match check_length_clause(&trace0) {
        Ok(x) => x,
        Err(e) => return Outcome::Fail(format!("trace-length clause: {e}")),
    };

    // --- independence of the capacity hints --------------------------------------------------------
    for &hint in HINTS.iter().skip(1) {
        match run_program(case, &program, hint) {
            ExecResult::Ok(t) => {
                if t.get_trace_len() != len {
                    return Outcome::Fail(format!(
                        "trace-length clause: length {} with expected-cycles hint {hint} but {len} with hint {}",
                        t.get_trace_len(),
                        HINTS[0]
                    ));
                }
                if let Err(e) = check_length_clause(&t) {
                    return Outcome::Fail(format!("trace-length clause (hint {hint}): {e}"));
                }
                if let Err(e) = main_segments_equal(&trace0, &t) {
                    return Outcome::Fail(format!("hint {hint} changes the main segment: {e}"));
                }
                if t.stack_outputs() != trace0.stack_outputs() {
                    return Outcome::Fail(format!("hint {hint} changes the stack outputs"));
                }
            }
            ExecResult::Err(e) => {
                return Outcome::Fail(format!("execution fails only with hint {hint}: {e}"))
            }
            ExecResult::Panic(p) => {
                return Outcome::Fail(format!("execution panics only with hint {hint}: {p}"))
            }
        }
    }

    // --- the whole AIR ---------------------------------------------------------------------------
    match validate(case, &mut trace0, &mut rng) {
        Ok(()) => Outcome::Pass { len, clk, range, chiplets },
        Err(e) => Outcome::Fail(e),
    }
}

// REPORTING
// ================================================================================================

fn shorten(s: &str, max: usize) -> String {
    let s = s.split_whitespace().collect::<Vec<_>>().join(" ");
    if s.len() <= max {
        s
    } else {
        format!("{} ... [{} chars omitted] ... {}", &s[..max / 2], s.len() - max, &s[s.len() - max / 2..])
    }
}

fn describe(case: &Case) -> String {
    let mut out = String::new();
    out.push_str(&format!("    family : {}\n", case.family));
    out.push_str(&format!("    name   : {}\n", case.name));
    out.push_str(&format!("    program: {}\n", shorten(&case.source, 1800)));
    if let Some(k) = &case.kernel {
        out.push_str(&format!("    kernel : {}\n", shorten(k, 600)));
    }
    out.push_str(&format!("    stack inputs (last = top): {:?}\n", case.stack));
    if !case.adv_stack.is_empty() {
        out.push_str(&format!(
            "    advice stack ({} values): {}\n",
            case.adv_stack.len(),
            shorten(&format!("{:?}", case.adv_stack), 400)
        ));
    }
    if case.store.is_some() {
        out.push_str("    advice Merkle store: yes (see generator for the tree)\n");
    }
    out
}

fn main() {
    install_panic_hook();
    let start = Instant::now();
    let threads: usize = std::env::var("DEMO_THREADS").ok().and_then(|v| v.parse().ok()).unwrap_or(6);
    let filter = std::env::var("DEMO_FILTER").ok();
    let verbose = std::env::var("DEMO_VERBOSE").is_ok();

    println!("C03 demo: honest execution traces satisfy the entire AIR");
    println!("generating the program family ...");
    let mut cases = gen::all_cases();
    if let Some(f) = &filter {
        cases.retain(|c| c.family.contains(f.as_str()) || c.name.contains(f.as_str()));
    }
    let step: usize = std::env::var("DEMO_STEP").ok().and_then(|v| v.parse().ok()).unwrap_or(1).max(1);
    if step > 1 {
        // keep every step-th case, and every case the unchanged code is known to fail (so that a repair shows)
        let mut k = 0usize;
        cases.retain(|c| {
            k += 1;
            c.known.is_some() || c.family == "range-memory-coincidence" || (k - 1) % step == 0
        });
    }
    println!("{} programs generated in {:.1?}", cases.len(), start.elapsed());

    let next = AtomicUsize::new(0);
    let results: Mutex<Vec<(usize, Outcome)>> = Mutex::new(Vec::with_capacity(cases.len()));
    std::thread::scope(|scope| {
        for _ in 0..threads {
            scope.spawn(|| loop {
                let i = next.fetch_add(1, Ordering::SeqCst);
                if i >= cases.len() {
                    break;
                }
                let outcome = run_case(&cases[i], i as u64);
                if verbose {
                    eprintln!("[{i}] {} / {}: {:?}", cases[i].family, cases[i].name, outcome);
                }
                results.lock().unwrap().push((i, outcome));
            });
        }
    });
    let mut results = results.into_inner().unwrap();
    results.sort_by_key(|(i, _)| *i);

    // --- per family summary ---------------------------------------------------------------------
    let mut families: Vec<&'static str> = Vec::new();
    for c in &cases {
        if !families.contains(&c.family) {
            families.push(c.family);
        }
    }
    println!();
    println!(
        "{:<28} {:>7} {:>7} {:>7} {:>7} {:>7} {:>7} {:>9}",
        "family", "total", "pass", "fail", "excluded", "exec-err", "panic", "max-len"
    );
    let (mut tot_pass, mut tot_fail, mut _tot_excluded, mut tot_exec_err, mut tot_panic, mut tot_comp) =
        (0, 0, 0, 0, 0, 0);
    let mut dominated = (0usize, 0usize, 0usize); // by cycles, by range table, by chiplets
    for fam in &families {
        let (mut total, mut pass, mut fail, mut ubf, mut ee, mut pn, mut maxlen) = (0, 0, 0, 0, 0, 0, 0);
        for (i, o) in &results {
            let c = &cases[*i];
            if c.family != *fam {
                continue;
            }
            total += 1;
            match o {
                Outcome::Pass { len, clk, range, chiplets } => {
                    pass += 1;
                    maxlen = maxlen.max(*len);
                    if clk + 1 >= *range && clk + 1 >= *chiplets {
                        dominated.0 += 1;
                    } else if range >= chiplets {
                        dominated.1 += 1;
                    } else {
                        dominated.2 += 1;
                    }
                }
                Outcome::Fail(_) if c.ub || c.known.is_some() => ubf += 1,
                Outcome::Fail(_) => fail += 1,
                Outcome::ExecError(_) => ee += 1,
                Outcome::ExecPanic(_) => pn += 1,
                Outcome::CompileError(_) => tot_comp += 1,
            }
        }
        println!(
            "{:<28} {:>7} {:>7} {:>7} {:>7} {:>7} {:>7} {:>9}",
            fam, total, pass, fail, ubf, ee, pn, maxlen
        );
        tot_pass += pass;
        tot_fail += fail;
        _tot_excluded += ubf;
        tot_exec_err += ee;
        tot_panic += pn;
    }
    println!();
    println!(
        "validated traces: {tot_pass} ({} dominated by cycles, {} by the range-checker table, {} by the chiplets)",
        dominated.0, dominated.1, dominated.2
    );
    println!("executions which returned an error (not in the scope of the property): {tot_exec_err}");

    if std::env::var("DEMO_SHOW_ERRORS").is_ok() {
        println!();
        println!("execution errors (outside of single-instruction families):");
        for (i, o) in &results {
            if let Outcome::ExecError(e) = o {
                let c = &cases[*i];
                if c.family != "single-instruction" && c.family != "stack-manipulation" {
                    println!("  - {} / {}: {}", c.family, c.name, shorten(e, 200));
                    println!("      {}", shorten(&c.source, 400));
                }
            }
        }
    }

    if tot_comp > 0 {
        println!();
        println!("programs which did not compile (generator problem, not counted): {tot_comp}");
        for (i, o) in &results {
            if let Outcome::CompileError(e) = o {
                println!("  - {} / {}: {}", cases[*i].family, cases[*i].name, shorten(e, 300));
                println!("      {}", shorten(&cases[*i].source, 300));
            }
        }
    }

    if tot_panic > 0 {
        println!();
        println!(
            "executions which PANICKED instead of returning a result (no trace, so outside of C03; reported separately): {tot_panic}"
        );
        let mut shown = 0;
        for (i, o) in &results {
            if let Outcome::ExecPanic(p) = o {
                if shown < 25 {
                    println!("  - {} / {}: {}", cases[*i].family, cases[*i].name, shorten(p, 300));
                    println!("      program: {}", shorten(&cases[*i].source, 300));
                    println!("      stack inputs: {:?}", cases[*i].stack);
                }
                shown += 1;
            }
        }
        if shown > 25 {
            println!("  ... and {} more", shown - 25);
        }
    }

    let tot_ub_fail = results
        .iter()
        .filter(|(i, o)| matches!(o, Outcome::Fail(_)) && cases[*i].ub && cases[*i].known.is_none())
        .count();
    if tot_ub_fail > 0 {
        println!();
        println!(
            "validation failures on inputs for which the instruction's behaviour is documented as UNDEFINED \
             (operands >= 2^32 for u32 arithmetic; present in the unchanged code base, excluded from the verdict): {tot_ub_fail}"
        );
        let mut shown = 0;
        for (i, o) in &results {
            if let Outcome::Fail(msg) = o {
                if cases[*i].ub && cases[*i].known.is_none() {
                    if shown < 40 {
                        println!(
                            "  - {} | inputs {:?} | {}",
                            shorten(&cases[*i].source, 120),
                            cases[*i].stack,
                            shorten(msg, 200)
                        );
                    }
                    shown += 1;
                }
            }
        }
    }

    let known_failed: Vec<usize> = results
        .iter()
        .filter(|(i, o)| matches!(o, Outcome::Fail(_)) && cases[*i].known.is_some())
        .map(|(i, _)| *i)
        .collect();
    if !known_failed.is_empty() {
        println!();
        println!(
            "validation failures which are ALREADY PRESENT IN THE UNCHANGED CODE BASE (reported separately, excluded from the verdict): {}",
            known_failed.len()
        );
        for (i, o) in &results {
            if let (Outcome::Fail(msg), Some(why)) = (o, cases[*i].known) {
                println!("  * {why}");
                println!("    {msg}");
                print!("{}", describe(&cases[*i]));
            }
        }
    }

    // ---- machine-readable part (read by lib/bounded_tools.py: check_trace_validate) ----
    {
        let one = |s: &str| s.replace('\n', " | ");
        let mut shown = 0;
        for (i, o) in &results {
            if let Outcome::Fail(msg) = o {
                let c = &cases[*i];
                if c.ub || c.known.is_some() {
                    continue;
                }
                if shown < 200 {
                    println!("FAILCASE {} :: {} :: {} :: {}", c.family.replace(' ', "_"), one(&c.name), one(&shorten(msg, 300)), one(&describe(c)));
                }
                shown += 1;
            }
        }
        if tot_ub_fail > 0 {
            let first = results.iter().find(|(i, o)| matches!(o, Outcome::Fail(_)) && cases[*i].ub && cases[*i].known.is_none()).unwrap();
            if let Outcome::Fail(msg) = &first.1 {
                println!("FAILCASE undefined-u32 :: {} cases, first: {} :: u32 arithmetic on operands >= 2^32 (documented as undefined) completes, the trace violates the AIR: {} :: {}",
                    tot_ub_fail, one(&cases[first.0].name), one(&shorten(msg, 200)), one(&describe(&cases[first.0])));
            }
        }
        for (i, o) in &results {
            if let (Outcome::Fail(msg), Some(why)) = (o, cases[*i].known) {
                println!("FAILCASE known :: {} :: {} :: {}", one(why), one(&shorten(msg, 300)), one(&describe(&cases[*i])));
            }
        }
        println!("SUMMARY programs={} validated={} failures={} undefined_u32={} known={} exec_errors={} panics={}",
            cases.len(), tot_pass, tot_fail, tot_ub_fail, known_failed.len(), tot_exec_err, tot_panic);
    }
    println!();
    if tot_fail == 0 {
        println!(
            "PASS: all {tot_pass} successfully executed programs produced traces which satisfy every \
             transition constraint and boundary assertion of ProcessorAir for every tried challenge \
             vector, and the trace-length clause holds for every expected-cycle hint  [{:.1?}]",
            start.elapsed()
        );
    } else {
        println!("FAIL: {tot_fail} program(s) produced a trace which violates the AIR or the trace-length clause");
        let mut shown = 0;
        for (i, o) in &results {
            if let Outcome::Fail(msg) = o {
                if cases[*i].ub || cases[*i].known.is_some() {
                    continue;
                }
                if shown < 12 {
                    println!("  [{}] {}", shown + 1, msg);
                    print!("{}", describe(&cases[*i]));
                } else if shown < 200 {
                    println!("  [{}] {} / {}: {}", shown + 1, cases[*i].family, cases[*i].name, shorten(msg, 160));
                }
                shown += 1;
            }
        }
        if shown > 200 {
            println!("  ... and {} more", shown - 200);
        }
        println!("FAIL  [{:.1?}]", start.elapsed());
        std::process::exit(1);
    }
}
