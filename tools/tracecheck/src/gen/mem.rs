//! Memory access patterns: addresses x contexts x clock gaps.

use super::*;

/// A stack-neutral memory access at `addr`; `kind` selects the instruction form.
fn access(kind: u64, addr: u64, val: u64) -> String {
    match kind % 10 {
        0 => format!("push.{val} mem_store.{addr}"),
        1 => format!("mem_load.{addr} drop"),
        2 => format!("push.{val}.1.2.3 mem_storew.{addr} dropw"),
        3 => format!("padw mem_loadw.{addr} dropw"),
        4 => format!("push.{val} push.{addr} mem_store"),
        5 => format!("push.{addr} mem_load drop"),
        6 => format!("push.3.2.{val}.0 push.{addr} mem_storew dropw"),
        7 => format!("padw push.{addr} mem_loadw dropw"),
        8 => format!("push.{val} mem_store.{addr} mem_load.{addr} drop"),
        _ => format!("mem_load.{addr} push.{val} add mem_store.{addr}"),
    }
}

pub fn memory_contexts(out: &mut Vec<Case>) {
    let fam = "memory-contexts";
    let mut rng = Rng(0x3E3);
    // two contexts x two addresses: store / load / store / load
    for &c1 in &CTXS4 {
        for &c2 in &CTXS4 {
            for &a1 in &ADDRS {
                for &a2 in &ADDRS {
                    let k = rng.next();
                    let phases = vec![
                        (c1, access(k, a1, P - 1)),
                        (c2, format!("{} {}", access(k >> 8, a2, 65536), access(k >> 16, a2, 1))),
                        (c1, access(k >> 24, a1, 7)),
                        (Ctx::Root, format!("{} {}", access(1, a1, 0), access(3, a2, 0))),
                    ];
                    out.push(phased_case(fam, format!("{c1:?}@{a1} -> {c2:?}@{a2}"), &phases, 0));
                }
            }
        }
    }
    // the callee touches several addresses, the caller touches several others
    for &ctx in &[Ctx::Call, Ctx::Nested, Ctx::Sys, Ctx::SysFromCall] {
        for r in 0..8usize {
            let mine: String = (0..4).map(|i| access(i as u64 * 2, ADDRS[(r + i) % 8], 5) + " ").collect();
            let theirs: String =
                (0..4).map(|i| access(i as u64 * 2 + 1, ADDRS[(r + i + 3) % 8], 6) + " ").collect();
            let phases = vec![
                (Ctx::Root, mine.clone()),
                (ctx, theirs.clone()),
                (Ctx::Root, theirs.clone()),
                (ctx, mine.clone()),
            ];
            out.push(phased_case(fam, format!("multi-address {ctx:?} rotation {r}"), &phases, 0));
        }
    }
    // only non-root contexts touch memory (the first memory row belongs to a non-zero context)
    for &a in &ADDRS {
        for &b in &ADDRS {
            let phases = vec![
                (Ctx::Call, access(0, a, 1)),
                (Ctx::Call, access(1, b, 1)),
                (Ctx::Nested, access(2, a, 1)),
            ];
            out.push(phased_case(fam, format!("calls only {a} {b}"), &phases, 0));
        }
    }
    // repeated accesses to the same address in the same and in different contexts
    for &a in &ADDRS {
        let body: String = (0..10).map(|k| access(k, a, k + 1) + " ").collect();
        for &ctx in &[Ctx::Root, Ctx::Exec, Ctx::Call, Ctx::Nested, Ctx::Sys] {
            let phases = vec![(ctx, body.clone()), (Ctx::Root, access(1, a, 0)), (ctx, body.clone())];
            out.push(phased_case(fam, format!("same address {a} in {ctx:?} x2"), &phases, 0));
        }
    }
}

fn pad(n: usize) -> String {
    if n == 0 {
        String::new()
    } else {
        format!("repeat.{n} neg end")
    }
}

pub fn memory_clock_gaps(out: &mut Vec<Case>) {
    let fam = "memory-clock-gaps";
    // small and medium gaps, all context kinds
    for gap in [0usize, 1, 2, 3, 10, 100, 255, 256, 257, 1000, 4095, 4096] {
        for &ctx in &[Ctx::Root, Ctx::Call, Ctx::Sys] {
            for &a in &[0u64, 65536, (1 << 32) - 1] {
                let body = format!("{} {} {} {} {}", access(0, a, 9), pad(gap), access(1, a, 0), pad(gap), access(9, a, 3));
                out.push(phased_case(fam, format!("gap {gap} @{a} in {ctx:?}"), &[(ctx, body)], 0));
            }
        }
    }
    // gaps around 2^16 (d0 / d1 limb boundary of the clock delta)
    for gap in 65529usize..=65537 {
        let a = ADDRS[gap % 8];
        let body = format!("{} {} {}", access(0, a, 9), pad(gap), access(1, a, 0));
        out.push(phased_case(fam, format!("gap {gap} @{a} in Root"), &[(Ctx::Root, body)], 0));
    }
    for (i, gap) in [65535usize, 65537, 70000, 131080].iter().enumerate() {
        let a = ADDRS[i % 8];
        // same context, same address
        let body = format!("{} {} {}", access(2, a, 9), pad(*gap), access(3, a, 0));
        out.push(phased_case(fam, format!("gap {gap} @{a} in Call"), &[(Ctx::Call, body.clone())], 0));
        out.push(phased_case(fam, format!("gap {gap} @{a} in Sys"), &[(Ctx::Sys, body)], 0));
        // a context created after more than 2^16 cycles (context id delta does not fit 16 bits)
        let phases = vec![
            (Ctx::Root, format!("{} {}", access(0, a, 1), pad(*gap))),
            (Ctx::Call, format!("{} {}", access(0, a, 2), access(1, ADDRS[(i + 1) % 8], 2))),
            (Ctx::Nested, access(1, a, 0)),
            (Ctx::Sys, access(1, a, 0)),
        ];
        out.push(phased_case(fam, format!("context created after {gap} cycles @{a}"), &phases, 0));
        // two call contexts more than 2^16 cycles apart, root never touches memory
        let phases = vec![
            (Ctx::Call, access(0, a, 2)),
            (Ctx::Root, pad(*gap)),
            (Ctx::Call, access(0, ADDRS[(i + 5) % 8], 2)),
        ];
        out.push(phased_case(fam, format!("two call contexts {gap} cycles apart"), &phases, 0));
    }
}

pub fn memory_misc(out: &mut Vec<Case>) {
    let fam = "memory-misc";
    // mem_stream / adv_pipe over the boundary addresses, in every context kind
    for &a in &ADDRS {
        for &ctx in &[Ctx::Root, Ctx::Call, Ctx::Sys] {
            let body = format!(
                "push.1.2.3.4 mem_storew.{a} dropw push.{a} padw padw padw mem_stream dropw dropw dropw drop"
            );
            out.push(phased_case(fam, format!("mem_stream @{a} in {ctx:?}"), &[(ctx, body)], 0));
            let body = format!("push.{a} padw padw padw adv_pipe adv_pipe dropw dropw dropw drop");
            let mut c = phased_case(fam, format!("adv_pipe x2 @{a} in {ctx:?}"), &[(ctx, body)], 0);
            c.adv_stack = (0..16).map(|i| B[i % 8]).collect();
            out.push(c);
        }
    }
    // element stores keep the rest of the word (helper registers), words written then read back
    for &a in &ADDRS {
        out.push(Case::new(
            fam,
            format!("element / word interplay @{a}"),
            format!(
                "begin
                    push.{}.{}.{}.{} mem_storew.{a} dropw
                    push.5 mem_store.{a}
                    mem_load.{a}
                    padw mem_loadw.{a}
                    push.0 mem_store.{a} padw mem_loadw.{a}
                 end",
                B[7], B[6], B[5], B[4]
            ),
        ));
    }
    // dense and sparse address sweeps (address deltas of every size)
    for stride in [1u64, 2, 3, 255, 256, 65535, 65536, 65537, 1 << 24, (1 << 28) - 1] {
        let n = (((1u64 << 32) - 1) / stride).min(60);
        let body: String = (0..=n).rev().map(|i| access(i, i * stride, i) + " ").collect();
        out.push(Case::new(fam, format!("sweep stride {stride}"), format!("begin {body} end")));
        out.push(Case::new(
            fam,
            format!("sweep stride {stride} in call"),
            format!("proc.f {body} end begin mem_load.77 drop call.f call.f end"),
        ));
    }
    // a mem-heavy loop
    for n in [10u64, 300] {
        out.push(Case::new(
            fam,
            format!("memory loop x{n}"),
            format!(
                "begin
                    push.{n} dup neq.0
                    while.true
                        dup dup mem_store
                        dup push.4294967295 swap sub dup mem_load swap mem_store
                        sub.1 dup neq.0
                    end
                 end"
            ),
        ));
    }
}
