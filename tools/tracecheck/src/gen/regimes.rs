//! Range-checker tables with particular gap patterns, chiplet dominated programs and programs
//! whose cycle count / range table length / chiplets length sits next to a power of two.

use super::*;

/// A program which range-checks exactly the given 16-bit values (plus zeros used as padding).
fn range_program(values: &[u16]) -> String {
    let mut body = String::new();
    for chunk in values.chunks(4) {
        let l = |i: usize| *chunk.get(i).unwrap_or(&0) as u64;
        let x = l(0) + (l(1) << 16);
        let y = l(2) + (l(3) << 16);
        body.push_str(&format!("push.{x}.{y} u32assert2 drop drop "));
    }
    format!("begin {body} end")
}

fn range_case(name: String, values: &[u16]) -> Case {
    Case::new("range-checker", name, range_program(values))
}

pub fn range_checker_family(out: &mut Vec<Case>) {
    let pow3: Vec<u32> = (0..=7).map(|i| 3u32.pow(i)).collect();
    // no lookups, only zeros, only 65535, both ends
    out.push(range_case("zeros x40".into(), &[0; 40]));
    out.push(range_case("65535 x40".into(), &[65535; 40]));
    out.push(range_case("both ends".into(), &[0, 65535, 65535, 0]));
    for v in [1u16, 2, 3, 32767, 32768, 65534] {
        out.push(range_case(format!("single value {v}"), &[v]));
        out.push(range_case(format!("value {v} x33"), &[v; 33]));
    }
    // a pair of values at every "interesting" distance, at several base points
    let mut gaps: Vec<u32> = vec![];
    for &p in &pow3 {
        for d in [-1i64, 0, 1] {
            for m in [1i64, 2, 3] {
                let g = p as i64 * m + d;
                if g > 0 && g < 65536 {
                    gaps.push(g as u32);
                }
            }
        }
    }
    for i in 0..pow3.len() {
        for j in i..pow3.len() {
            gaps.push(pow3[i] + pow3[j]);
        }
    }
    gaps.extend([2186, 2188, 4373, 4374, 4375, 6560, 6561, 6562, 32768, 65534, 65535]);
    gaps.sort();
    gaps.dedup();
    for &g in &gaps {
        for base in [0u32, 1, 1000, 65535 - g.min(65535)] {
            if base + g <= 65535 {
                out.push(range_case(format!("gap {g} at {base}"), &[base as u16, (base + g) as u16]));
            }
        }
    }
    // arithmetic progressions (every gap the same) and multiples of 3^7 +- 1
    for step in [1u32, 2, 3, 4, 80, 81, 82, 242, 243, 244, 728, 729, 730, 2186, 2187, 2188, 4373, 6561, 20000] {
        let values: Vec<u16> = (0..=65535 / step).map(|i| (i * step) as u16).take(400).collect();
        out.push(range_case(format!("progression step {step}"), &values));
        let values: Vec<u16> =
            (0..=65535 / step).map(|i| (65535 - i * step) as u16).take(400).collect();
        out.push(range_case(format!("descending progression step {step}"), &values));
    }
    for d in [-1i64, 1] {
        let values: Vec<u16> = (1..30).map(|k| (k * 2187 + d) as u16).collect();
        out.push(range_case(format!("multiples of 2187 {d:+}"), &values));
    }
    // many duplicates of few values, dense runs, random sets of several sizes
    let mut rng = Rng(0x7A46E);
    for size in [5usize, 50, 500, 3000] {
        for dup in [1usize, 7] {
            let base: Vec<u16> = (0..size).map(|_| rng.next() as u16).collect();
            let values: Vec<u16> = (0..size * dup).map(|i| base[i % size]).collect();
            out.push(range_case(format!("random set of {size} values x{dup}"), &values));
        }
    }
    for start in [0u16, 1, 2186, 30000, 65000] {
        let values: Vec<u16> = (0..300).map(|i| start + i).collect();
        out.push(range_case(format!("dense run from {start}"), &values));
    }
    // limbs produced by real u32 arithmetic
    for r in 0..6usize {
        let mut body = String::new();
        for i in 0..6usize {
            let (a, b, c) = (BU32[(i + r) % 6], BU32[(2 * i + r + 1) % 6], BU32[(i + 3) % 6]);
            body.push_str(&format!(
                "push.{a}.{b} u32overflowing_add drop drop push.{a}.{b} u32overflowing_sub drop drop \
                 push.{a}.{b} u32overflowing_mul drop drop push.{c}.{a}.{b} u32overflowing_madd drop drop \
                 push.{c}.{a}.{b} u32overflowing_add3 drop drop push.{a} push.{} u32divmod drop drop \
                 push.{} u32split drop drop ",
                b.max(1),
                (a << 32 | b) % P
            ));
        }
        out.push(Case::new("range-checker", format!("u32 arithmetic limbs rotation {r}"), format!("begin {body} end")));
    }
    // range checks requested by the stack AND by the memory chiplet, the latter with big deltas
    out.push(Case::new(
        "range-checker",
        "stack + memory lookups",
        "begin
            push.1 mem_store.0 push.2 mem_store.65535 push.3 mem_store.65536 push.4 mem_store.4294967295
            push.65535.65536 u32overflowing_mul drop drop
            mem_load.2147483648 drop
            push.4294967295.4294967295 u32overflowing_mul drop drop
         end",
    ));
}

pub fn chiplet_dominated(out: &mut Vec<Case>) {
    let fam = "chiplet-dominated";
    for n in [1usize, 7, 8, 9, 31, 100, 600] {
        out.push(Case::new(fam, format!("hperm x{n}"), format!("begin repeat.{n} hperm end end")).stack((1..=12).collect()));
        out.push(
            Case::new(fam, format!("hmerge x{n}"), format!("begin repeat.{n} dupw.1 hmerge end end"))
                .stack((1..=8).collect()),
        );
        out.push(
            Case::new(
                fam,
                format!("u32and / u32xor x{n}"),
                format!("begin repeat.{n} dup.1 dup.1 u32and swap dup.2 u32xor swap end end"),
            )
            .stack(vec![0xFFFF_FFFF, 0x8000_0001, 0x1234_5678]),
        );
        out.push(Case::new(
            fam,
            format!("u32or / u32not / popcnt x{n}"),
            format!("begin push.4294967295 push.65536 repeat.{} dup.1 dup.1 u32or u32not u32popcnt drop end end", n.min(100)),
        ));
        out.push(Case::new(
            fam,
            format!("memory x{n}"),
            format!("begin repeat.{n} mem_load.5 mem_store.4294967295 padw mem_loadw.65536 mem_storew.5 dropw end end"),
        ));
    }
    // Merkle path verifications / updates dominate the trace
    for depth in [1u32, 2, 5, 10] {
        let (tree, _, store) = merkle(depth, 77);
        let root = word_ints(&tree.root());
        let idx = (1u64 << depth) - 1;
        for n in [1usize, 9, 40] {
            let ops = [root[3], root[2], root[1], root[0]];
            out.push(
                Case::new(
                    fam,
                    format!("mtree_get depth {depth} x{n}"),
                    format!("begin repeat.{n} push.{idx} push.{depth} mtree_get dropw end end"),
                )
                .stack(stack_with_top(&ops))
                .store(store.clone()),
            );
            out.push(
                Case::new(
                    fam,
                    format!("mtree_set depth {depth} x{n}"),
                    format!(
                        "begin repeat.{n} push.1.2.3.4 swapw push.{idx} push.{depth} mtree_set dropw \
                         push.0 push.{depth} mtree_get dropw end end"
                    ),
                )
                .stack(stack_with_top(&ops))
                .store(store.clone()),
            );
        }
    }
    // many distinct control blocks (hasher rows from the decoder) with few cycles each
    let blocks: String = (0..120).map(|i| format!("push.1 if.true push.{i} drop else push.{} drop end ", i + 1000)).collect();
    out.push(Case::new(fam, "240 distinct conditional blocks", format!("begin {blocks} end")));
}

pub fn length_regimes(out: &mut Vec<Case>) {
    let fam = "length-regimes";
    for k in 6..=12u32 {
        let t = 1usize << k;
        // with one random row, a quantity q needs q + 1 rows: q = 2^k - 1 is the last value which
        // fits 2^k rows (cycles need an additional HALT row)
        let wanted: Vec<usize> = (t - 4..=t + 2).collect();

        // --- cycle count ------------------------------------------------------------------------
        let build = |n: usize| Case::new(fam, format!("cycles~2^{k}: {n} ops"), format!("begin {} end", rep("neg", n)));
        for (q, mut c) in tune(&wanted, t.saturating_sub(t / 8 + 16), t / 8 + 64, &build, &|m| m.0) {
            c.name = format!("{} -> {q} cycles", c.name);
            out.push(c);
        }
        // the same with a loop (different op mix) so that different fillers hit the targets
        let build = |n: usize| {
            Case::new(
                fam,
                format!("cycles~2^{k}: loop + {n} ops"),
                format!("begin push.3 dup neq.0 while.true sub.1 dup neq.0 end drop {} end", rep("push.1 drop", n / 2) + &rep("neg", n % 2)),
            )
        };
        for (q, mut c) in tune(&wanted, t.saturating_sub(t / 8 + 60), t / 8 + 100, &build, &|m| m.0) {
            c.name = format!("{} -> {q} cycles", c.name);
            out.push(c);
        }

        // --- range-checker table length ------------------------------------------------------------
        // values spaced by 80 cost 8 table rows each (7 bridge rows), consecutive values cost 1 row
        let build = |n: usize| {
            let spaced = (t / 8).saturating_sub(12).min(700);
            let mut values: Vec<u16> = (1..=spaced).map(|i| (i * 80) as u16).collect();
            values.extend((0..n).map(|i| (60001 + i) as u16));
            Case::new("length-regimes", format!("range~2^{k}: {spaced} spaced + {n} consecutive values"), range_program(&values))
        };
        for (q, mut c) in tune(&wanted, 0, 600, &build, &|m| m.1) {
            c.name = format!("{} -> range table {q}", c.name);
            out.push(c);
        }

        // --- chiplets length -----------------------------------------------------------------------
        let build = |n: usize| {
            let perms = (t / 8).saturating_sub(6);
            Case::new(
                "length-regimes",
                format!("chiplets~2^{k}: {perms} hperm + {n} memory rows"),
                format!("begin repeat.{perms} hperm end {} end", rep("mem_load.3 drop", n)),
            )
            .stack((1..=12).collect())
        };
        for (q, mut c) in tune(&wanted, 0, 80, &build, &|m| m.2) {
            c.name = format!("{} -> chiplets {q}", c.name);
            out.push(c);
        }
        // bitwise dominated
        let build = |n: usize| {
            let ands = (t / 8).saturating_sub(6);
            Case::new(
                "length-regimes",
                format!("chiplets~2^{k}: {ands} u32and + {n} memory rows"),
                format!("begin repeat.{ands} dup u32and end {} end", rep("push.1 mem_store.9", n)),
            )
            .stack(vec![0xF0F0_F0F0])
        };
        for (q, mut c) in tune(&wanted, 0, 80, &build, &|m| m.2) {
            c.name = format!("{} -> chiplets {q}", c.name);
            out.push(c);
        }
    }
}
