//! A few standard library programs and seeded random programs mixing everything.

use super::*;

pub fn stdlib_programs(out: &mut Vec<Case>) {
    let fam = "stdlib";
    let u64_bin = [
        "overflowing_add", "wrapping_add", "wrapping_sub", "overflowing_sub", "wrapping_mul",
        "overflowing_mul", "lt", "gt", "lte", "gte", "eq", "neq", "min", "max", "div", "mod",
        "divmod", "and", "or", "xor",
    ];
    let limbs = [0u64, 1, 65535, 65536, 1 << 31, (1 << 32) - 1];
    let mut rng = Rng(0x57D);
    for op in u64_bin {
        for _ in 0..6 {
            let ops: Vec<u64> = (0..4).map(|_| *rng.pick(&limbs)).collect();
            out.push(
                Case::new(
                    fam,
                    format!("u64::{op} {ops:?}"),
                    format!("use.std::math::u64 begin exec.u64::{op} end"),
                )
                .stack(stack_with_top(&ops))
                .stdlib(),
            );
        }
    }
    for op in ["shl", "shr", "rotl", "rotr"] {
        for n in [0u64, 1, 31, 32, 33, 63] {
            let ops = vec![n, *rng.pick(&limbs), *rng.pick(&limbs)];
            out.push(
                Case::new(fam, format!("u64::{op} {ops:?}"), format!("use.std::math::u64 begin exec.u64::{op} end"))
                    .stack(stack_with_top(&ops))
                    .stdlib(),
            );
        }
    }
    for op in ["clz", "ctz", "clo", "cto", "eqz"] {
        for _ in 0..4 {
            let ops = vec![*rng.pick(&limbs), *rng.pick(&limbs)];
            out.push(
                Case::new(fam, format!("u64::{op} {ops:?}"), format!("use.std::math::u64 begin exec.u64::{op} end"))
                    .stack(stack_with_top(&ops))
                    .stdlib(),
            );
        }
    }
    // bitwise / range-check heavy hash functions
    for r in 0..2u64 {
        let inputs: Vec<u64> = (0..16).map(|i| if r == 0 { BU32[i % 6] } else { rng.next() as u32 as u64 }).collect();
        out.push(
            Case::new(fam, format!("sha256::hash_2to1 #{r}"), "use.std::crypto::hashes::sha256 begin exec.sha256::hash_2to1 end")
                .stack(inputs.clone())
                .stdlib(),
        );
        out.push(
            Case::new(fam, format!("blake3::hash_2to1 #{r}"), "use.std::crypto::hashes::blake3 begin exec.blake3::hash_2to1 end")
                .stack(inputs.clone())
                .stdlib(),
        );
        out.push(
            Case::new(
                fam,
                format!("blake3::hash_1to1 in a call #{r}"),
                "use.std::crypto::hashes::blake3 proc.f exec.blake3::hash_1to1 dropw dropw end begin push.3 mem_store.1073741824 call.f end",
            )
            .stack(inputs[..8].to_vec())
            .stdlib(),
        );
    }
    // memcopy (memory dominated)
    out.push(
        Case::new(
            fam,
            "mem::memcopy",
            "use.std::mem begin
                push.1.2.3.4 mem_storew.100 dropw push.5.6.7.8 mem_storew.101 dropw push.9 mem_store.102
                push.65536 push.100 push.3 exec.mem::memcopy
                push.4294967290 push.65536 push.3 exec.mem::memcopy
             end",
        )
        .stdlib(),
    );
}

// RANDOM PROGRAMS
// ================================================================================================

struct Gen {
    rng: Rng,
    adv_needed: usize,
    num_procs: usize,
    num_kprocs: usize,
    loop_slot: u64,
}

impl Gen {
    fn val(&mut self) -> u64 {
        match self.rng.below(4) {
            0 => *self.rng.pick(&B),
            1 => self.rng.below(16),
            2 => self.rng.next() as u32 as u64,
            _ => self.rng.next() % P,
        }
    }
    fn u32val(&mut self) -> u64 {
        match self.rng.below(3) {
            0 => *self.rng.pick(&BU32),
            1 => {
                let lo = *self.rng.pick(&[0u64, 1, 2186, 2187, 2188, 6561, 32768, 65534, 65535]);
                let hi = *self.rng.pick(&[0u64, 1, 3, 729, 59049 % 65536, 65535]);
                (hi << 16) | lo
            }
            _ => self.rng.next() as u32 as u64,
        }
    }
    fn addr(&mut self) -> u64 {
        match self.rng.below(3) {
            0 => *self.rng.pick(&ADDRS),
            1 => self.rng.below(8),
            _ => self.rng.next() as u32 as u64,
        }
    }

    /// one stack-safe snippet; nothing here can fail for any stack content
    fn snippet(&mut self, level: usize, in_proc: bool, in_kernel: bool) -> String {
        let choice = self.rng.below(if level >= 3 { 30 } else { 38 });
        match choice {
            0 => format!("push.{}", self.val()),
            1 => "drop".into(),
            2 => format!("dup.{}", self.rng.below(16)),
            3 => format!("swap.{}", 1 + self.rng.below(15)),
            4 => format!("movup.{}", 2 + self.rng.below(14)),
            5 => format!("movdn.{}", 2 + self.rng.below(14)),
            6 => (*self.rng.pick(&["swapw", "swapw.2", "swapw.3", "swapdw", "padw", "dropw", "dupw.1", "movupw.2", "movdnw.3"])).into(),
            7 => format!("push.{} {}", self.val(), self.rng.pick(&["add", "sub", "mul", "eq", "neq"])),
            8 => (*self.rng.pick(&["add", "sub", "mul", "neg", "eq", "eq.0", "neq.3", "add.1"])).into(),
            9 => {
                let op = *self.rng.pick(&[
                    "u32wrapping_add", "u32overflowing_add", "u32wrapping_sub", "u32overflowing_sub",
                    "u32wrapping_mul", "u32overflowing_mul", "u32and", "u32or", "u32xor", "u32lt", "u32lte",
                    "u32gt", "u32gte", "u32min", "u32max",
                ]);
                format!("push.{}.{} {op}", self.u32val(), self.u32val())
            }
            10 => {
                let op = *self.rng.pick(&["u32div", "u32mod", "u32divmod"]);
                format!("push.{} push.{} {op}", self.u32val(), self.u32val().max(1))
            }
            11 => {
                let op = *self.rng.pick(&["u32overflowing_add3", "u32wrapping_add3", "u32overflowing_madd", "u32wrapping_madd"]);
                format!("push.{}.{}.{} {op}", self.u32val(), self.u32val(), self.u32val())
            }
            12 => format!("push.{} u32split", self.val()),
            13 => {
                let op = *self.rng.pick(&["u32shl", "u32shr", "u32rotl", "u32rotr"]);
                if self.rng.chance(1, 2) {
                    format!("push.{} {op}.{}", self.u32val(), self.rng.below(32))
                } else {
                    format!("push.{} push.{} {op}", self.u32val(), self.rng.below(32))
                }
            }
            14 => format!(
                "push.{} {}",
                self.u32val(),
                self.rng.pick(&["u32popcnt", "u32clz", "u32ctz", "u32clo", "u32cto", "u32not", "u32test", "u32cast"])
            ),
            15 => format!("push.{} u32cast push.{} u32assert2", self.val(), self.u32val()),
            16 => format!("push.{} mem_store.{}", self.val(), self.addr()),
            17 => format!("mem_load.{}", self.addr()),
            18 => format!("padw mem_loadw.{}", self.addr()),
            19 => format!("mem_storew.{}", self.addr()),
            20 => format!("push.{} push.{} mem_store", self.val(), self.addr()),
            21 => format!("push.{} mem_load", self.addr()),
            22 => (*self.rng.pick(&["hperm", "hmerge", "hash"])).into(),
            23 => (*self.rng.pick(&["clk", "sdepth"])).into(),
            24 => {
                self.adv_needed += 1;
                "adv_push.1".into()
            }
            25 => format!("push.{} is_odd", self.val()),
            26 => format!("push.{}.{} {}", self.val(), self.val(), self.rng.pick(&["lt", "lte", "gt", "gte"])),
            27 => format!("push.{} pow2", self.rng.below(64)),
            28 => format!("push.{}.{}.{}.{} {}", self.val(), self.val(), self.val(), self.val(), self.rng.pick(&["ext2add", "ext2sub", "ext2mul", "ext2neg"])),
            29 => format!("push.{}.{} exp.u{}", self.val(), self.rng.below(1 << 10), 10),
            30 => {
                let c = self.rng.below(2);
                format!("push.{c} if.true {} else {} end", self.block(level + 1, in_proc, in_kernel, 4), self.block(level + 1, in_proc, in_kernel, 4))
            }
            31 => format!("repeat.{} {} end", 1 + self.rng.below(5), self.block(level + 1, in_proc, in_kernel, 4)),
            32 => {
                // a counted loop whose counter lives in memory
                self.loop_slot += 1;
                let slot = 3_000_000_000u64 + self.loop_slot;
                let n = self.rng.below(4);
                format!(
                    "push.{n} mem_store.{slot} push.{n} neq.0 while.true {} mem_load.{slot} sub.1 dup mem_store.{slot} neq.0 end",
                    self.block(level + 1, in_proc, in_kernel, 4)
                )
            }
            33 | 34 if !in_proc && !in_kernel && self.num_procs > 0 => {
                let p = self.rng.below(self.num_procs as u64);
                format!("{}.p{p}", self.rng.pick(&["call", "call", "exec"]))
            }
            35 | 36 if !in_kernel && self.num_kprocs > 0 => {
                format!("syscall.k{}", self.rng.below(self.num_kprocs as u64))
            }
            37 => {
                let n = 17 + self.rng.below(24) as usize;
                format!("{} {}", rep("push.7", n), rep("drop", n - self.rng.below(3) as usize))
            }
            _ => format!("push.{}", self.val()),
        }
    }

    fn block(&mut self, level: usize, in_proc: bool, in_kernel: bool, max: u64) -> String {
        let n = 1 + self.rng.below(max);
        (0..n).map(|_| self.snippet(level, in_proc, in_kernel) + " ").collect()
    }
}

pub fn random_programs(out: &mut Vec<Case>) {
    for seed in 0..400u64 {
        let mut g = Gen { rng: Rng(seed.wrapping_mul(0x1234_5678_9ABC_DEF1) + 99), adv_needed: 0, num_procs: 0, num_kprocs: 0, loop_slot: 0 };
        let num_kprocs = g.rng.below(4) as usize;
        let num_procs = g.rng.below(5) as usize;

        // kernel procedures (cannot call or syscall)
        let mut kernel = String::new();
        for i in 0..num_kprocs {
            let body = g.block(1, true, true, 8);
            kernel.push_str(&format!("export.k{i}\n {body} {}\nend\n", rep("drop", 48)));
        }
        g.num_kprocs = num_kprocs;
        // procedures: may syscall; procedure i may call procedure j < i
        let mut procs = String::new();
        for i in 0..num_procs {
            let mut body = g.block(1, true, false, 10);
            if i > 0 && g.rng.chance(1, 2) {
                body.push_str(&format!("call.p{} ", g.rng.below(i as u64)));
                body.push_str(&g.block(1, true, false, 4));
            }
            procs.push_str(&format!("proc.p{i}\n {body} {}\nend\n", rep("drop", 64)));
        }
        g.num_procs = num_procs;

        let main_len = 5 + g.rng.below(40);
        let main = g.block(0, false, false, main_len);
        let tail = if g.rng.chance(1, 2) { rep("drop", 40) } else { String::new() };
        let source = format!("{procs}begin\n {main} {tail}\nend\n");

        let n_inputs = *g.rng.pick(&[0usize, 3, 16, 16, 20, 30]);
        let stack: Vec<u64> = (0..n_inputs).map(|_| g.val()).collect();
        let adv: Vec<u64> = (0..g.adv_needed * 8 + 8).map(|_| g.val()).collect();
        let mut c = Case::new("random", format!("seed {seed}"), source).stack(stack).adv(adv);
        if num_kprocs > 0 {
            c.kernel = Some(kernel);
        }
        out.push(c);
    }
}
