//! Every instruction with boundary operands in every operand position.

use super::*;

#[derive(Clone, Copy, PartialEq, Eq)]
enum Kind {
    /// defined for every field element (may fail, but is never "undefined")
    Any,
    /// documented as undefined if an operand is >= 2^32
    U32,
    /// [b, a]: undefined if a >= 2^32 or b > 31
    Shift,
}

const INSTRUCTIONS: &[(&str, usize, Kind)] = &[
    // --- field ---------------------------------------------------------------------------------
    ("add", 2, Kind::Any),
    ("sub", 2, Kind::Any),
    ("mul", 2, Kind::Any),
    ("div", 2, Kind::Any),
    ("neg", 1, Kind::Any),
    ("inv", 1, Kind::Any),
    ("pow2", 1, Kind::Any),
    ("exp", 2, Kind::Any),
    ("exp.u1", 2, Kind::Any),
    ("exp.u16", 2, Kind::Any),
    ("exp.u17", 2, Kind::Any),
    ("exp.u32", 2, Kind::Any),
    ("exp.u64", 2, Kind::Any),
    ("ilog2", 1, Kind::Any),
    ("not", 1, Kind::Any),
    ("and", 2, Kind::Any),
    ("or", 2, Kind::Any),
    ("xor", 2, Kind::Any),
    ("eq", 2, Kind::Any),
    ("neq", 2, Kind::Any),
    ("lt", 2, Kind::Any),
    ("lte", 2, Kind::Any),
    ("gt", 2, Kind::Any),
    ("gte", 2, Kind::Any),
    ("is_odd", 1, Kind::Any),
    ("eqw", 8, Kind::Any),
    ("ext2add", 4, Kind::Any),
    ("ext2sub", 4, Kind::Any),
    ("ext2mul", 4, Kind::Any),
    ("ext2div", 4, Kind::Any),
    ("ext2neg", 2, Kind::Any),
    ("ext2inv", 2, Kind::Any),
    ("assert", 1, Kind::Any),
    ("assertz", 1, Kind::Any),
    ("assert_eq", 2, Kind::Any),
    ("assert_eqw", 8, Kind::Any),
    // --- u32 conversions -----------------------------------------------------------------------
    ("u32test", 1, Kind::Any),
    ("u32testw", 4, Kind::Any),
    ("u32assert", 1, Kind::Any),
    ("u32assert2", 2, Kind::Any),
    ("u32assertw", 4, Kind::Any),
    ("u32cast", 1, Kind::Any),
    ("u32split", 1, Kind::Any),
    // --- u32 arithmetic ------------------------------------------------------------------------
    ("u32wrapping_add", 2, Kind::U32),
    ("u32overflowing_add", 2, Kind::U32),
    ("u32overflowing_add3", 3, Kind::U32),
    ("u32wrapping_add3", 3, Kind::U32),
    ("u32wrapping_sub", 2, Kind::U32),
    ("u32overflowing_sub", 2, Kind::U32),
    ("u32wrapping_mul", 2, Kind::U32),
    ("u32overflowing_mul", 2, Kind::U32),
    ("u32overflowing_madd", 3, Kind::U32),
    ("u32wrapping_madd", 3, Kind::U32),
    ("u32div", 2, Kind::U32),
    ("u32mod", 2, Kind::U32),
    ("u32divmod", 2, Kind::U32),
    // --- u32 bitwise ---------------------------------------------------------------------------
    ("u32and", 2, Kind::Any),
    ("u32or", 2, Kind::Any),
    ("u32xor", 2, Kind::Any),
    ("u32not", 1, Kind::Any),
    ("u32shl", 2, Kind::Shift),
    ("u32shr", 2, Kind::Shift),
    ("u32rotl", 2, Kind::Shift),
    ("u32rotr", 2, Kind::Shift),
    ("u32popcnt", 1, Kind::U32),
    ("u32clz", 1, Kind::U32),
    ("u32ctz", 1, Kind::U32),
    ("u32clo", 1, Kind::U32),
    ("u32cto", 1, Kind::U32),
    // --- u32 comparisons -----------------------------------------------------------------------
    ("u32lt", 2, Kind::U32),
    ("u32lte", 2, Kind::U32),
    ("u32gt", 2, Kind::U32),
    ("u32gte", 2, Kind::U32),
    ("u32min", 2, Kind::U32),
    ("u32max", 2, Kind::U32),
];

fn is_ub(kind: Kind, ops: &[u64]) -> bool {
    match kind {
        Kind::Any => false,
        Kind::U32 => ops.iter().any(|&o| o > u32::MAX as u64),
        Kind::Shift => ops[1] > u32::MAX as u64 || ops[0] > 31,
    }
}

fn operand_sets(arity: usize, rng: &mut Rng) -> Vec<Vec<u64>> {
    let defaults = [3u64, 5, 7, 11, 13, 17, 19, 23];
    let mut sets: Vec<Vec<u64>> = Vec::new();
    match arity {
        1 => {
            for &a in &B {
                sets.push(vec![a]);
            }
            sets.push(vec![2]);
            sets.push(vec![63]);
            sets.push(vec![64]);
            sets.push(vec![0x8000_0000_0000_0000]);
        }
        2 => {
            for &a in &B {
                for &b in &B {
                    sets.push(vec![a, b]);
                }
            }
            for &a in &B {
                sets.push(vec![a, 3]);
                sets.push(vec![3, a]);
            }
        }
        _ => {
            // one boundary value per position, everything else small
            for pos in 0..arity {
                for &b in &B {
                    let mut ops = defaults[..arity].to_vec();
                    ops[pos] = b;
                    sets.push(ops);
                }
            }
            // the same boundary value everywhere
            for &b in &B {
                sets.push(vec![b; arity]);
            }
            // two equal halves (for the word comparisons)
            if arity == 8 {
                for &b in &B {
                    let half = [b, 1, b, 0];
                    let mut ops = half.to_vec();
                    ops.extend_from_slice(&half);
                    sets.push(ops);
                }
            }
            // random mixtures of boundary values
            for _ in 0..40 {
                sets.push((0..arity).map(|_| *rng.pick(&B)).collect());
            }
            // random mixtures of u32 boundary values
            for _ in 0..24 {
                sets.push((0..arity).map(|_| *rng.pick(&BU32)).collect());
            }
        }
    }
    sets
}

pub fn single_instruction(out: &mut Vec<Case>) {
    let mut rng = Rng(0x51);
    for &(ins, arity, kind) in INSTRUCTIONS {
        for ops in operand_sets(arity, &mut rng) {
            let name = format!("{ins} {ops:?}");
            out.push(
                Case::new("single-instruction", name, format!("begin {ins} end"))
                    .stack(stack_with_top(&ops))
                    .ub(is_ub(kind, &ops)),
            );
        }
        // the same instruction executed with a non-empty overflow table
        let ops: Vec<u64> = (0..arity).map(|i| BU32[(i + 1) % BU32.len()]).collect();
        let mut stack = filler(21 - arity.min(5));
        stack.extend(ops.iter().rev());
        out.push(
            Case::new(
                "single-instruction",
                format!("{ins} {ops:?} (deep stack)"),
                format!("begin {ins} end"),
            )
            .stack(stack)
            .ub(is_ub(kind, &ops)),
        );
    }
    // shifts / rotations with every interesting shift amount
    for ins in ["u32shl", "u32shr", "u32rotl", "u32rotr"] {
        for b in [0u64, 1, 2, 15, 16, 17, 30, 31] {
            for &a in &B {
                out.push(
                    Case::new("single-instruction", format!("{ins} [{b}, {a}]"), format!("begin {ins} end"))
                        .stack(stack_with_top(&[b, a]))
                        .ub(a > u32::MAX as u64),
                );
            }
        }
    }
    // pow2 / ilog2 / exp over the whole exponent range
    for e in 0u64..=64 {
        out.push(
            Case::new("single-instruction", format!("pow2 [{e}]"), "begin pow2 end")
                .stack(stack_with_top(&[e])),
        );
        if e < 64 {
            out.push(
                Case::new("single-instruction", format!("ilog2 [2^{e}]"), "begin ilog2 end")
                    .stack(stack_with_top(&[1u64 << e])),
            );
            out.push(
                Case::new("single-instruction", format!("ilog2 [2^{e}+1]"), "begin ilog2 end")
                    .stack(stack_with_top(&[(1u64 << e) + 1])),
            );
        }
    }
}

pub fn immediates(out: &mut Vec<Case>) {
    // field instructions with an immediate operand
    for ins in ["add", "sub", "mul", "div", "eq", "neq", "exp"] {
        for &imm in &B {
            if imm == 0 && ins == "div" {
                continue; // rejected by the assembler
            }
            for &a in &B {
                out.push(
                    Case::new(
                        "immediate-operands",
                        format!("{ins}.{imm} [{a}]"),
                        format!("begin {ins}.{imm} end"),
                    )
                    .stack(stack_with_top(&[a])),
                );
            }
        }
    }
    // u32 instructions with an immediate operand
    for ins in [
        "u32wrapping_add",
        "u32overflowing_add",
        "u32wrapping_sub",
        "u32overflowing_sub",
        "u32wrapping_mul",
        "u32overflowing_mul",
        "u32div",
        "u32mod",
        "u32divmod",
    ] {
        for &imm in &BU32 {
            if imm == 0 && (ins == "u32div" || ins == "u32mod" || ins == "u32divmod") {
                continue; // rejected by the assembler
            }
            for &a in &B {
                out.push(
                    Case::new(
                        "immediate-operands",
                        format!("{ins}.{imm} [{a}]"),
                        format!("begin {ins}.{imm} end"),
                    )
                    .stack(stack_with_top(&[a]))
                    .ub(a > u32::MAX as u64),
                );
            }
        }
    }
    for ins in ["u32shl", "u32shr", "u32rotl", "u32rotr"] {
        for imm in [0u64, 1, 15, 16, 17, 31] {
            for &a in &B {
                out.push(
                    Case::new(
                        "immediate-operands",
                        format!("{ins}.{imm} [{a}]"),
                        format!("begin {ins}.{imm} end"),
                    )
                    .stack(stack_with_top(&[a]))
                    .ub(a > u32::MAX as u64),
                );
            }
        }
    }
    // error codes on assertions
    for (ins, ops) in [
        ("assert.err=7", vec![1u64]),
        ("assertz.err=4294967295", vec![0]),
        ("assert_eq.err=1", vec![P - 1, P - 1]),
        ("assert_eqw.err=65536", vec![1, 2, 3, P - 1, 1, 2, 3, P - 1]),
        ("u32assert.err=3", vec![u32::MAX as u64]),
        ("u32assert2.err=3", vec![u32::MAX as u64, 65536]),
        ("u32assertw.err=3", vec![0, 65535, 65536, u32::MAX as u64]),
    ] {
        out.push(
            Case::new("immediate-operands", format!("{ins} {ops:?}"), format!("begin {ins} end"))
                .stack(stack_with_top(&ops)),
        );
    }
}

pub fn stack_manipulation(out: &mut Vec<Case>) {
    let mut instrs: Vec<String> = vec![
        "drop".into(),
        "dropw".into(),
        "padw".into(),
        "swap".into(),
        "swapw".into(),
        "swapdw".into(),
        "dup".into(),
        "dupw".into(),
    ];
    for i in 0..16 {
        instrs.push(format!("dup.{i}"));
    }
    for i in 0..4 {
        instrs.push(format!("dupw.{i}"));
    }
    for i in 1..16 {
        instrs.push(format!("swap.{i}"));
    }
    for i in 1..4 {
        instrs.push(format!("swapw.{i}"));
    }
    for i in 2..16 {
        instrs.push(format!("movup.{i}"));
        instrs.push(format!("movdn.{i}"));
    }
    for i in 2..4 {
        instrs.push(format!("movupw.{i}"));
        instrs.push(format!("movdnw.{i}"));
    }
    let input_sets: Vec<Vec<u64>> = vec![
        (0..16).map(|i| B[i % 8]).collect(),
        (0..16).map(|i| B[(i + 3) % 8].wrapping_add((i / 8) as u64) % P).collect(),
        (0..20).map(|i| B[(i + 5) % 8]).collect(),
        (0..33).map(|i| if i % 2 == 0 { B[(i / 2) % 8] } else { 1000 + i as u64 }).collect(),
        vec![],
        vec![P - 1],
    ];
    for ins in &instrs {
        for (k, inputs) in input_sets.iter().enumerate() {
            out.push(
                Case::new("stack-manipulation", format!("{ins} / input set {k}"), format!("begin {ins} end"))
                    .stack(inputs.clone()),
            );
            // executed twice and then dropped again, so that the overflow table is exercised
            out.push(
                Case::new(
                    "stack-manipulation",
                    format!("{ins} x2 + drops / input set {k}"),
                    format!("begin {ins} {ins} drop drop drop drop drop end"),
                )
                .stack(inputs.clone()),
            );
        }
    }
    for ins in ["cswap", "cswapw", "cdrop", "cdropw"] {
        for &c in &B {
            for (k, inputs) in input_sets.iter().enumerate().take(4) {
                let mut s = inputs.clone();
                s.push(c);
                out.push(
                    Case::new("stack-manipulation", format!("{ins} c={c} / input set {k}"), format!("begin {ins} end"))
                        .stack(s),
                );
            }
        }
    }
}

pub fn io_instructions(out: &mut Vec<Case>) {
    // push
    for &b in &B {
        out.push(Case::new("io", format!("push.{b}"), format!("begin push.{b} end")));
        out.push(
            Case::new("io", format!("push.{b} (deep)"), format!("begin push.{b} push.{b} drop end"))
                .stack(filler(18)),
        );
    }
    for n in 1..=16usize {
        let vals: Vec<String> = (0..n).map(|i| B[(i + n) % 8].to_string()).collect();
        out.push(Case::new("io", format!("push x{n}"), format!("begin push.{} end", vals.join("."))));
    }
    out.push(Case::new(
        "io",
        "push hex word",
        "begin push.0x0100000000000000ffff00000000000000000100000000000000008000000000 push.0xffff.0x010000 end",
    ));
    // sdepth / clk at various depths
    for d in [0usize, 1, 15, 16, 17, 20, 33] {
        out.push(
            Case::new("io", format!("sdepth with {d} inputs"), "begin sdepth sdepth push.1 sdepth drop drop sdepth end")
                .stack(filler(d)),
        );
        out.push(
            Case::new("io", format!("clk with {d} inputs"), "begin clk push.1 clk drop clk swap drop clk end")
                .stack(filler(d)),
        );
    }
    out.push(Case::new(
        "io",
        "clk / sdepth inside call",
        "proc.f push.1 push.2 sdepth clk add add add drop end begin push.9 call.f sdepth clk end",
    ).stack(filler(16)));
    // locaddr / loc_* in exec, call and syscall
    for (i, ctx) in [Ctx::Exec, Ctx::Call, Ctx::Nested, Ctx::Sys, Ctx::SysFromCall].iter().enumerate() {
        let body = "locaddr.0 locaddr.3 drop drop push.7 loc_store.0 push.1.2.3.4 loc_storew.3 dropw \
                    loc_load.0 drop padw loc_loadw.3 dropw loc_load.2 drop padw loc_loadw.1 dropw";
        out.push(phased_case("io", format!("locals in {ctx:?}"), &[(*ctx, body.to_string())], 4));
        out.push(phased_case(
            "io",
            format!("locals in {ctx:?} after root memory"),
            &[
                (Ctx::Root, "push.5 mem_store.3 mem_load.1073741824 drop".to_string()),
                (*ctx, body.to_string()),
                (Ctx::Root, "mem_load.3 mem_load.1073741824 drop drop".to_string()),
            ],
            4,
        ));
        let _ = i;
    }
    // procref
    out.push(Case::new(
        "io",
        "procref",
        "proc.f push.1 drop end proc.g.2 push.3 loc_store.1 end begin procref.f procref.g exec.f exec.g end",
    ));
    // caller
    out.push(
        Case::new(
            "io",
            "caller in syscall from call",
            "proc.bar syscall.foo end begin call.bar end",
        )
        .kernel("export.foo caller end")
        .stack(filler(5)),
    );
    out.push(
        Case::new("io", "caller in syscall from root", "begin syscall.foo swapw dropw end")
            .kernel("export.foo caller end")
            .stack(filler(18)),
    );
    // advice stack
    for n in 1..=16usize {
        let adv: Vec<u64> = (0..n).map(|i| B[(i + 1) % 8]).collect();
        out.push(Case::new("io", format!("adv_push.{n}"), format!("begin adv_push.{n} end")).adv(adv));
    }
    for r in 0..8 {
        let adv: Vec<u64> = (0..8).map(|i| B[(i + r) % 8]).collect();
        out.push(
            Case::new("io", format!("adv_loadw / rotation {r}"), "begin padw adv_loadw adv_loadw end")
                .adv(adv.clone()),
        );
        for &a in &ADDRS {
            let mut stack = vec![a];
            stack.extend((0..12).map(|i| B[(i + r) % 8]));
            out.push(
                Case::new("io", format!("adv_pipe at {a} / rotation {r}"), "begin adv_pipe end")
                    .adv(adv.clone())
                    .stack(stack),
            );
        }
    }
    // advice injectors which do not need special data
    out.push(
        Case::new(
            "io",
            "adv.push_u64div",
            "begin adv.push_u64div adv_push.2 u32assert2 adv_push.2 u32assert2 end",
        )
        .stack(vec![0, 0, 0, 0, 0, 0, 0, 0, 0, 0, 0, 0, 123456789, 17, 1000, 0]),
    );
    out.push(
        Case::new(
            "io",
            "adv.insert_hdword + push_mapval",
            "begin adv.insert_hdword hmerge adv.push_mapval adv_push.8 end",
        )
        .stack(vec![1, 2, 3, 4, 5, 6, 7, 8]),
    );
    out.push(
        Case::new(
            "io",
            "adv.insert_mem + push_mapvaln",
            "begin push.1.2.3.4 mem_storew.10 dropw push.5.6.7.8 mem_storew.11 dropw push.12 push.10 push.9.9.9.9 \
             adv.insert_mem adv.push_mapvaln adv_push.1 end",
        ),
    );
}

pub fn crypto_instructions(out: &mut Vec<Case>) {
    for r in 0..8 {
        let inputs: Vec<u64> = (0..12).map(|i| B[(i + r) % 8]).collect();
        for ins in ["hash", "hperm", "hmerge", "hperm hperm", "hmerge hash", "hperm hmerge hash"] {
            out.push(
                Case::new("crypto", format!("{ins} / rotation {r}"), format!("begin {ins} end"))
                    .stack(stack_with_top(&inputs)),
            );
        }
    }
    // Merkle tree instructions for every depth and boundary indices
    for depth in 1..=10u32 {
        let (tree, leaves, store) = merkle(depth, depth as u64);
        let root = word_ints(&tree.root());
        let max = (1u64 << depth) - 1;
        let mut indices = vec![0, 1, max / 2, max - (max > 0) as u64, max];
        indices.sort();
        indices.dedup();
        for &idx in &indices {
            // stack (top first): d, i, R
            let ops = [depth as u64, idx, root[3], root[2], root[1], root[0]];
            out.push(
                Case::new("crypto", format!("mtree_get depth {depth} index {idx}"), "begin mtree_get end")
                    .stack(stack_with_top(&ops))
                    .store(store.clone()),
            );
            let leaf = word_ints(&leaves[idx as usize]);
            let ops = [
                leaf[3], leaf[2], leaf[1], leaf[0], depth as u64, idx, root[3], root[2], root[1], root[0],
            ];
            out.push(
                Case::new("crypto", format!("mtree_verify depth {depth} index {idx}"), "begin mtree_verify end")
                    .stack(stack_with_top(&ops))
                    .store(store.clone()),
            );
            for &nv in &[0u64, P - 1] {
                let ops = [depth as u64, idx, root[3], root[2], root[1], root[0], nv, 1, nv, 0];
                out.push(
                    Case::new(
                        "crypto",
                        format!("mtree_set depth {depth} index {idx} value {nv}"),
                        "begin mtree_set end",
                    )
                    .stack(stack_with_top(&ops))
                    .store(store.clone()),
                );
                // update followed by a read of the new tree and a second update of the same leaf
                out.push(
                    Case::new(
                        "crypto",
                        format!("mtree_set + mtree_get + mtree_set depth {depth} index {idx} value {nv}"),
                        format!(
                            "begin mtree_set dropw push.{idx} push.{depth} mtree_get dropw push.7.7.7.7 swapw \
                             push.{idx} push.{depth} mtree_set end"
                        ),
                    )
                    .stack(stack_with_top(&ops))
                    .store(store.clone()),
                );
            }
        }
        // merge of two trees followed by an opening in the merged tree
        let (tree_b, _, store_b) = merkle(depth, 1000 + depth as u64);
        let rb = word_ints(&tree_b.root());
        let mut both = store.clone();
        both.extend(store_b.inner_nodes());
        let ops = [rb[3], rb[2], rb[1], rb[0], root[3], root[2], root[1], root[0]];
        out.push(
            Case::new(
                "crypto",
                format!("mtree_merge depth {depth}"),
                format!(
                    "begin mtree_merge push.{} push.{} mtree_get end",
                    (1u64 << (depth + 1)) - 1,
                    depth + 1
                ),
            )
            .stack(stack_with_top(&ops))
            .store(both),
        );
    }
    // fri_ext2fold4 (inputs follow the instruction's own integration test)
    let mut rng = Rng(0xF21);
    for seg in 0..4u64 {
        let mut inputs: Vec<u64> = (0..17).map(|_| rng.next() % P).collect();
        inputs[7] = seg;
        // the query value selected by the domain segment must be equal to the previous value
        let (lo, hi) = match seg {
            0 => (9, 10),
            1 => (11, 12),
            2 => (13, 14),
            _ => (15, 16),
        };
        inputs[4] = inputs[lo];
        inputs[5] = inputs[hi];
        out.push(Case::new("crypto", format!("fri_ext2fold4 segment {seg}"), "begin fri_ext2fold4 end").stack(inputs));
    }
    // rcomb_base (follows the operation's own test: x_ptr = 0, z_ptr = 2, a_ptr = 10)
    for r in 0..4usize {
        let adv: Vec<u64> =
            (0..72).map(|i| if (i + r) % 5 == 0 { B[(i / 5 + r) % 8] } else { rng.next() % P }).collect();
        out.push(
            Case::new(
                "crypto",
                format!("adv_pipe x9 + mem_stream + rcomb_base x8 #{r}"),
                "begin
                    push.0 padw adv_pipe
                    repeat.4 adv_pipe end
                    repeat.4 adv_pipe end
                    dropw dropw dropw drop
                    push.10 push.2 push.0
                    padw padw padw
                    mem_stream
                    repeat.8 rcomb_base end
                 end",
            )
            .adv(adv),
        );
    }
    // PRE-EXISTING DEFECT (unchanged code): when z_addr == a_addr the operation reads the same
    // memory word twice in the same cycle, and the memory chiplet then records a clock delta of -1
    out.push(
        Case::new("crypto", "rcomb_base with z_addr == a_addr", "begin rcomb_base end")
            .stack(vec![0, 5, 5, 0, 0, 0, 0, 0, 1, 2, 3, 4, 5, 6, 7, 8])
            .known("rcomb_base reads the same address twice in one cycle when z_addr == a_addr"),
    );
    out.push(
        Case::new("crypto", "rcomb_base on zero memory", "begin rcomb_base rcomb_base end")
            .stack(vec![0, 40, 30, 20, 0, 0, 0, 0, 1, 2, 3, 4, 5, 6, 7, 8]),
    );
}
