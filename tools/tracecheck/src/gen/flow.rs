//! Stack overflow table across spans / loops / calls / syscalls, control flow, kernels.

use super::*;

fn pushes(n: usize, base: u64) -> String {
    (0..n).map(|i| format!("push.{} ", (base + i as u64) % P)).collect()
}

pub fn overflow_family(out: &mut Vec<Case>) {
    let fam = "overflow-table";
    // --- a single span ---------------------------------------------------------------------------
    for n in 0..=40usize {
        for &inputs in &[0usize, 7, 16, 19] {
            out.push(
                Case::new(
                    fam,
                    format!("span: push {n}, drop {n}, {inputs} inputs"),
                    format!("begin {} {} end", pushes(n, P - 20), rep("drop", n)),
                )
                .stack(filler(inputs)),
            );
        }
        // push n, leave them in the overflow table at the end of the program
        out.push(
            Case::new(fam, format!("span: push {n} and keep"), format!("begin {} end", pushes(n, 65530)))
                .stack(filler(16)),
        );
        // more inputs than 16, then drop them all (and more)
        out.push(
            Case::new(fam, format!("span: {n} overflow inputs, drop all"), format!("begin {} end", rep("drop", n + 3)))
                .stack((0..16 + n).map(|i| B[i % 8]).collect()),
        );
    }
    // --- repeat / while loops --------------------------------------------------------------------
    for n in [0usize, 1, 2, 5, 16, 17, 40] {
        out.push(
            Case::new(
                fam,
                format!("repeat: push/drop {n} per iteration"),
                format!("begin repeat.5 {} {} end end", pushes(n, 1 << 32), rep("drop", n)),
            )
            .stack(filler(17)),
        );
        // a counted loop which pushes n items in the first loop and pops them in a second loop
        out.push(
            Case::new(
                fam,
                format!("while: grow by {n} then shrink"),
                format!(
                    "begin
                        push.{n} mem_store.0
                        push.{n} neq.0
                        while.true
                            clk sdepth add
                            mem_load.0 sub.1 dup mem_store.0 neq.0
                        end
                        push.{n} mem_store.0
                        push.{n} neq.0
                        while.true
                            drop
                            mem_load.0 sub.1 dup mem_store.0 neq.0
                        end
                     end"
                ),
            )
            .stack(filler(16)),
        );
        // if / else with different stack effects while the overflow table is in use
        for cond in [0, 1] {
            out.push(
                Case::new(
                    fam,
                    format!("if.{cond}: {n} items"),
                    format!(
                        "begin {} push.{cond} if.true {} else {} push.1 push.2 end {} end",
                        pushes(3, 7),
                        pushes(n, 9),
                        rep("drop", n.min(3)),
                        rep("drop", n + 2)
                    ),
                )
                .stack(filler(16)),
            );
        }
    }
    // --- calls / syscalls / nested calls -----------------------------------------------------------
    let ms = [0usize, 1, 3, 17, 40];
    let ns = [0usize, 1, 2, 17, 40];
    for &m in &ms {
        for &n in &ns {
            // body: push n, use them, drop n (depth is 16 at the end)
            let body = format!("{} sdepth drop {}", pushes(n, 65535), rep("drop", n));
            for ctx in [Ctx::Exec, Ctx::Call, Ctx::Nested, Ctx::Sys, Ctx::SysFromCall] {
                let phases = vec![
                    (Ctx::Root, pushes(m, 1 << 31)),
                    (ctx, body.clone()),
                    (Ctx::Root, format!("push.1 drop {}", rep("drop", m))),
                ];
                out.push(phased_case(fam, format!("{ctx:?}: caller overflow {m}, callee overflow {n}"), &phases, 0));
            }
            // callee leaves partially popped overflow in between two nested calls
            let inner = format!("{} {}", pushes(n, 3), rep("drop", n));
            let src = format!(
                "proc.inner {inner} end
                 proc.outer {} call.inner {} call.inner {} end
                 begin {} call.outer push.5 call.outer drop {} end",
                pushes(n, 11),
                rep("drop", n / 2),
                rep("drop", n - n / 2),
                pushes(m, 13),
                rep("drop", m)
            );
            out.push(Case::new(fam, format!("nested calls: caller {m}, callee {n}"), src).stack(filler(18)));
        }
    }
    // many overflow inputs, calls in between
    for extra in [1usize, 2, 9, 24] {
        out.push(
            Case::new(
                fam,
                format!("{extra} overflow inputs + call + syscall"),
                format!(
                    "proc.f push.1 push.2 push.3 drop drop drop drop drop end
                     begin call.f drop syscall.k push.9 call.f {} end",
                    rep("drop", extra)
                ),
            )
            .kernel("export.k push.4 push.5 add drop drop end")
            .stack((0..16 + extra).map(|i| B[(i + 2) % 8]).collect()),
        );
    }
    // dynexec / dyncall with a non-empty overflow table
    for m in [0usize, 2, 20] {
        for n in [0usize, 3, 20] {
            for ins in ["dynexec", "dyncall"] {
                out.push(
                    Case::new(
                        fam,
                        format!("{ins}: caller overflow {m}, callee overflow {n}"),
                        format!(
                            "proc.foo dropw {} {} end
                             begin {} procref.foo {ins} {} end",
                            pushes(n, 21),
                            rep("drop", n),
                            pushes(m, 17),
                            rep("drop", m + 4)
                        ),
                    )
                    .stack(filler(16)),
                );
            }
        }
    }
}

pub fn control_flow(out: &mut Vec<Case>) {
    let fam = "control-flow";
    // nested conditionals with all condition combinations
    for c in 0..8u32 {
        let (a, b, d) = (c & 1, (c >> 1) & 1, (c >> 2) & 1);
        out.push(
            Case::new(
                fam,
                format!("nested if {a}{b}{d}"),
                format!(
                    "begin
                        push.{a} if.true
                            push.{b} if.true push.1 push.2 u32wrapping_add else push.65535 push.1 u32overflowing_mul drop end
                        else
                            push.{d} if.true mem_load.5 else push.3 mem_store.5 push.0 end
                        end
                        push.{b} if.true swap end
                        push.{d} if.true else dup.3 end
                     end"
                ),
            )
            .stack(filler(16)),
        );
    }
    // loops: 0, 1, many iterations; nested loops; loops inside calls
    for n in [0u64, 1, 2, 7, 100] {
        out.push(Case::new(
            fam,
            format!("while x{n}"),
            format!(
                "begin push.{n} dup neq.0 while.true push.3 push.4 u32wrapping_mul drop sub.1 dup neq.0 end end"
            ),
        ));
        out.push(Case::new(
            fam,
            format!("nested while x{n}"),
            format!(
                "begin
                    push.{n} dup neq.0
                    while.true
                        push.3 dup neq.0 while.true sub.1 dup neq.0 end drop
                        sub.1 dup neq.0
                    end
                 end"
            ),
        ));
        out.push(Case::new(
            fam,
            format!("while x{n} inside call"),
            format!(
                "proc.f push.{n} dup neq.0 while.true push.1 mem_store.2 sub.1 dup neq.0 end drop end
                 begin call.f push.{n} call.f drop end"
            ),
        ));
        out.push(Case::new(
            fam,
            format!("repeat x{}", n + 1),
            format!("begin repeat.{} push.1 if.true push.2 drop else push.3 drop end end end", n + 1),
        ));
    }
    // repeated identical blocks (the hasher memoizes their traces)
    out.push(Case::new(
        fam,
        "memoized blocks",
        "proc.f push.1 push.2 add drop end
         begin
            call.f call.f exec.f exec.f
            push.1 if.true push.5 drop else push.6 drop end
            push.1 if.true push.5 drop else push.6 drop end
            push.0 if.true push.5 drop else push.6 drop end
            repeat.3 push.2 dup neq.0 while.true sub.1 dup neq.0 end drop end
         end",
    ));
    // long spans: 1 .. many operation batches
    for n in [1usize, 8, 9, 63, 64, 71, 72, 73, 143, 144, 145, 300, 1000] {
        out.push(Case::new(fam, format!("span of {n} ops"), format!("begin {} end", rep("neg", n))));
        out.push(Case::new(
            fam,
            format!("span of {n} pushes"),
            format!("begin {} {} end", pushes(n, P - 500), rep("drop", n)),
        ));
    }
    // dynexec / dyncall
    out.push(Case::new(
        fam,
        "dynexec + dyncall",
        "proc.foo dropw push.1 mem_store.0 end
         begin
            push.7 mem_store.0
            procref.foo dynexec
            procref.foo dyncall
            padw procref.foo dyncall
            mem_load.0
         end",
    ));
}

pub fn kernel_family(out: &mut Vec<Case>) {
    let fam = "kernel";
    let kprocs = [
        "export.k0 push.1 drop end",
        "export.k1 add end",
        "export.k2 push.3 mem_store.7 mem_load.7 drop end",
        "export.k3.2 push.9 loc_store.1 loc_load.1 drop end",
        "export.k4 caller end",
        "export.k5 push.65535 push.65537 u32overflowing_mul drop drop end",
        "export.k6 hperm end",
    ];
    for nk in [1usize, 2, 3, 7] {
        let kernel: String = kprocs[..nk].join("\n");
        // kernel present but never called
        out.push(
            Case::new(fam, format!("{nk} kernel procs, no syscall"), "begin push.1 push.2 add end")
                .kernel(kernel.clone())
                .stack(filler(16)),
        );
        // each procedure called once
        let calls: String = (0..nk).map(|i| format!("syscall.k{i} ")).collect();
        out.push(
            Case::new(fam, format!("{nk} kernel procs, each called once"), format!("begin {calls} end"))
                .kernel(kernel.clone())
                .stack(filler(16)),
        );
        // only the last one called, many times
        for times in [2usize, 9, 40] {
            out.push(
                Case::new(
                    fam,
                    format!("{nk} kernel procs, last called {times} times"),
                    format!("begin repeat.{times} syscall.k{} end end", nk - 1),
                )
                .kernel(kernel.clone())
                .stack(filler(16)),
            );
            out.push(
                Case::new(
                    fam,
                    format!("{nk} kernel procs, all called {times} times from a call"),
                    format!("proc.f {calls} end begin repeat.{times} call.f end end"),
                )
                .kernel(kernel.clone())
                .stack(filler(16)),
            );
        }
    }
    out.push(Case::new(fam, "kernel with an internal procedure only used by an export", "begin syscall.a syscall.a end")
        .kernel("proc.helper push.2 mem_store.1 end\nexport.a exec.helper mem_load.1 drop end"));
}
