//! Program family generators.

use crate::{measure, Case, Rng};
use processor::crypto::{MerkleStore, MerkleTree};
use vm_core::{Felt, Word};

mod basic;
mod flow;
mod mem;
mod regimes;
mod random;

pub const P: u64 = 0xFFFF_FFFF_0000_0001;
/// boundary operands
pub const B: [u64; 8] = [0, 1, 65535, 65536, 1 << 31, (1 << 32) - 1, 1 << 32, P - 1];
/// boundary operands which are valid u32 values
pub const BU32: [u64; 6] = [0, 1, 65535, 65536, 1 << 31, (1 << 32) - 1];
/// boundary memory addresses
pub const ADDRS: [u64; 8] =
    [0, 1, 65535, 65536, 65537, 1 << 31, (1 << 32) - 2, (1 << 32) - 1];

pub fn all_cases() -> Vec<Case> {
    let mut v = Vec::new();
    basic::single_instruction(&mut v);
    basic::immediates(&mut v);
    basic::stack_manipulation(&mut v);
    basic::io_instructions(&mut v);
    basic::crypto_instructions(&mut v);
    flow::overflow_family(&mut v);
    flow::control_flow(&mut v);
    flow::kernel_family(&mut v);
    mem::memory_contexts(&mut v);
    mem::memory_clock_gaps(&mut v);
    mem::memory_misc(&mut v);
    regimes::range_checker_family(&mut v);
    regimes::chiplet_dominated(&mut v);
    regimes::length_regimes(&mut v);
    random::stdlib_programs(&mut v);
    random::random_programs(&mut v);
    range_memory_coincidence(&mut v);
    v
}

/// /verif: a u32 range-checked operation executed at a clock cycle that equals the trace row of a memory-chiplet
/// access (both add 16-bit lookups for the same cycle).  The memory rows follow the hasher rows of the program
/// hash, so the padding sweep places the u32 operation on every cycle 3..70 for 1..5 memory accesses.
/// Added after the second C03 sub-agent's seed (range checker overwriting a cycle's lookups).
fn range_memory_coincidence(v: &mut Vec<Case>) {
    for m in 1..=5usize {
        for k in 0..=66usize {
            if (k + m) % 2 == 1 && k > 20 {
                continue; // thin out the far end of the sweep
            }
            let mem: String = (0..m).map(|i| format!("mem_load.{} drop ", i * 7)).collect();
            for (op, top) in [("u32split", 0xFFFF_0001_0002_0003u64 % P), ("u32overflowing_add", 65535), ("u32overflowing_mul", 65536)] {
                let src = format!("begin {mem}{}{op} end", rep("swap", k));
                let mut c = Case::new("range-memory-coincidence", format!("{op} after {m} loads and {k} swaps"), src);
                c.stack = stack_with_top(&[top % (1 << 32), 3]);
                if op == "u32split" {
                    c.stack = stack_with_top(&[top, 3]);
                }
                v.push(c);
            }
        }
    }
}

// SHARED HELPERS
// ================================================================================================

/// 16 filler values below the operands
pub fn filler(n: usize) -> Vec<u64> {
    (0..n).map(|i| 100 + i as u64).collect()
}

/// stack inputs: `ops[0]` ends up on top of the stack
pub fn stack_with_top(ops: &[u64]) -> Vec<u64> {
    let mut s = filler(16usize.saturating_sub(ops.len()));
    s.extend(ops.iter().rev());
    s
}

pub fn rep(s: &str, n: usize) -> String {
    let mut out = String::with_capacity((s.len() + 1) * n);
    for _ in 0..n {
        out.push_str(s);
        out.push(' ');
    }
    out
}

pub fn word_of(v: u64) -> Word {
    [Felt::new(v), Felt::new(v.wrapping_mul(3) % P), Felt::new(v ^ 0xABCD), Felt::new(v + 7)]
}

/// Merkle tree with 2^depth leaves (depth >= 1) and the store holding it
pub fn merkle(depth: u32, salt: u64) -> (MerkleTree, Vec<Word>, MerkleStore) {
    let leaves: Vec<Word> = (0..(1u64 << depth)).map(|i| word_of(i * 31 + salt)).collect();
    let tree = MerkleTree::new(leaves.clone()).unwrap();
    let store = MerkleStore::from(&tree);
    (tree, leaves, store)
}

pub fn word_ints(w: &Word) -> [u64; 4] {
    [w[0].as_int(), w[1].as_int(), w[2].as_int(), w[3].as_int()]
}

/// How a phase of a program is executed.
#[derive(Clone, Copy, Debug, PartialEq, Eq)]
pub enum Ctx {
    Root,
    Exec,
    Call,
    Nested,
    Sys,
    SysFromCall,
}

pub const CTXS4: [Ctx; 4] = [Ctx::Root, Ctx::Call, Ctx::Nested, Ctx::Sys];

/// Builds a program made of phases; every phase body must leave at most 16 items on the stack
/// when it runs in a call / syscall context. `locals` is the number of procedure locals given to
/// every generated procedure.
pub fn phased(phases: &[(Ctx, String)], locals: usize) -> (String, Option<String>) {
    let mut procs = String::new();
    let mut kernel = String::new();
    let mut main = String::new();
    let loc = if locals > 0 { format!(".{locals}") } else { String::new() };
    for (i, (ctx, body)) in phases.iter().enumerate() {
        match ctx {
            Ctx::Root => {
                main.push_str(body);
                main.push('\n');
            }
            Ctx::Exec => {
                procs.push_str(&format!("proc.p{i}{loc}\n {body}\nend\n"));
                main.push_str(&format!("exec.p{i}\n"));
            }
            Ctx::Call => {
                procs.push_str(&format!("proc.p{i}{loc}\n {body}\nend\n"));
                main.push_str(&format!("call.p{i}\n"));
            }
            Ctx::Nested => {
                procs.push_str(&format!("proc.q{i}{loc}\n {body}\nend\n"));
                procs.push_str(&format!("proc.p{i}\n call.q{i}\nend\n"));
                main.push_str(&format!("call.p{i}\n"));
            }
            Ctx::Sys => {
                // kernel procedures must be pairwise distinct
                let body = format!("push.{} drop {body}", 1000 + i);
                kernel.push_str(&format!("export.k{i}{loc}\n {body}\nend\n"));
                main.push_str(&format!("syscall.k{i}\n"));
            }
            Ctx::SysFromCall => {
                let body = format!("push.{} drop {body}", 1000 + i);
                kernel.push_str(&format!("export.k{i}{loc}\n {body}\nend\n"));
                procs.push_str(&format!("proc.p{i}\n syscall.k{i}\nend\n"));
                main.push_str(&format!("call.p{i}\n"));
            }
        }
    }
    let source = format!("{procs}begin\n{main}end\n");
    let kernel = if kernel.is_empty() { None } else { Some(kernel) };
    (source, kernel)
}

pub fn phased_case(
    family: &'static str,
    name: String,
    phases: &[(Ctx, String)],
    locals: usize,
) -> Case {
    let (source, kernel) = phased(phases, locals);
    let mut c = Case::new(family, name, source);
    c.kernel = kernel;
    c
}

/// Linear scan of a generator parameter: returns, for each wanted value of the measured quantity,
/// the first parameter which produces exactly that value.
pub fn tune(
    wanted: &[usize],
    start: usize,
    max_steps: usize,
    build: &dyn Fn(usize) -> Case,
    quantity: &dyn Fn((usize, usize, usize, usize)) -> usize,
) -> Vec<(usize, Case)> {
    let mut found: Vec<(usize, Case)> = Vec::new();
    let hi = *wanted.iter().max().unwrap();
    for step in 0..max_steps {
        let n = start + step;
        let case = build(n);
        let Some(m) = measure(&case) else { continue };
        let q = quantity(m);
        if wanted.contains(&q) && !found.iter().any(|(w, _)| *w == q) {
            found.push((q, case));
        }
        if q > hi || found.len() == wanted.len() {
            break;
        }
    }
    found
}

#[allow(dead_code)]
pub fn rng(seed: u64) -> Rng {
    Rng(seed)
}
