//! Checks performed on one execution trace:
//!
//! (a) terminal check: for every auxiliary column the first value and the value in the last row
//!     before the random row(s) must be the ones specified in docs/src/design/**;
//! (b) independent recount: the multiset of requests made by decoder / stack rows and the multiset
//!     of responses visible in chiplet rows (and the same for 16-bit range checks and for the
//!     stack overflow table) are recomputed from the *main* segment only, with raw column indices,
//!     and have to be equal.
//!
//! Nothing in here uses `air::trace::main_trace::MainTrace` or any code from
//! `processor/src/**/aux_trace*`; only the column layout constants from `air::trace`.

use std::collections::HashMap;

use air::trace::{
    chiplets::{
        BITWISE_A_COL_IDX, BITWISE_B_COL_IDX, BITWISE_OUTPUT_COL_IDX, BITWISE_SELECTOR_COL_IDX,
        HASHER_NODE_INDEX_COL_IDX, HASHER_STATE_COL_RANGE, MEMORY_ADDR_COL_IDX, MEMORY_CLK_COL_IDX,
        MEMORY_CTX_COL_IDX, MEMORY_D0_COL_IDX, MEMORY_D1_COL_IDX, MEMORY_SELECTORS_COL_IDX,
        MEMORY_V_COL_RANGE,
    },
    decoder::{
        ADDR_COL_IDX, HASHER_STATE_OFFSET, IS_CALL_FLAG_COL_IDX, IS_SYSCALL_FLAG_COL_IDX,
        OP_BITS_OFFSET, USER_OP_HELPERS_OFFSET,
    },
    range::{M_COL_IDX, V_COL_IDX},
    stack::{B0_COL_IDX, B1_COL_IDX},
    CHIPLETS_OFFSET, CLK_COL_IDX, CTX_COL_IDX, DECODER_TRACE_OFFSET, STACK_TRACE_OFFSET,
};
use processor::{ColMatrix, Kernel, StackInputs, StackOutputs};
use vm_core::{ExtensionOf, Felt, FieldElement, Operation, QuadExtension, StarkField, ONE, ZERO};

pub type E = QuadExtension<Felt>;

// AUX COLUMN INDICES (order in which ExecutionTrace::build_aux_segment() emits the columns)
// ================================================================================================
pub const COL_DEC_P1: usize = 0; // block stack table
pub const COL_DEC_P2: usize = 1; // block hash table
pub const COL_DEC_P3: usize = 2; // op group table
pub const COL_STACK_P1: usize = 3; // stack overflow table
pub const COL_B_RANGE: usize = 4; // range checker LogUp bus
pub const COL_VT_CHIP: usize = 5; // chiplets virtual table (sibling table + kernel proc table)
pub const COL_B_CHIP: usize = 6; // chiplets bus
pub const NUM_AUX_COLS: usize = 7;

pub const COL_NAMES: [&str; NUM_AUX_COLS] = [
    "decoder.p1(block-stack)",
    "decoder.p2(block-hash)",
    "decoder.p3(op-group)",
    "stack.p1(overflow)",
    "b_range",
    "vt_chip(sibling+kernel-proc)",
    "b_chip",
];

// pseudo "columns" used to label recount failures
pub const RC_CHIPLETS: &str = "recount:chiplets-bus";
pub const RC_RANGE: &str = "recount:range-checks";
pub const RC_OVERFLOW: &str = "recount:stack-overflow";

// OPCODES
// ================================================================================================
fn oc(op: Operation) -> u64 {
    op.op_code() as u64
}

pub struct Ops {
    pub join: u64,
    pub split: u64,
    pub r#loop: u64,
    pub dyn_: u64,
    pub call: u64,
    pub syscall: u64,
    pub span: u64,
    pub respan: u64,
    pub end: u64,
    pub u32and: u64,
    pub u32xor: u64,
    pub mloadw: u64,
    pub mstorew: u64,
    pub mload: u64,
    pub mstore: u64,
    pub mstream: u64,
    pub pipe: u64,
    pub rcomb: u64,
    pub hperm: u64,
    pub mpverify: u64,
    pub mrupdate: u64,
    pub u32rc: [u64; 8],
}

impl Ops {
    pub fn new() -> Self {
        Ops {
            join: oc(Operation::Join),
            split: oc(Operation::Split),
            r#loop: oc(Operation::Loop),
            dyn_: oc(Operation::Dyn),
            call: oc(Operation::Call),
            syscall: oc(Operation::SysCall),
            span: oc(Operation::Span),
            respan: oc(Operation::Respan),
            end: oc(Operation::End),
            u32and: oc(Operation::U32and),
            u32xor: oc(Operation::U32xor),
            mloadw: oc(Operation::MLoadW),
            mstorew: oc(Operation::MStoreW),
            mload: oc(Operation::MLoad),
            mstore: oc(Operation::MStore),
            mstream: oc(Operation::MStream),
            pipe: oc(Operation::Pipe),
            rcomb: oc(Operation::RCombBase),
            hperm: oc(Operation::HPerm),
            mpverify: oc(Operation::MpVerify),
            mrupdate: oc(Operation::MrUpdate),
            u32rc: [
                oc(Operation::U32add),
                oc(Operation::U32sub),
                oc(Operation::U32mul),
                oc(Operation::U32div),
                oc(Operation::U32split),
                oc(Operation::U32assert2(ZERO)),
                oc(Operation::U32add3),
                oc(Operation::U32madd),
            ],
        }
    }
}

// RAW MAIN TRACE VIEW
// ================================================================================================

pub struct Main<'a> {
    pub m: &'a ColMatrix<Felt>,
    /// index of the last row before the random row(s)
    pub last: usize,
}

impl<'a> Main<'a> {
    pub fn new(m: &'a ColMatrix<Felt>, num_rand_rows: usize) -> Self {
        Main { m, last: m.num_rows() - num_rand_rows - 1 }
    }
    #[inline(always)]
    pub fn g(&self, col: usize, row: usize) -> Felt {
        self.m.get(col, row)
    }
    pub fn clk(&self, r: usize) -> Felt {
        self.g(CLK_COL_IDX, r)
    }
    pub fn ctx(&self, r: usize) -> Felt {
        self.g(CTX_COL_IDX, r)
    }
    pub fn addr(&self, r: usize) -> Felt {
        self.g(DECODER_TRACE_OFFSET + ADDR_COL_IDX, r)
    }
    pub fn opcode(&self, r: usize) -> u64 {
        let mut v = 0u64;
        for b in 0..7 {
            let bit = self.g(DECODER_TRACE_OFFSET + OP_BITS_OFFSET + b, r).as_int();
            v += bit << b;
        }
        v
    }
    /// decoder hasher register h_i
    pub fn dh(&self, i: usize, r: usize) -> Felt {
        self.g(DECODER_TRACE_OFFSET + HASHER_STATE_OFFSET + i, r)
    }
    /// user-op helper register (these are decoder registers h2..h7)
    pub fn helper(&self, i: usize, r: usize) -> Felt {
        self.g(DECODER_TRACE_OFFSET + USER_OP_HELPERS_OFFSET + i, r)
    }
    pub fn s(&self, i: usize, r: usize) -> Felt {
        self.g(STACK_TRACE_OFFSET + i, r)
    }
    pub fn b0(&self, r: usize) -> Felt {
        self.g(STACK_TRACE_OFFSET + B0_COL_IDX, r)
    }
    pub fn b1(&self, r: usize) -> Felt {
        self.g(STACK_TRACE_OFFSET + B1_COL_IDX, r)
    }
    pub fn csel(&self, i: usize, r: usize) -> u64 {
        self.g(CHIPLETS_OFFSET + i, r).as_int()
    }
    pub fn has_op(&self, opcode: u64) -> bool {
        (0..self.last).any(|r| self.opcode(r) == opcode)
    }
    pub fn count_op(&self, opcode: u64) -> usize {
        (0..self.last).filter(|&r| self.opcode(r) == opcode).count()
    }
}

// FAILURES
// ================================================================================================

#[derive(Clone, Debug)]
pub struct Failure {
    /// aux column name or recount name
    pub column: String,
    /// row (of the aux column, or of the main trace for recounts)
    pub row: usize,
    pub detail: String,
    /// for chiplets-bus recount failures: the unbalanced tuple
    pub tuple: Option<[u64; 16]>,
}

impl Failure {
    pub fn new(column: impl Into<String>, row: usize, detail: impl Into<String>) -> Self {
        Failure { column: column.into(), row, detail: detail.into(), tuple: None }
    }
}

// (a) TERMINAL VALUE CHECK
// ================================================================================================

pub struct Expected {
    pub first: [E; NUM_AUX_COLS],
    pub last: [E; NUM_AUX_COLS],
}

/// Values the docs specify for the first row and for the last row before the random rows.
pub fn expected_boundaries(
    alphas: &[E],
    program_hash: [Felt; 4],
    kernel: &Kernel,
    stack_inputs: &StackInputs,
    stack_outputs: &StackOutputs,
) -> Expected {
    let mut first = [E::ONE; NUM_AUX_COLS];
    let mut last = [E::ONE; NUM_AUX_COLS];

    // decoder p2: starts with the row (0, program_hash, 0, 0), ends empty
    // (docs/src/design/decoder/constraints.md, "Block hash table constraints")
    first[COL_DEC_P2] = alphas[0]
        + alphas[2].mul_base(program_hash[0])
        + alphas[3].mul_base(program_hash[1])
        + alphas[4].mul_base(program_hash[2])
        + alphas[5].mul_base(program_hash[3]);

    // stack overflow table: rows for the stack inputs beyond the 16th, with addresses
    // -n, -n+1, ..., -1 and "previous" pointers chained, deepest item first
    // (docs/src/design/stack/main.md; public inputs / outputs variant as enforced by the AIR)
    let inputs = stack_inputs.values();
    if inputs.len() > 16 {
        let extra = &inputs[16..];
        let mut value = E::ONE;
        let mut prev = ZERO;
        let mut clk = -Felt::from(extra.len() as u32);
        for &v in extra.iter().rev() {
            value *=
                alphas[0] + alphas[1].mul_base(clk) + alphas[2].mul_base(v) + alphas[3].mul_base(prev);
            prev = clk;
            clk += ONE;
        }
        first[COL_STACK_P1] = value;
    }
    if stack_outputs.has_overflow() {
        let mut value = E::ONE;
        let mut prev = stack_outputs.overflow_prev();
        for (clk, v) in stack_outputs.stack_overflow() {
            value *=
                alphas[0] + alphas[1].mul_base(clk) + alphas[2].mul_base(v) + alphas[3].mul_base(prev);
            prev = clk;
        }
        last[COL_STACK_P1] = value;
    }

    // b_range: docs/src/design/range.md says the bus is initialised to 1 and must end with 1
    // (the sum of all  m/(alpha - v)  minus all requests is zero).

    // chiplets virtual table: 1 at the start, product of all kernel procedures at the end
    // (docs/src/design/chiplets/kernel_rom.md, "Kernel procedure table constraints")
    let mut kv = E::ONE;
    for (idx, h) in kernel.proc_hashes().iter().enumerate() {
        let h: [Felt; 4] = (*h).into();
        kv *= alphas[0]
            + alphas[1].mul_base(Felt::from(idx as u32))
            + alphas[2].mul_base(h[0])
            + alphas[3].mul_base(h[1])
            + alphas[4].mul_base(h[2])
            + alphas[5].mul_base(h[3]);
    }
    last[COL_VT_CHIP] = kv;

    Expected { first, last }
}

pub fn check_terminals(aux: &ColMatrix<E>, main: &Main, exp: &Expected) -> Vec<Failure> {
    let mut out = Vec::new();
    if aux.num_cols() != NUM_AUX_COLS {
        out.push(Failure::new(
            "aux-segment",
            0,
            format!("expected {} aux columns, got {}", NUM_AUX_COLS, aux.num_cols()),
        ));
        return out;
    }
    for c in 0..NUM_AUX_COLS {
        let f = aux.get(c, 0);
        if f != exp.first[c] {
            out.push(Failure::new(COL_NAMES[c], 0, format!("initial value {:?} != specified {:?}", f, exp.first[c])));
        }
        let l = aux.get(c, main.last);
        if l != exp.last[c] {
            out.push(Failure::new(COL_NAMES[c], main.last, format!("terminal value {:?} != specified {:?}", l, exp.last[c])));
        }
    }
    // sibling table part of vt_chip must be back to 1 where the hash chiplet ends
    // (docs/src/design/chiplets/main.md, "Chiplets virtual table constraints")
    let mut hasher_end = None;
    for r in 0..main.last {
        if main.csel(0, r) == 0 && main.csel(0, r + 1) == 1 {
            hasher_end = Some(r + 1);
            break;
        }
    }
    if let Some(r) = hasher_end {
        // vt_chip[r] holds the product over rows < r, i.e. over all hasher rows
        if aux.get(COL_VT_CHIP, r) != E::ONE {
            out.push(Failure::new(COL_NAMES[COL_VT_CHIP], r, "sibling table not empty at the end of the hash chiplet"));
        }
    }
    out
}

// (b) INDEPENDENT RECOUNT
// ================================================================================================

/// A bus message: coefficient of alpha_i for i in 0..16 (coefficient of alpha_0 is always 1).
type Msg = [u64; 16];

fn msg() -> [Felt; 16] {
    let mut m = [ZERO; 16];
    m[0] = ONE;
    m
}

fn key(m: &[Felt; 16]) -> Msg {
    let mut k = [0u64; 16];
    for i in 0..16 {
        k[i] = m[i].as_int();
    }
    k
}

// operation labels (docs/src/design/chiplets/main.md, "Operation labels")
const L_LINHASH: u64 = 3;
const L_MPVERIFY: u64 = 11;
const L_MRUPD_OLD: u64 = 7;
const L_MRUPD_NEW: u64 = 15;
const L_RETHASH: u64 = 1;
const L_RETSTATE: u64 = 9;
const L_AND: u64 = 2;
const L_XOR: u64 = 6;
const L_MEM_READ: u64 = 12;
const L_MEM_WRITE: u64 = 4;
const L_KROM: u64 = 8;

// transition label m = op_label + 2^4 * k0 + 2^5 * k2 (docs/src/design/chiplets/hasher.md):
// k2 = 1 on the first row of an 8-row cycle, k0 = 1 on the last one.
const FIRST_ROW: u64 = 32;
const LAST_ROW: u64 = 16;

fn f(v: u64) -> Felt {
    Felt::new(v)
}

#[derive(Default)]
pub struct Multiset {
    counts: HashMap<Msg, i64>,
    what: HashMap<Msg, String>,
}

impl Multiset {
    fn add(&mut self, m: &[Felt; 16], delta: i64, what: impl FnOnce() -> String) {
        let k = key(m);
        *self.counts.entry(k).or_insert(0) += delta;
        self.what.entry(k).or_insert_with(what);
    }
    fn request(&mut self, m: &[Felt; 16], row: usize, what: &str) {
        self.add(m, -1, || format!("{what} requested at main row {row}"));
    }
    fn response(&mut self, m: &[Felt; 16], row: usize, what: &str) {
        self.add(m, 1, || format!("{what} provided at chiplet row {row}"));
    }
    fn unbalanced(&self) -> Vec<(Msg, i64, String)> {
        let mut v: Vec<_> = self
            .counts
            .iter()
            .filter(|(_, &c)| c != 0)
            .map(|(k, &c)| (*k, c, self.what[k].clone()))
            .collect();
        v.sort_by(|a, b| a.2.cmp(&b.2));
        v
    }
}

fn mem_msg(label: u64, ctx: Felt, addr: Felt, clk: Felt, word: [Felt; 4]) -> [Felt; 16] {
    // v_mem = a0 + a1*op + a2*ctx + a3*addr + a4*clk + sum a_{5+j} v_j
    let mut m = msg();
    m[1] = f(label);
    m[2] = ctx;
    m[3] = addr;
    m[4] = clk;
    m[5..9].copy_from_slice(&word);
    m
}

pub fn recount_chiplets_bus(t: &Main, ops: &Ops) -> Vec<Failure> {
    let mut ms = Multiset::default();
    let n = t.last; // rows 0..n carry transitions (row n is the last non-random row)

    // ---------------------------------------------------------------------------------------
    // REQUESTS: decoder and stack rows
    // ---------------------------------------------------------------------------------------
    for r in 0..n {
        let op = t.opcode(r);
        if op == ops.join
            || op == ops.split
            || op == ops.r#loop
            || op == ops.dyn_
            || op == ops.call
            || op == ops.syscall
        {
            // u_ctrli = h_init + alpha_5 * d,
            // h_init = a0 + a1*m_bp + a2*a' + sum a_{i+8} h_i
            let mut m = msg();
            m[1] = f(L_LINHASH + FIRST_ROW);
            m[2] = t.addr(r + 1);
            m[5] = f(op);
            for i in 0..8 {
                m[8 + i] = t.dh(i, r);
            }
            ms.request(&m, r, "control block hash init");
            if op == ops.syscall {
                // kernel procedure access: a0 + a1*op_krom + sum a_{i+2} h_i (kernel_rom.md)
                let mut k = msg();
                k[1] = f(L_KROM);
                for i in 0..4 {
                    k[2 + i] = t.dh(i, r);
                }
                ms.request(&k, r, "kernel procedure access (SYSCALL)");
            }
        } else if op == ops.span {
            let mut m = msg();
            m[1] = f(L_LINHASH + FIRST_ROW);
            m[2] = t.addr(r + 1);
            for i in 0..8 {
                m[8 + i] = t.dh(i, r);
            }
            ms.request(&m, r, "span hash init");
        } else if op == ops.respan {
            // h_abp: absorb the next operation batch (h_0..h_7 of the RESPAN row) into the hasher;
            // the absorption happens in the last row of the previous 8-row cycle, i.e. in the
            // hasher row with address a' - 1. We compare the absorbed batch itself (the new rate)
            // rather than the rate delta used in the reduced bus value; for a multiset of tuples
            // this is equivalent: the old rate is a function of the hasher rows alone.
            let mut m = msg();
            m[1] = f(L_LINHASH + LAST_ROW);
            m[2] = t.addr(r + 1) - ONE;
            for i in 0..8 {
                m[8 + i] = t.dh(i, r);
            }
            ms.request(&m, r, "span batch absorb (RESPAN)");
        } else if op == ops.end {
            // h_res = a0 + a1*m_hout + a2*(a + 7) + sum a_{i+8} h_i, i < 4
            let mut m = msg();
            m[1] = f(L_RETHASH + LAST_ROW);
            m[2] = t.addr(r) + f(7);
            for i in 0..4 {
                m[8 + i] = t.dh(i, r);
            }
            ms.request(&m, r, "block hash result (END)");
        } else if op == ops.u32and || op == ops.u32xor {
            // u = a0 + a1*op_bit + a2*a + a3*b + a4*z. NOTE: the docs (stack/u32_ops.md) put s0
            // into the alpha_2 slot and s1 into the alpha_3 slot; the processor sends a = s1,
            // b = s0 to the chiplet. Both operations are commutative, we follow the processor.
            let mut m = msg();
            m[1] = f(if op == ops.u32and { L_AND } else { L_XOR });
            m[2] = t.s(1, r);
            m[3] = t.s(0, r);
            m[4] = t.s(0, r + 1);
            ms.request(&m, r, "bitwise");
        } else if op == ops.mloadw || op == ops.mstorew {
            let label = if op == ops.mloadw { L_MEM_READ } else { L_MEM_WRITE };
            let word = [t.s(3, r + 1), t.s(2, r + 1), t.s(1, r + 1), t.s(0, r + 1)];
            let m = mem_msg(label, t.ctx(r), t.s(0, r), t.clk(r), word);
            ms.request(&m, r, if op == ops.mloadw { "MLOADW" } else { "MSTOREW" });
        } else if op == ops.mload || op == ops.mstore {
            let label = if op == ops.mload { L_MEM_READ } else { L_MEM_WRITE };
            // v = a5*s0' + a6*h2 + a7*h1 + a8*h0
            let word = [t.s(0, r + 1), t.helper(2, r), t.helper(1, r), t.helper(0, r)];
            let m = mem_msg(label, t.ctx(r), t.s(0, r), t.clk(r), word);
            ms.request(&m, r, if op == ops.mload { "MLOAD" } else { "MSTORE" });
        } else if op == ops.mstream || op == ops.pipe {
            // MSTREAM: two reads from s12 and s12 + 1; PIPE (not in the docs): two writes
            let label = if op == ops.mstream { L_MEM_READ } else { L_MEM_WRITE };
            let w1 = [t.s(7, r + 1), t.s(6, r + 1), t.s(5, r + 1), t.s(4, r + 1)];
            let w2 = [t.s(3, r + 1), t.s(2, r + 1), t.s(1, r + 1), t.s(0, r + 1)];
            let a = t.s(12, r);
            let name = if op == ops.mstream { "MSTREAM" } else { "PIPE" };
            ms.request(&mem_msg(label, t.ctx(r), a, t.clk(r), w1), r, &format!("{name} word 1"));
            ms.request(
                &mem_msg(label, t.ctx(r), a + ONE, t.clk(r), w2),
                r,
                &format!("{name} word 2"),
            );
        } else if op == ops.rcomb {
            let w1 = [t.helper(0, r), t.helper(1, r), t.helper(2, r), t.helper(3, r)];
            let w2 = [t.helper(4, r), t.helper(5, r), ZERO, ZERO];
            ms.request(
                &mem_msg(L_MEM_READ, t.ctx(r), t.s(13, r), t.clk(r), w1),
                r,
                "RCOMBBASE z_ptr",
            );
            ms.request(
                &mem_msg(L_MEM_READ, t.ctx(r), t.s(14, r), t.clk(r), w2),
                r,
                "RCOMBBASE a_ptr",
            );
        } else if op == ops.hperm {
            // v_input  = a0 + a1*op_linhash  + a2*h0     + sum_{j<12} a_{j+4} s_{11-j}
            // v_output = a0 + a1*op_retstate + a2*(h0+7) + sum_{j<12} a_{j+4} s'_{11-j}
            let h0 = t.helper(0, r);
            let mut mi = msg();
            mi[1] = f(L_LINHASH + FIRST_ROW);
            mi[2] = h0;
            let mut mo = msg();
            mo[1] = f(L_RETSTATE + LAST_ROW);
            mo[2] = h0 + f(7);
            for j in 0..12 {
                mi[4 + j] = t.s(11 - j, r);
                mo[4 + j] = t.s(11 - j, r + 1);
            }
            ms.request(&mi, r, "HPERM input");
            ms.request(&mo, r, "HPERM output");
        } else if op == ops.mpverify {
            let h0 = t.helper(0, r);
            let d = t.s(4, r);
            let mut mi = msg();
            mi[1] = f(L_MPVERIFY + FIRST_ROW);
            mi[2] = h0;
            mi[3] = t.s(5, r);
            let mut mo = msg();
            mo[1] = f(L_RETHASH + LAST_ROW);
            mo[2] = h0 + d * f(8) - ONE;
            for j in 0..4 {
                mi[8 + j] = t.s(3 - j, r);
                mo[8 + j] = t.s(9 - j, r);
            }
            ms.request(&mi, r, "MPVERIFY leaf");
            ms.request(&mo, r, "MPVERIFY root");
        } else if op == ops.mrupdate {
            let h0 = t.helper(0, r);
            let d8 = t.s(4, r) * f(8);
            let idx = t.s(5, r);
            let mut io = msg();
            io[1] = f(L_MRUPD_OLD + FIRST_ROW);
            io[2] = h0;
            io[3] = idx;
            let mut oo = msg();
            oo[1] = f(L_RETHASH + LAST_ROW);
            oo[2] = h0 + d8 - ONE;
            let mut inw = msg();
            inw[1] = f(L_MRUPD_NEW + FIRST_ROW);
            inw[2] = h0 + d8;
            inw[3] = idx;
            let mut on = msg();
            on[1] = f(L_RETHASH + LAST_ROW);
            on[2] = h0 + d8 + d8 - ONE;
            for j in 0..4 {
                io[8 + j] = t.s(3 - j, r);
                oo[8 + j] = t.s(9 - j, r);
                inw[8 + j] = t.s(13 - j, r);
                on[8 + j] = t.s(3 - j, r + 1);
            }
            ms.request(&io, r, "MRUPDATE old leaf");
            ms.request(&oo, r, "MRUPDATE old root");
            ms.request(&inw, r, "MRUPDATE new leaf");
            ms.request(&on, r, "MRUPDATE new root");
        }
    }

    // ---------------------------------------------------------------------------------------
    // RESPONSES: chiplet rows
    // ---------------------------------------------------------------------------------------
    let mut bitwise_start: Option<usize> = None;
    for r in 0..n {
        let s0 = t.csel(0, r);
        let s1 = t.csel(1, r);
        let s2 = t.csel(2, r);
        let s3 = t.csel(3, r);
        if s0 == 0 {
            // ---- hash chiplet: selectors in chiplet columns 1..3, state in 4..15, index in 16 ----
            let hs = (s1, s2, s3);
            let cyc = r % 8;
            let st: Vec<Felt> = HASHER_STATE_COL_RANGE.map(|c| t.g(c, r)).collect();
            let i = t.g(HASHER_NODE_INDEX_COL_IDX, r);
            let mut m = msg();
            m[2] = f(r as u64 + 1);
            m[3] = i;
            if cyc == 0 {
                match hs {
                    (1, 0, 0) => {
                        // f_bp: v_all
                        m[1] = f(L_LINHASH + FIRST_ROW);
                        m[4..16].copy_from_slice(&st);
                        ms.response(&m, r, "hasher BP (linear hash / 2-to-1 / permutation init)");
                    }
                    (1, 0, 1) | (1, 1, 0) | (1, 1, 1) => {
                        // f_mp / f_mv / f_mu: v_leaf = v_h + (1-b) v_b + b v_d, b = i - 2 i'
                        let label = match hs {
                            (1, 0, 1) => L_MPVERIFY,
                            (1, 1, 0) => L_MRUPD_OLD,
                            _ => L_MRUPD_NEW,
                        };
                        let i_next = t.g(HASHER_NODE_INDEX_COL_IDX, r + 1);
                        let b = i - i_next.double();
                        m[1] = f(label + FIRST_ROW);
                        if b == ZERO {
                            m[8..12].copy_from_slice(&st[4..8]);
                        } else if b == ONE {
                            m[8..12].copy_from_slice(&st[8..12]);
                        } else {
                            return vec![Failure::new(RC_CHIPLETS, r, "hasher node index bit is not binary")];
                        }
                        ms.response(&m, r, "hasher Merkle path leaf (MP/MV/MU)");
                    }
                    _ => {}
                }
            } else if cyc == 7 {
                match hs {
                    (0, 0, 0) => {
                        m[1] = f(L_RETHASH + LAST_ROW);
                        m[8..12].copy_from_slice(&st[4..8]);
                        ms.response(&m, r, "hasher HOUT");
                    }
                    (0, 0, 1) => {
                        m[1] = f(L_RETSTATE + LAST_ROW);
                        m[4..16].copy_from_slice(&st);
                        ms.response(&m, r, "hasher SOUT");
                    }
                    (1, 0, 0) => {
                        // f_abp: next batch absorbed -> new rate is in the next row
                        m[1] = f(L_LINHASH + LAST_ROW);
                        for (j, c) in HASHER_STATE_COL_RANGE.skip(4).enumerate() {
                            m[8 + j] = t.g(c, r + 1);
                        }
                        ms.response(&m, r, "hasher ABP");
                    }
                    _ => {}
                }
            }
        } else if s1 == 0 {
            // ---- bitwise chiplet ----
            let start = *bitwise_start.get_or_insert(r);
            if (r - start) % 8 == 7 {
                let sel = t.g(BITWISE_SELECTOR_COL_IDX, r).as_int();
                let mut m = msg();
                m[1] = f(if sel == 0 { L_AND } else { L_XOR });
                m[2] = t.g(BITWISE_A_COL_IDX, r);
                m[3] = t.g(BITWISE_B_COL_IDX, r);
                m[4] = t.g(BITWISE_OUTPUT_COL_IDX, r);
                ms.response(&m, r, "bitwise chiplet");
            }
        } else if s2 == 0 {
            // ---- memory chiplet ----
            let is_read = t.g(MEMORY_SELECTORS_COL_IDX, r).as_int();
            let label = if is_read == 1 { L_MEM_READ } else { L_MEM_WRITE };
            let word = [
                t.g(MEMORY_V_COL_RANGE.start, r),
                t.g(MEMORY_V_COL_RANGE.start + 1, r),
                t.g(MEMORY_V_COL_RANGE.start + 2, r),
                t.g(MEMORY_V_COL_RANGE.start + 3, r),
            ];
            let m = mem_msg(
                label,
                t.g(MEMORY_CTX_COL_IDX, r),
                t.g(MEMORY_ADDR_COL_IDX, r),
                t.g(MEMORY_CLK_COL_IDX, r),
                word,
            );
            ms.response(&m, r, "memory chiplet");
        } else if s3 == 0 {
            // ---- kernel ROM chiplet: s0 | idx | r0..r3 in chiplet columns 4..9 ----
            if t.csel(4, r) == 1 {
                let mut m = msg();
                m[1] = f(L_KROM);
                for j in 0..4 {
                    m[2 + j] = t.g(CHIPLETS_OFFSET + 6 + j, r);
                }
                ms.response(&m, r, "kernel ROM");
            }
        }
    }

    ms.unbalanced()
        .into_iter()
        .map(|(k, c, what)| {
            let mut f = Failure::new(
                RC_CHIPLETS,
                0,
                format!(
                    "{} x [{}] : {} (tuple = coefficients of alpha_1..alpha_15: {:?})",
                    c.abs(),
                    if c < 0 { "request without response" } else { "response without request" },
                    what,
                    &k[1..]
                ),
            );
            f.tuple = Some(k);
            f
        })
        .collect()
}

/// 16-bit range checks: requested by u32 operations (helper registers h0..h3) and by the memory
/// chiplet (d0, d1) vs. the multiplicities in the range checker table.
pub fn recount_range_checks(t: &Main, ops: &Ops) -> Vec<Failure> {
    let mut counts: HashMap<u64, i64> = HashMap::new();
    let mut out = Vec::new();
    let n = t.last;
    for r in 0..n {
        let op = t.opcode(r);
        if ops.u32rc.contains(&op) {
            for i in 0..4 {
                *counts.entry(t.helper(i, r).as_int()).or_insert(0) -= 1;
            }
        }
        if t.csel(0, r) == 1 && t.csel(1, r) == 1 && t.csel(2, r) == 0 {
            *counts.entry(t.g(MEMORY_D0_COL_IDX, r).as_int()).or_insert(0) -= 1;
            *counts.entry(t.g(MEMORY_D1_COL_IDX, r).as_int()).or_insert(0) -= 1;
        }
    }
    for r in 0..=n {
        let m = t.g(M_COL_IDX, r).as_int();
        let v = t.g(V_COL_IDX, r).as_int();
        if v > 65535 {
            out.push(Failure::new(RC_RANGE, r, format!("range checker table holds a value {v} >= 2^16")));
        }
        if m > (1 << 32) {
            out.push(Failure::new(RC_RANGE, r, format!("implausible multiplicity {m}")));
            continue;
        }
        *counts.entry(v).or_insert(0) += m as i64;
    }
    // table shape: starts at 0, ends at 65535 (docs/src/design/range.md)
    if t.g(V_COL_IDX, 0) != ZERO || t.g(V_COL_IDX, n).as_int() != 65535 {
        out.push(Failure::new(RC_RANGE, n, "range checker table does not run from 0 to 65535"));
    }
    let mut bad: Vec<_> = counts.into_iter().filter(|(_, c)| *c != 0).collect();
    bad.sort();
    for (v, c) in bad {
        out.push(Failure::new(RC_RANGE, 0, format!(
                "value {v}: table multiplicity minus number of requests = {c} (should be 0)"
            )));
    }
    out
}

/// Stack overflow table: rows added by right shifts, removed by left shifts with a non-empty
/// overflow table; start = inputs beyond the 16th, end = outputs beyond the 16th. Shifts are
/// recognised from the stack depth column b0 (not from the op bits): b0' = b0 + 1 is a right
/// shift, b0' = b0 - 1 is a left shift that pulled an item out of the table. Rows on which the
/// depth is reset / restored by a context switch (CALL, SYSCALL, END of those) are skipped.
pub fn recount_overflow(
    t: &Main,
    ops: &Ops,
    stack_inputs: &StackInputs,
    stack_outputs: &StackOutputs,
) -> Vec<Failure> {
    type Row = [u64; 3];
    let mut counts: HashMap<Row, i64> = HashMap::new();
    let mut first_row: HashMap<Row, usize> = HashMap::new();
    let n = t.last;

    let inputs = stack_inputs.values();
    if inputs.len() > 16 {
        let extra = &inputs[16..];
        let mut prev = ZERO;
        let mut clk = -Felt::from(extra.len() as u32);
        for &v in extra.iter().rev() {
            *counts.entry([clk.as_int(), v.as_int(), prev.as_int()]).or_insert(0) += 1;
            prev = clk;
            clk += ONE;
        }
    }
    for r in 0..n {
        let op = t.opcode(r);
        let ctx_switch = op == ops.call
            || op == ops.syscall
            || (op == ops.end
                && (t.g(DECODER_TRACE_OFFSET + IS_CALL_FLAG_COL_IDX, r) == ONE
                    || t.g(DECODER_TRACE_OFFSET + IS_SYSCALL_FLAG_COL_IDX, r) == ONE));
        if ctx_switch {
            continue;
        }
        let d0 = t.b0(r).as_int();
        let d1 = t.b0(r + 1).as_int();
        if d1 == d0 + 1 {
            let row = [t.clk(r).as_int(), t.s(15, r).as_int(), t.b1(r).as_int()];
            *counts.entry(row).or_insert(0) += 1;
            first_row.entry(row).or_insert(r);
        } else if d1 + 1 == d0 {
            let row = [t.b1(r).as_int(), t.s(15, r + 1).as_int(), t.b1(r + 1).as_int()];
            *counts.entry(row).or_insert(0) -= 1;
            first_row.entry(row).or_insert(r);
        } else if d1 != d0 {
            return vec![Failure::new(RC_OVERFLOW, r, format!("stack depth jumps from {d0} to {d1}"))];
        }
    }
    if stack_outputs.has_overflow() {
        let mut prev = stack_outputs.overflow_prev();
        for (clk, v) in stack_outputs.stack_overflow() {
            *counts.entry([clk.as_int(), v.as_int(), prev.as_int()]).or_insert(0) -= 1;
            prev = clk;
        }
    }
    let mut out = Vec::new();
    let mut bad: Vec<_> = counts.into_iter().filter(|(_, c)| *c != 0).collect();
    bad.sort();
    for (row, c) in bad {
        out.push(Failure::new(RC_OVERFLOW, *first_row.get(&row).unwrap_or(&0), format!("overflow row (clk, val, prev) = {row:?}: added minus removed = {c}")));
    }
    out
}

// ROW-LEVEL LOCALISATION FOR THE DECODER TABLES p1 / p2
// ================================================================================================
//
// Reference running products computed from the main segment with the transition rules of
// docs/src/design/decoder/constraints.md ("Block stack table constraints", "Block hash table
// constraints"). They are only used to point at the first row at which a column that missed its
// terminal value departs from the documented rule (the docs do not describe the extra CALL /
// SYSCALL fields, so for programs with calls the hint may point at the first CALL).

fn red(alphas: &[E], vals: &[(usize, Felt)]) -> E {
    let mut v = alphas[0];
    for &(i, x) in vals {
        v += alphas[i].mul_base(x);
    }
    v
}

pub fn reference_p1(t: &Main, ops: &Ops, alphas: &[E]) -> Vec<E> {
    let mut col = vec![E::ONE; t.last + 1];
    for r in 0..t.last {
        let op = t.opcode(r);
        let a = t.addr(r);
        let a_next = t.addr(r + 1);
        let mut v = col[r];
        if op == ops.join || op == ops.split || op == ops.span || op == ops.dyn_ || op == ops.call
            || op == ops.syscall
        {
            v *= red(alphas, &[(1, a_next), (2, a)]);
        } else if op == ops.r#loop {
            v *= red(alphas, &[(1, a_next), (2, a), (3, t.s(0, r))]);
        } else if op == ops.respan {
            let parent = t.dh(1, r + 1);
            v *= red(alphas, &[(1, a_next), (2, parent)]);
            v /= red(alphas, &[(1, a), (2, parent)]);
        } else if op == ops.end {
            v /= red(alphas, &[(1, a), (2, a_next), (3, t.dh(5, r))]);
        }
        col[r + 1] = v;
    }
    col
}

pub fn reference_p2(t: &Main, ops: &Ops, alphas: &[E], program_hash: [Felt; 4]) -> Vec<E> {
    let repeat = Operation::Repeat.op_code() as u64;
    let halt = Operation::Halt.op_code() as u64;
    let mut col = vec![E::ONE; t.last + 1];
    col[0] = red(
        alphas,
        &[(2, program_hash[0]), (3, program_hash[1]), (4, program_hash[2]), (5, program_hash[3])],
    );
    for r in 0..t.last {
        let op = t.opcode(r);
        let a_next = t.addr(r + 1);
        let ch1 = red(
            alphas,
            &[(1, a_next), (2, t.dh(0, r)), (3, t.dh(1, r)), (4, t.dh(2, r)), (5, t.dh(3, r))],
        );
        let ch2 = red(
            alphas,
            &[(1, a_next), (2, t.dh(4, r)), (3, t.dh(5, r)), (4, t.dh(6, r)), (5, t.dh(7, r))],
        );
        let mut v = col[r];
        if op == ops.join {
            v *= (ch1 + alphas[6]) * ch2;
        } else if op == ops.split {
            v *= if t.s(0, r) == ONE { ch1 } else { ch2 };
        } else if op == ops.r#loop {
            if t.s(0, r) == ONE {
                v *= ch1 + alphas[7];
            }
        } else if op == repeat {
            v *= ch1 + alphas[7];
        } else if op == ops.dyn_ {
            v *= red(
                alphas,
                &[(1, a_next), (2, t.s(3, r)), (3, t.s(2, r)), (4, t.s(1, r)), (5, t.s(0, r))],
            );
        } else if op == ops.end {
            // the row is keyed by the PARENT block id, which is the address in the next row
            let nxt = t.opcode(r + 1);
            let first_child = !(nxt == ops.end || nxt == repeat || nxt == halt);
            let mut u = ch1 + alphas[7].mul_base(t.dh(4, r));
            if first_child {
                u += alphas[6];
            }
            v /= u;
        }
        col[r + 1] = v;
    }
    col
}

/// label of "start a linear hash / 2-to-1 hash" on the first row of a hasher cycle
pub const M_BP: u64 = L_LINHASH + FIRST_ROW;

#[allow(dead_code)]
pub fn modulus() -> u64 {
    Felt::MODULUS
}
