//! The generated family of programs.

use processor::crypto::{MerkleStore, MerkleTree};
use vm_core::{Felt, StarkField, Word};

pub const P: u64 = Felt::MODULUS;

#[derive(Clone)]
pub struct Case {
    pub name: String,
    pub source: String,
    pub kernel: Option<String>,
    /// stack inputs, top of the stack first
    pub stack: Vec<u64>,
    /// advice stack, first element is popped first
    pub advice: Vec<u64>,
    pub store: Option<MerkleStore>,
    /// the program is known to violate a documented precondition of an instruction
    pub precondition_violation: Option<&'static str>,
}

impl Case {
    pub fn new(name: impl Into<String>, source: impl Into<String>) -> Self {
        Case {
            name: name.into(),
            source: source.into(),
            kernel: None,
            stack: vec![],
            advice: vec![],
            store: None,
            precondition_violation: None,
        }
    }
    pub fn stack(mut self, s: Vec<u64>) -> Self {
        self.stack = s;
        self
    }
    pub fn advice(mut self, s: Vec<u64>) -> Self {
        self.advice = s;
        self
    }
    pub fn store(mut self, s: MerkleStore) -> Self {
        self.store = Some(s);
        self
    }
    pub fn kernel(mut self, k: impl Into<String>) -> Self {
        self.kernel = Some(k.into());
        self
    }
    pub fn violates(mut self, why: &'static str) -> Self {
        self.precondition_violation = Some(why);
        self
    }
}

// PRNG
// ================================================================================================

#[derive(Clone)]
pub struct Rng(pub u64);

impl Rng {
    pub fn next(&mut self) -> u64 {
        // splitmix64
        self.0 = self.0.wrapping_add(0x9E37_79B9_7F4A_7C15);
        let mut z = self.0;
        z = (z ^ (z >> 30)).wrapping_mul(0xBF58_476D_1CE4_E5B9);
        z = (z ^ (z >> 27)).wrapping_mul(0x94D0_49BB_1331_11EB);
        z ^ (z >> 31)
    }
    pub fn below(&mut self, n: u64) -> u64 {
        self.next() % n
    }
    pub fn felt(&mut self) -> u64 {
        self.next() % P
    }
    pub fn u32(&mut self) -> u64 {
        self.next() & 0xFFFF_FFFF
    }
    pub fn pick<'a, T>(&mut self, xs: &'a [T]) -> &'a T {
        &xs[self.below(xs.len() as u64) as usize]
    }
}

// VALUE SETS
// ================================================================================================

pub const B32: [u64; 13] = [
    0,
    1,
    2,
    0xFFFF,
    0x1_0000,
    0x7FFF_FFFF,
    0x8000_0000,
    0xFFFF_FFFE,
    0xFFFF_FFFF,
    0x5555_5555,
    0xAAAA_AAAA,
    0x0F0F_0F0F,
    0x1234_5678,
];

pub const BFELT: [u64; 10] = [
    0,
    1,
    0xFFFF_FFFF,
    0x1_0000_0000,
    0x1_0000_0001,
    0xFFFF_0000_FFFF,
    0xFFFF_FFFE_FFFF_FFFF,
    0xFFFF_FFFF_0000_0000, // p - 1
    0xFFFF_FFFE_0000_0001,
    0x8000_0000_0000_0000,
];

pub const ADDRS: [u64; 7] = [0, 1, 2, 0xFFFF, 0x1_0000, 0xFFFF_FFFD, 0xFFFF_FFFE];

// LEAVES / TREES
// ================================================================================================

pub fn word(seed: u64) -> Word {
    let mut r = Rng(seed ^ 0xABCD_EF01_2345_6789);
    [Felt::new(r.felt()), Felt::new(r.felt()), Felt::new(r.felt()), Felt::new(r.felt())]
}

pub fn tree(depth: u32, seed: u64) -> (MerkleTree, Vec<Word>) {
    let n = 1usize << depth;
    let leaves: Vec<Word> = (0..n).map(|i| word(seed * 1000 + i as u64)).collect();
    (MerkleTree::new(leaves.clone()).expect("tree"), leaves)
}

/// a word in "stack order": the last element of the word is on top
pub fn wstack(w: &Word) -> Vec<u64> {
    vec![w[3].as_int(), w[2].as_int(), w[1].as_int(), w[0].as_int()]
}

fn push_word(w: &Word) -> String {
    format!(
        "push.{}.{}.{}.{}",
        w[0].as_int(),
        w[1].as_int(),
        w[2].as_int(),
        w[3].as_int()
    )
}

// FAMILY 1: single operations with boundary operands
// ================================================================================================

fn fam_bitwise(out: &mut Vec<Case>) {
    for op in ["u32and", "u32xor", "u32or"] {
        for &a in B32.iter() {
            for &b in B32.iter() {
                out.push(
                    Case::new(format!("bitwise/{op}/{a:#x}/{b:#x}"), format!("begin {op} end"))
                        .stack(vec![b, a]),
                );
            }
        }
    }
    for &a in B32.iter() {
        out.push(Case::new(format!("bitwise/u32not/{a:#x}"), "begin u32not end").stack(vec![a]));
        // the same request twice (multiplicity 2) and mixed and / xor on the same operands
        for &b in [0u64, 0xFFFF_FFFF, 0x1234_5678].iter() {
            out.push(
                Case::new(
                    format!("bitwise/dup-requests/{a:#x}/{b:#x}"),
                    "begin dup.1 dup.1 u32and movdn.2 dup.1 dup.1 u32and movdn.2 dup.1 dup.1 \
                     u32xor movdn.2 u32xor end",
                )
                .stack(vec![b, a]),
            );
        }
    }
    // popcnt / clz / ... are built out of u32and / u32xor and u32 arithmetic
    for op in ["u32popcnt", "u32clz", "u32ctz", "u32clo", "u32cto"] {
        for &a in B32.iter() {
            out.push(
                Case::new(format!("bitwise/{op}/{a:#x}"), format!("begin {op} end")).stack(vec![a]),
            );
        }
    }
}

fn fam_u32_arith(out: &mut Vec<Case>) {
    let un = ["u32split", "u32assert", "u32cast", "u32test"];
    for op in un {
        let vals: Vec<u64> = if op == "u32assert" {
            B32.to_vec()
        } else {
            B32.iter().chain(BFELT.iter()).cloned().collect()
        };
        for a in vals {
            out.push(
                Case::new(format!("u32/{op}/{a:#x}"), format!("begin {op} end")).stack(vec![a]),
            );
        }
    }
    let bin = [
        "u32assert2",
        "u32wrapping_add",
        "u32overflowing_add",
        "u32wrapping_sub",
        "u32overflowing_sub",
        "u32wrapping_mul",
        "u32overflowing_mul",
        "u32div",
        "u32mod",
        "u32divmod",
        "u32lt",
        "u32lte",
        "u32gt",
        "u32gte",
        "u32min",
        "u32max",
    ];
    for op in bin {
        for &a in B32.iter() {
            for &b in B32.iter() {
                if b == 0 && (op == "u32div" || op == "u32mod" || op == "u32divmod") {
                    continue;
                }
                out.push(
                    Case::new(format!("u32/{op}/{a:#x}/{b:#x}"), format!("begin {op} end"))
                        .stack(vec![b, a]),
                );
            }
        }
    }
    for op in ["u32shl", "u32shr", "u32rotl", "u32rotr"] {
        for &a in B32.iter() {
            for b in [0u64, 1, 15, 16, 31] {
                out.push(
                    Case::new(format!("u32/{op}/{a:#x}/{b}"), format!("begin {op} end"))
                        .stack(vec![b, a]),
                );
            }
        }
    }
    let tri = [
        "u32overflowing_add3",
        "u32wrapping_add3",
        "u32overflowing_madd",
        "u32wrapping_madd",
    ];
    let v3 = [0u64, 1, 0xFFFF, 0x1_0000, 0x8000_0000, 0xFFFF_FFFF];
    for op in tri {
        for &a in v3.iter() {
            for &b in v3.iter() {
                for &c in v3.iter() {
                    out.push(
                        Case::new(
                            format!("u32/{op}/{a:#x}/{b:#x}/{c:#x}"),
                            format!("begin {op} end"),
                        )
                        .stack(vec![c, b, a]),
                    );
                }
            }
        }
    }
    out.push(
        Case::new("u32/u32assertw+testw", "begin u32assertw u32testw end")
            .stack(vec![0xFFFF_FFFF, 0, 0x1_0000, 0xFFFF]),
    );
}

fn fam_hash(out: &mut Vec<Case>, rng: &mut Rng) {
    let mut states: Vec<Vec<u64>> = vec![vec![0; 12], vec![1; 12], vec![P - 1; 12]];
    for _ in 0..5 {
        states.push((0..12).map(|_| rng.felt()).collect());
    }
    for (i, st) in states.iter().enumerate() {
        out.push(Case::new(format!("hash/hperm/{i}"), "begin hperm end").stack(st.clone()));
        out.push(Case::new(format!("hash/hperm-x3/{i}"), "begin hperm hperm hperm end").stack(st.clone()));
        out.push(Case::new(format!("hash/hash/{i}"), "begin hash end").stack(st[..4].to_vec()));
        out.push(Case::new(format!("hash/hmerge/{i}"), "begin hmerge end").stack(st[..8].to_vec()));
        out.push(
            Case::new(
                format!("hash/mixed/{i}"),
                "begin dupw hash movdnw.3 hmerge hperm padw swapw.3 dropw end",
            )
            .stack(st.clone()),
        );
    }
}

fn fam_memory(out: &mut Vec<Case>, rng: &mut Rng) {
    // address taken from the stack: no immediates
    for &a in ADDRS.iter().chain([0xFFFF_FFFFu64].iter()) {
        let w: Vec<u64> = (0..4).map(|_| rng.felt()).collect();
        // [a, W] -> store word, read it back as word and as element, overwrite element 0,
        // read again
        let mut st = vec![a];
        st.extend(&w);
        out.push(
            Case::new(
                format!("mem/word-roundtrip/{a:#x}"),
                format!(
                    "begin mem_storew dropw push.{a} mem_load drop padw push.{a} mem_loadw dropw \
                     push.{v} push.{a} mem_store push.{a} mem_load drop padw push.{a} mem_loadw \
                     dropw end",
                    v = rng.felt()
                ),
            )
            .stack(st),
        );
        // element store into a fresh word, then into a word with non-zero elements 1..3
        out.push(
            Case::new(
                format!("mem/elem-store/{a:#x}"),
                format!(
                    "begin push.{v1} mem_store.{a} push.{w0}.{w1}.{w2}.{w3} mem_storew.{a} dropw \
                     push.{v2} mem_store.{a} mem_load.{a} drop push.{v3} mem_store.{a} padw \
                     mem_loadw.{a} dropw end",
                    v1 = rng.felt(),
                    v2 = rng.felt(),
                    v3 = rng.felt(),
                    w0 = w[0],
                    w1 = w[1],
                    w2 = w[2],
                    w3 = w[3],
                ),
            ),
        );
        // reads of never written memory
        out.push(Case::new(
            format!("mem/init-reads/{a:#x}"),
            format!("begin mem_load.{a} mem_load.{a} padw mem_loadw.{a} end"),
        ));
    }
    // several addresses interleaved, repeated addresses, boundary values
    for k in 0..12 {
        let mut src = String::from("begin ");
        let n = 4 + rng.below(10);
        for _ in 0..n {
            let a = *rng.pick(&ADDRS);
            match rng.below(5) {
                0 => src += &format!("push.{} mem_store.{a} ", rng.pick(&BFELT)),
                1 => src += &format!("mem_load.{a} drop "),
                2 => src += &format!(
                    "push.{}.{}.{}.{} mem_storew.{a} dropw ",
                    rng.pick(&BFELT),
                    rng.felt(),
                    rng.pick(&BFELT),
                    rng.felt()
                ),
                3 => src += &format!("padw mem_loadw.{a} dropw "),
                _ => src += &format!("push.{a} mem_load drop "),
            }
        }
        src += "end";
        out.push(Case::new(format!("mem/mixed/{k}"), src));
    }

    // MSTREAM
    for &a in [0u64, 1, 0xFFFF, 0x1_0000, 0xFFFF_FFFD].iter() {
        let w: Vec<u64> = (0..8).map(|_| rng.felt()).collect();
        let mut st = w.clone();
        st.extend(vec![0u64; 8]);
        let a1 = a + 1;
        out.push(
            Case::new(
                format!("mem/mstream/{a:#x}"),
                format!(
                    "begin mem_storew.{a} dropw mem_storew.{a1} dropw push.{a} movdn.12 \
                     mem_stream end"
                ),
            )
            .stack(st.clone()),
        );
        // two streams over the same two words and one over fresh memory (second word only
        // is initialised)
        out.push(
            Case::new(
                format!("mem/mstream-repeat/{a:#x}"),
                format!(
                    "begin mem_storew.{a} dropw mem_storew.{a1} dropw push.{a} movdn.12 \
                     mem_stream movup.12 drop push.{a} movdn.12 mem_stream movup.12 drop \
                     push.{a1} movdn.12 mem_stream end"
                ),
            )
            .stack(st),
        );
        // address provided via the stack only: no immediates in the program
        let mut st2 = vec![0u64; 12];
        st2.push(a);
        out.push(Case::new(format!("mem/mstream-fresh/{a:#x}"), "begin mem_stream end").stack(st2));
    }
    // stream + hperm loop (linear hash of memory)
    {
        let mut src = String::from("begin ");
        for i in 0..6 {
            src += &format!("push.{}.{}.{}.{} mem_storew.{} dropw ", i + 1, i + 2, i + 3, i + 4, 100 + i);
        }
        src += "push.100 padw padw padw repeat.3 mem_stream hperm end end";
        out.push(Case::new("mem/mstream-hperm-loop", src));
    }

    // PIPE (adv_pipe)
    for &a in [0u64, 7, 0xFFFF_FFFB].iter() {
        let adv: Vec<u64> = (0..16).map(|_| rng.felt()).collect();
        let mut st = vec![0u64; 12];
        st.push(a);
        out.push(
            Case::new(format!("mem/adv_pipe/{a:#x}"), "begin adv_pipe end")
                .stack(st.clone())
                .advice(adv.clone()),
        );
        out.push(
            Case::new(
                format!("mem/adv_pipe-x2-readback/{a:#x}"),
                format!("begin adv_pipe hperm adv_pipe padw mem_loadw.{a} dropw end"),
            )
            .stack(st)
            .advice(adv),
        );
    }

    // RCOMBBASE
    for (k, &(zp, ap)) in
        [(10u64, 20u64), (0, 5), (0xFFFD, 0x1_0000), (0xFFFF_FFF0, 5)].iter().enumerate()
    {
        for reps in 1..=3u64 {
            let mut src = String::from("begin ");
            for j in 0..reps {
                src += &format!(
                    "push.{}.{}.{}.{} mem_storew.{} dropw ",
                    rng.felt(),
                    rng.felt(),
                    rng.felt(),
                    rng.felt(),
                    zp + j
                );
                src += &format!(
                    "push.{}.{}.0.0 mem_storew.{} dropw ",
                    rng.felt(),
                    rng.felt(),
                    ap + j
                );
            }
            src += &format!("push.{ap} push.{zp} push.3000 ");
            // accumulators and T values
            src += &format!(
                "push.{}.{}.{}.{} push.{}.{}.{}.{} push.{}.{}.{}.{} ",
                rng.felt(),
                rng.felt(),
                rng.felt(),
                rng.felt(),
                rng.felt(),
                rng.felt(),
                rng.felt(),
                rng.felt(),
                rng.felt(),
                rng.felt(),
                rng.felt(),
                rng.felt()
            );
            for _ in 0..reps {
                src += "rcomb_base ";
            }
            src += "end";
            out.push(Case::new(format!("mem/rcomb_base/{k}/x{reps}"), src));
        }
    }
    // a_ptr word with non-zero 3rd / 4th element: documented precondition of RCOMBBASE
    // ("the remaining elements of the word are expected to be empty")
    out.push(
        Case::new(
            "mem/rcomb_base/non-empty-alpha-word",
            "begin push.1.2.3.4 mem_storew.10 dropw push.5.6.7.8 mem_storew.20 dropw push.20 \
             push.10 push.3000 padw padw padw rcomb_base end",
        )
        .violates("RCOMBBASE: elements 2,3 of the word at a_ptr are not zero"),
    );
}

// FAMILY 2: memory accesses across contexts
// ================================================================================================

const KERNEL_MEM: &str = "
export.kmem
    push.41 mem_store.5 mem_load.5 drop padw mem_loadw.5 dropw mem_load.6 drop
    push.1.2.3.4 mem_storew.7 dropw
end
export.kloc.2
    push.7 loc_store.0 loc_load.0 drop push.9.8.7.6 loc_storew.1 dropw padw loc_loadw.1 dropw
end
export.kcaller
    caller dropw
end
";

fn fam_contexts(out: &mut Vec<Case>) {
    let procs = "
proc.leaf
    push.11 mem_store.5 mem_load.5 drop padw mem_loadw.5 dropw mem_load.6 drop
    push.1.2.3.4 mem_storew.7 dropw
end
proc.loc.3
    push.5 loc_store.0 loc_load.0 drop push.4.3.2.1 loc_storew.2 dropw padw loc_loadw.2 dropw
    loc_load.1 drop locaddr.1 drop
end
proc.mid
    push.22 mem_store.5 call.leaf mem_load.5 drop exec.loc call.loc
end
proc.top
    push.33 mem_store.5 call.mid mem_load.5 drop call.leaf
end
proc.dleaf
    dropw push.55 mem_store.5 mem_load.5 drop mem_load.7 drop
end
proc.stream
    push.1.2.3.4 mem_storew.40 dropw push.5.6.7.8 mem_storew.41 dropw
    push.40 movdn.12 mem_stream movup.12 drop
end
proc.sys
    syscall.kmem syscall.kloc syscall.kcaller
end
";
    let mains: [(&str, &str); 12] = [
        ("root-only", "push.44 mem_store.5 mem_load.5 drop exec.leaf mem_load.5 drop"),
        ("call", "push.44 mem_store.5 call.leaf mem_load.5 drop"),
        ("call-twice", "push.44 mem_store.5 call.leaf call.leaf mem_load.5 drop"),
        ("nested-call", "push.44 mem_store.5 call.mid mem_load.5 drop"),
        ("nested-call-3", "push.44 mem_store.5 call.top mem_load.5 drop call.mid"),
        ("syscall", "push.44 mem_store.5 syscall.kmem mem_load.5 drop mem_load.7 drop"),
        ("syscall-in-call", "push.44 mem_store.5 call.sys mem_load.5 drop"),
        ("locals", "exec.loc call.loc syscall.kloc exec.loc"),
        ("dyncall", "push.44 mem_store.5 procref.dleaf dyncall dropw mem_load.5 drop"),
        ("dynexec", "push.44 mem_store.5 procref.dleaf dynexec mem_load.5 drop"),
        ("stream-in-call", "call.stream exec.stream padw mem_loadw.40 dropw"),
        (
            "everything",
            "push.44 mem_store.5 call.top syscall.kmem procref.dleaf dyncall dropw call.sys \
             procref.dleaf dynexec call.stream mem_load.5 drop",
        ),
    ];
    for (name, body) in mains {
        out.push(
            Case::new(format!("ctx/{name}"), format!("{procs}\nbegin {body} end"))
                .kernel(KERNEL_MEM),
        );
    }
    // a call made while the overflow table is non-empty + memory in both contexts
    out.push(
        Case::new(
            "ctx/call-with-overflow",
            format!(
                "{procs}\nbegin push.1.2.3.4.5.6 push.9 mem_store.5 call.leaf call.mid \
                 syscall.kmem mem_load.5 drop dropw drop drop end"
            ),
        )
        .kernel(KERNEL_MEM),
    );
}

// FAMILY 3: spans of 1..3 batches with all kinds of push patterns
// ================================================================================================

fn render_span_pattern(pattern: &[u8], vals: &mut Rng) -> String {
    // 0: op without immediate, 1: push with immediate, 2: drop
    let mut s = String::new();
    for (i, &p) in pattern.iter().enumerate() {
        match p {
            1 => s += &format!("push.{} ", 2 + vals.below(1 << 40)),
            2 => s += "drop ",
            _ => s += ["neg ", "swap ", "add.1 ", "neg neg ", "dup.3 drop "][i % 5].trim_end(),
        }
        s.push(' ');
    }
    s
}

fn fam_spans(out: &mut Vec<Case>, rng: &mut Rng) {
    // periodic patterns: a push every k-th operation, offset o, total length n
    for &n in [1usize, 2, 7, 8, 9, 10, 17, 35, 63, 64, 65, 71, 72, 73, 80, 100, 143, 144, 145, 160, 200].iter() {
        for k in [1usize, 2, 3, 5, 8, 9, 10, 1000] {
            for o in [0usize, 1, 8] {
                if o >= k.min(n) && o != 0 {
                    continue;
                }
                let pat: Vec<u8> = (0..n)
                    .map(|i| if i % k == o % k { 1 } else if i % 3 == 2 { 2 } else { 0 })
                    .collect();
                let pushes = pat.iter().filter(|&&p| p == 1).count();
                let drops = pat.iter().filter(|&&p| p == 2).count();
                let mut src = format!("begin {}", render_span_pattern(&pat, rng));
                // leave the stack at depth 16 (drops at depth 16 are no-ops for the depth)
                for _ in 0..pushes.saturating_sub(drops).min(pushes) {
                    src += "drop ";
                }
                src += "end";
                out.push(Case::new(format!("span/periodic/n{n}/k{k}/o{o}"), src));
            }
        }
    }
    // pushes only at the very end of a group / batch, and long runs of pushes
    for lead in [0usize, 6, 7, 8, 9, 16, 17, 62, 63, 64, 70, 71, 72] {
        for run in [1usize, 2, 7, 8, 9, 15, 16] {
            let mut pat = vec![0u8; lead];
            pat.extend(vec![1u8; run]);
            pat.extend(vec![2u8; run]);
            let src = format!("begin {}end", render_span_pattern(&pat, rng));
            out.push(Case::new(format!("span/run/lead{lead}/run{run}"), src));
        }
    }
    // random masks
    for i in 0..60 {
        let n = 1 + rng.below(210) as usize;
        let dens = 1 + rng.below(6);
        let pat: Vec<u8> = (0..n)
            .map(|_| {
                let x = rng.below(6);
                if x < dens.min(3) {
                    1
                } else if x == 5 {
                    2
                } else {
                    0
                }
            })
            .collect();
        let pushes = pat.iter().filter(|&&p| p == 1).count();
        let mut src = format!("begin {}", render_span_pattern(&pat, rng));
        for _ in 0..pushes {
            src += "drop ";
        }
        src += "end";
        out.push(Case::new(format!("span/random/{i}"), src));
    }
    // the same multi-batch span executed several times (hasher memoisation)
    out.push(Case::new(
        "span/memoized-multibatch",
        "proc.big push.2.3.4.5.6.7.8.9.10.11.12 dropw dropw drop drop drop end \
         begin exec.big push.1 if.true exec.big else exec.big end exec.big end",
    ));
    out.push(Case::new(
        "span/repeat-multibatch",
        "begin repeat.5 push.2.3.4.5.6.7.8.9.10.11.12 dropw dropw drop drop drop \
         push.1 if.true push.2.3.4.5.6.7.8.9.10.11.12 dropw dropw drop drop drop end end end",
    ));
}

// FAMILY 4 + 8: control flow nestings (systematic and random)
// ================================================================================================

#[derive(Clone, Copy, PartialEq, Eq, Debug)]
pub enum Kind {
    Join,
    IfTrue,
    IfFalse,
    While0,
    While1,
    While3,
    Call,
    Syscall,
    DynExec,
    DynCall,
}

pub const KINDS: [Kind; 10] = [
    Kind::Join,
    Kind::IfTrue,
    Kind::IfFalse,
    Kind::While0,
    Kind::While1,
    Kind::While3,
    Kind::Call,
    Kind::Syscall,
    Kind::DynExec,
    Kind::DynCall,
];

#[derive(Default)]
pub struct ProgBuilder {
    pub procs: Vec<String>,
    pub kprocs: Vec<String>,
}

impl ProgBuilder {
    /// Wraps `inner` (a stack-neutral code fragment which preserves all existing stack items) into
    /// a control structure of the given kind. `in_kernel` says whether the fragment is going to be
    /// emitted into a kernel procedure.
    pub fn wrap(&mut self, kind: Kind, inner: &str, alt: &str, in_kernel: bool) -> String {
        match kind {
            Kind::Join => format!("neg neg {inner} swap swap "),
            Kind::IfTrue => format!("push.1 if.true {inner} else {alt} end "),
            Kind::IfFalse => format!("push.0 if.true {alt} else {inner} end "),
            Kind::While0 => format!("push.0 while.true {inner} push.0 end "),
            Kind::While1 => format!("push.1 while.true {inner} push.0 end "),
            Kind::While3 => format!(
                "push.3 dup.0 neq.0 while.true {inner} sub.1 dup.0 neq.0 end drop "
            ),
            Kind::Call => {
                let id = self.procs.len();
                self.procs.push(format!("proc.p{id} {inner} end\n"));
                format!("call.p{id} ")
            }
            Kind::Syscall => {
                assert!(!in_kernel);
                let id = self.kprocs.len();
                self.kprocs.push(format!("export.k{id} {inner} end\n"));
                format!("syscall.k{id} ")
            }
            Kind::DynExec => {
                if in_kernel {
                    // procref to local procedures of a kernel module is not needed for the
                    // purpose of this family; fall back to a join
                    return format!("neg neg {inner} swap swap ");
                }
                let id = self.procs.len();
                self.procs.push(format!("proc.p{id} dropw {inner} end\n"));
                format!("procref.p{id} dynexec ")
            }
            Kind::DynCall => {
                assert!(!in_kernel);
                let id = self.procs.len();
                self.procs.push(format!("proc.p{id} dropw {inner} end\n"));
                // after the return the 4 zeros shifted in by `dropw` sit in positions 12..15
                format!("procref.p{id} dyncall movup.12 drop movup.12 drop movup.12 drop movup.12 drop ")
            }
        }
    }

    pub fn finish(self, name: String, body: &str) -> Case {
        // procedures were pushed innermost first, which is the order the assembler needs
        let mut src = String::new();
        for p in &self.procs {
            src += p;
        }
        src += &format!("begin {body} end");
        let c = Case::new(name, src);
        if self.kprocs.is_empty() {
            c
        } else {
            c.kernel(self.kprocs.concat())
        }
    }
}

fn changes_context(k: Kind) -> bool {
    matches!(k, Kind::Call | Kind::Syscall | Kind::DynCall)
}

/// `chain[0]` is the outermost construct
pub fn nest_case(name: String, chain: &[Kind], leaf: &str, alt: &str) -> Option<Case> {
    // no call / syscall / dyncall below a syscall
    if let Some(pos) = chain.iter().position(|&k| k == Kind::Syscall) {
        if chain[pos + 1..].iter().any(|&k| changes_context(k) || k == Kind::DynExec) {
            return None;
        }
    }
    let mut b = ProgBuilder::default();
    let mut cur = leaf.to_string();
    for (lvl, &k) in chain.iter().enumerate().rev() {
        let in_kernel = chain[..lvl].iter().any(|&o| o == Kind::Syscall);
        cur = b.wrap(k, &cur, alt, in_kernel);
    }
    Some(b.finish(name, &cur))
}

const LEAVES: [&str; 6] = [
    "push.7 mem_store.3 mem_load.3 drop ",
    "push.6 push.12 u32and drop ",
    "padw padw padw hperm dropw dropw dropw ",
    "push.5 push.9 u32xor push.4 mem_store.1 drop ",
    "push.3.4.5.6 mem_storew.2 dropw padw mem_loadw.2 dropw ",
    "push.1.2 u32overflowing_add drop drop ",
];

fn fam_nesting(out: &mut Vec<Case>, rng: &mut Rng) {
    let alt = "neg neg ";
    let mut li = 0usize;
    let mut leaf = || {
        li += 1;
        LEAVES[li % LEAVES.len()]
    };
    for &a in KINDS.iter() {
        if let Some(c) = nest_case(format!("nest/1/{a:?}"), &[a], leaf(), alt) {
            out.push(c);
        }
        for &b in KINDS.iter() {
            if let Some(c) = nest_case(format!("nest/2/{a:?}-{b:?}"), &[a, b], leaf(), alt) {
                out.push(c);
            }
            for &c3 in KINDS.iter() {
                if let Some(c) =
                    nest_case(format!("nest/3/{a:?}-{b:?}-{c3:?}"), &[a, b, c3], leaf(), alt)
                {
                    out.push(c);
                }
            }
        }
    }
    // depth 4: a pseudo-random sample
    let mut n = 0;
    while n < 400 {
        let ch = [*rng.pick(&KINDS), *rng.pick(&KINDS), *rng.pick(&KINDS), *rng.pick(&KINDS)];
        if let Some(c) = nest_case(
            format!("nest/4/{:?}-{:?}-{:?}-{:?}", ch[0], ch[1], ch[2], ch[3]),
            &ch,
            leaf(),
            alt,
        ) {
            out.push(c);
            n += 1;
        }
    }
    // the same nestings with a non-empty overflow table around them
    for &a in KINDS.iter() {
        for &b in KINDS.iter() {
            if let Some(mut c) = nest_case(format!("nest/2-deep-stack/{a:?}-{b:?}"), &[a, b], leaf(), alt)
            {
                c.source = c.source.replace("begin ", "begin push.1.2.3.4.5 ").replace(
                    " end",
                    " end",
                );
                // drop the 5 extra items again right before the final `end`
                let idx = c.source.rfind("end").unwrap();
                c.source.insert_str(idx, "dropw drop ");
                out.push(c);
            }
        }
    }
}

/// random tree with several children per level
fn random_block(b: &mut ProgBuilder, rng: &mut Rng, depth: u32, in_kernel: bool, below_ctx: bool) -> String {
    let mut s = String::new();
    let n = 1 + rng.below(3);
    for _ in 0..n {
        if depth == 0 || rng.below(4) == 0 {
            s += random_leaf(rng).as_str();
            continue;
        }
        let mut k = *rng.pick(&KINDS);
        if in_kernel && (changes_context(k) || k == Kind::DynExec) {
            k = Kind::IfTrue;
        }
        let _ = below_ctx;
        let inner_kernel = in_kernel || k == Kind::Syscall;
        let inner = random_block(b, rng, depth - 1, inner_kernel, below_ctx || changes_context(k));
        let alt = random_leaf(rng);
        s += &b.wrap(k, &inner, &alt, in_kernel);
    }
    s
}

fn random_leaf(rng: &mut Rng) -> String {
    let a = *rng.pick(&ADDRS);
    match rng.below(14) {
        0 => format!("push.{} push.{} u32and drop ", rng.pick(&B32), rng.pick(&B32)),
        1 => format!("push.{} push.{} u32xor drop ", rng.pick(&B32), rng.u32()),
        2 => format!("push.{} mem_store.{a} ", rng.pick(&BFELT)),
        3 => format!("mem_load.{a} drop "),
        4 => format!("push.{}.{}.{}.{} mem_storew.{a} dropw ", rng.felt(), rng.felt(), 0, 1),
        5 => format!("padw mem_loadw.{a} dropw "),
        6 => "padw padw padw hperm dropw dropw dropw ".to_string(),
        7 => format!("push.{} push.{} u32overflowing_mul drop drop ", rng.u32(), rng.u32()),
        8 => format!("push.{} u32split drop drop ", rng.pick(&BFELT)),
        9 => format!(
            "push.{} push.{} push.{} u32overflowing_madd drop drop ",
            rng.u32(),
            rng.u32(),
            rng.u32()
        ),
        10 => {
            // deep stack excursion
            let n = 1 + rng.below(20);
            let mut s = String::new();
            for i in 0..n {
                s += &format!("push.{} ", i + 2);
            }
            s += "swapdw swapdw swapw.3 swapw.3 ";
            for _ in 0..n {
                s += "drop ";
            }
            s
        }
        11 => format!("push.{} push.{} u32or drop ", rng.u32(), rng.pick(&B32)),
        12 => format!(
            "padw padw padw push.{a} movdn.12 mem_stream movup.12 drop dropw dropw dropw "
        ),
        _ => "push.1.2.3.4 hash dropw ".to_string(),
    }
}

fn fam_random(out: &mut Vec<Case>, rng: &mut Rng, count: usize) {
    for i in 0..count {
        let mut b = ProgBuilder::default();
        let depth = 1 + (i as u32 % 4);
        let body = random_block(&mut b, rng, depth, false, false);
        out.push(b.finish(format!("random/{i}/depth{depth}"), &body));
    }
}

// FAMILY 5: kernels
// ================================================================================================

fn fam_kernels(out: &mut Vec<Case>) {
    let k1 = "export.ka push.3 mem_store.1 end\n";
    let k3 = "export.ka push.3 mem_store.1 end\nexport.kb push.2 push.5 u32and drop end\n\
              export.kc padw padw padw hperm dropw dropw dropw end\n";
    // no kernel at all and a program that never syscalls
    out.push(Case::new("kernel/none", "begin push.1 drop end"));
    for (kn, ksrc, names) in [("k1", k1, vec!["ka"]), ("k3", k3, vec!["ka", "kb", "kc"])] {
        out.push(Case::new(format!("kernel/{kn}/called-0"), "begin push.1 drop end").kernel(ksrc));
        for (j, nm) in names.iter().enumerate() {
            out.push(
                Case::new(format!("kernel/{kn}/{nm}-once"), format!("begin syscall.{nm} end"))
                    .kernel(ksrc),
            );
            out.push(
                Case::new(
                    format!("kernel/{kn}/{nm}-x5"),
                    format!("begin repeat.5 syscall.{nm} end end"),
                )
                .kernel(ksrc),
            );
            let _ = j;
        }
        let all: String = names.iter().map(|n| format!("syscall.{n} ")).collect();
        out.push(
            Case::new(format!("kernel/{kn}/all-once"), format!("begin {all} end")).kernel(ksrc),
        );
        out.push(
            Case::new(
                format!("kernel/{kn}/all-many"),
                format!(
                    "proc.w {all} end begin {all} push.4 dup.0 neq.0 while.true {all} call.w \
                     sub.1 dup.0 neq.0 end drop {all} end"
                ),
            )
            .kernel(ksrc),
        );
        if names.len() == 3 {
            out.push(
                Case::new(
                    "kernel/k3/first-and-last-only",
                    "begin syscall.ka syscall.kc syscall.kc syscall.ka syscall.kc end",
                )
                .kernel(ksrc),
            );
            out.push(
                Case::new("kernel/k3/middle-only-x3", "begin syscall.kb syscall.kb syscall.kb end")
                    .kernel(ksrc),
            );
        }
    }
}

// FAMILY 6: Merkle operations
// ================================================================================================

fn fam_merkle(out: &mut Vec<Case>, rng: &mut Rng) {
    for depth in 1..=8u32 {
        let (t, leaves) = tree(depth, depth as u64);
        let store = MerkleStore::from(&t);
        let root: Word = t.root().into();
        let n = 1u64 << depth;
        let mut idxs = vec![0u64, 1, n - 1, n - 2, n / 2, n / 2 - 1.min(n / 2)];
        idxs.push(rng.below(n));
        idxs.push(rng.below(n));
        idxs.sort();
        idxs.dedup();
        idxs.retain(|&i| i < n);
        for &i in idxs.iter() {
            // mtree_get: [d, i, R]
            let mut st = vec![depth as u64, i];
            st.extend(wstack(&root));
            out.push(
                Case::new(format!("merkle/get/d{depth}/i{i}"), "begin mtree_get end")
                    .stack(st.clone())
                    .store(store.clone()),
            );
            // mtree_verify: [V, d, i, R]
            let mut sv = wstack(&leaves[i as usize]);
            sv.extend(st.clone());
            out.push(
                Case::new(format!("merkle/verify/d{depth}/i{i}"), "begin mtree_verify end")
                    .stack(sv)
                    .store(store.clone()),
            );
            // mtree_set: [d, i, R, V']
            let nv = word(777 + i);
            let mut ss = st.clone();
            ss.extend(wstack(&nv));
            out.push(
                Case::new(format!("merkle/set/d{depth}/i{i}"), "begin mtree_set end")
                    .stack(ss.clone())
                    .store(store.clone()),
            );
            // the same tree updated twice: [V_old, R'] -> set another leaf of R'
            let j = (i + 1) % n;
            let nv2 = word(888 + j);
            // after the first set: [V_old(4), R'(4), ...]; drop V_old, push d, j -> need V'' below R'
            // inputs are laid out so that V'' is already sitting below R
            let mut s2 = ss.clone();
            s2.extend(wstack(&nv2));
            out.push(
                Case::new(
                    format!("merkle/set-twice/d{depth}/i{i}-j{j}"),
                    format!("begin mtree_set dropw push.{j} push.{depth} mtree_set dropw push.{j} push.{depth} mtree_get end"),
                )
                .stack(s2.clone())
                .store(store.clone()),
            );
            // same leaf updated twice
            out.push(
                Case::new(
                    format!("merkle/set-same-leaf-twice/d{depth}/i{i}"),
                    format!("begin mtree_set dropw push.{i} push.{depth} mtree_set end"),
                )
                .stack(s2)
                .store(store.clone()),
            );
        }
        // get the same node twice (identical hasher inputs, different addresses)
        let mut st = vec![depth as u64, 0];
        st.extend(wstack(&root));
        out.push(
            Case::new(
                format!("merkle/get-twice/d{depth}"),
                format!("begin mtree_get dropw push.0 push.{depth} mtree_get end"),
            )
            .stack(st)
            .store(store.clone()),
        );
        // merge two trees and open a leaf in each half
        let (t2, leaves2) = tree(depth, 100 + depth as u64);
        let mut store2 = store.clone();
        store2.extend(t2.inner_nodes());
        let root2: Word = t2.root().into();
        let mut sm = wstack(&root2);
        sm.extend(wstack(&root));
        let last = (1u64 << (depth + 1)) - 1;
        out.push(
            Case::new(
                format!("merkle/merge/d{depth}"),
                format!(
                    "begin mtree_merge push.0 push.{d1} mtree_get dropw push.{last} push.{d1} \
                     mtree_get end",
                    d1 = depth + 1
                ),
            )
            .stack(sm)
            .store(store2),
        );
        let _ = leaves2;
    }
    // Merkle ops in other contexts / inside loops, roots kept in memory
    let (t, _l) = tree(3, 42);
    let store = MerkleStore::from(&t);
    let root: Word = t.root().into();
    let pw = push_word(&root);
    out.push(
        Case::new(
            "merkle/in-call-and-loop",
            format!(
                "proc.g {pw} push.5 push.3 mtree_get dropw dropw end \
                 begin call.g exec.g push.3 dup.0 neq.0 while.true call.g sub.1 dup.0 neq.0 end \
                 drop end"
            ),
        )
        .store(store.clone()),
    );
    out.push(
        Case::new(
            "merkle/set-in-loop",
            format!(
                "begin {pw} mem_storew.50 dropw push.4 dup.0 neq.0 while.true push.9.9.9.9 padw \
                 mem_loadw.50 dup.8 push.3 mtree_set dropw mem_storew.50 dropw sub.1 dup.0 neq.0 \
                 end drop end"
            ),
        )
        .store(store),
    );
}

// FAMILY 7: stack overflow table
// ================================================================================================

fn fam_overflow(out: &mut Vec<Case>, rng: &mut Rng) {
    for n in 0..=40usize {
        let mut src = String::from("begin ");
        for i in 0..n {
            src += &format!("push.{} ", i + 2);
        }
        src += "swap movup.5 ";
        for _ in 0..n {
            src += "drop ";
        }
        src += "end";
        out.push(Case::new(format!("overflow/push-drop/{n}"), src));

        // n extra stack inputs (initial overflow) consumed by the program
        let inputs: Vec<u64> = (0..16 + n).map(|_| rng.felt()).collect();
        let mut src = String::from("begin ");
        for _ in 0..n {
            src += "add ";
        }
        src += "end";
        out.push(Case::new(format!("overflow/inputs/{n}"), src).stack(inputs.clone()));
        // n extra inputs left untouched (output overflow == input overflow)
        out.push(Case::new(format!("overflow/inputs-kept/{n}"), "begin swap end").stack(inputs));
        // n items left in the overflow table at the end
        let mut src = String::from("begin ");
        for i in 0..n {
            src += &format!("push.{} ", 1000 + i);
        }
        src += "end";
        out.push(Case::new(format!("overflow/outputs/{n}"), src));
    }
    // every kind of shifting operation executed while the table is non-empty
    let shifty = [
        "u32overflowing_add3 drop drop",
        "u32overflowing_madd drop drop",
        "push.1 if.true add else mul end",
        "push.0 if.true add else mul end",
        "push.1 while.true push.0 end",
        "push.0 while.true push.0 end",
        "push.0 push.1 push.1 while.true neg neg end",
        "cswap drop",
        "cswapw dropw",
        "dup.15 dup.13 dup.11 dup.9 dup.7 drop drop drop drop drop",
        "sdepth clk add drop",
        "and or eq drop",
        "push.4 mem_store.9 mem_load.9 padw mem_loadw.9 mem_storew.9 dropw drop",
        "adv_push.3 drop drop drop",
        "u32split u32assert2 drop",
        "push.5.5 fri_ext2fold4_placeholder",
    ];
    for (i, body) in shifty.iter().enumerate() {
        if body.contains("placeholder") {
            continue;
        }
        for pre in [1usize, 3, 20] {
            let mut src = String::from("begin ");
            for k in 0..pre {
                src += &format!("push.{} ", k % 2);
            }
            src += body;
            src += " end";
            let inputs: Vec<u64> = (0..16).map(|k| (k % 2) as u64).collect();
            out.push(
                Case::new(format!("overflow/shifty/{i}/pre{pre}"), src)
                    .stack(inputs)
                    .advice(vec![1, 2, 3, 4, 5, 6]),
            );
        }
    }
}

// ENTRY POINT
// ================================================================================================

pub fn all_cases(seed: u64, random_count: usize) -> Vec<Case> {
    let mut rng = Rng(seed);
    let mut out = Vec::new();
    fam_bitwise(&mut out);
    fam_u32_arith(&mut out);
    fam_hash(&mut out, &mut rng);
    fam_memory(&mut out, &mut rng);
    fam_contexts(&mut out);
    fam_spans(&mut out, &mut rng);
    fam_nesting(&mut out, &mut rng);
    fam_kernels(&mut out);
    fam_merkle(&mut out, &mut rng);
    fam_overflow(&mut out, &mut rng);
    fam_random(&mut out, &mut rng, random_count);
    fam_direct_nesting(&mut out);
    out
}

/// /verif: control blocks that are DIRECTLY the body of a loop / the branch of a conditional / the root of a
/// called procedure (no span in between) - shapes the generated nestings above never produce because every body
/// there starts or ends with instructions.  Stack inputs drive the loop conditions (top first).
fn fam_direct_nesting(out: &mut Vec<Case>) {
    let shapes: Vec<(&str, &str, Vec<u64>)> = vec![
        ("loop-in-loop/1x1", "begin while.true while.true push.3 drop end end end", vec![1, 1, 0, 0]),
        ("loop-in-loop/2x2", "begin while.true while.true push.3 drop end end end", vec![1, 1, 1, 0, 1, 1, 0, 0, 0]),
        ("loop-in-loop/inner-skipped", "begin while.true while.true push.3 drop end end end", vec![1, 0, 1, 0, 0]),
        ("loop-in-loop-in-loop", "begin while.true while.true while.true push.3 drop end end end end", vec![1, 1, 1, 0, 0, 0]),
        ("if-in-loop", "begin while.true if.true push.1 drop else push.2 drop end end end", vec![1, 1, 1, 0, 0]),
        ("loop-in-if", "begin if.true while.true push.3 drop end else while.true push.4 drop end end end", vec![1, 1, 1, 0]),
        ("loop-in-else", "begin if.true while.true push.3 drop end else while.true push.4 drop end end end", vec![0, 1, 0]),
        ("call-in-loop", "proc.f push.5 drop end begin while.true call.f end end", vec![1, 1, 0]),
        ("loop-as-proc-root", "proc.f while.true push.5 drop end end begin call.f end", vec![1, 1, 0]),
        ("loop-as-proc-root-in-loop", "proc.f while.true push.5 drop end end begin while.true call.f end end", vec![1, 1, 0, 1, 0, 0]),
        ("if-as-proc-root", "proc.f if.true push.5 drop else push.6 drop end end begin call.f call.f end", vec![1, 0]),
        ("repeat-of-loop", "begin repeat.3 while.true push.3 drop end end end", vec![1, 0, 0, 1, 1, 0]),
    ];
    for (name, src, stack) in shapes {
        out.push(Case::new(format!("direct/{name}"), src).stack(stack));
    }
}
