//! [adapted for /verif from the demo of the C12 sub-agent: FAILCASE / SUMMARY lines]
//! C12 -- "all lookups between trace components balance".
//!
//! For every program of a large generated family this tool
//!   1. assembles and executes it with `processor::execute`,
//!   2. builds the auxiliary segment with `Trace::build_aux_segment` for several pseudo-random
//!      challenge vectors from the quadratic extension field,
//!   3. (a) compares the first value and the value in the last row before the random row(s) of
//!      EVERY auxiliary column with the values specified in docs/src/design,
//!      (b) recounts, from the main segment alone, the multiset of chiplet requests made by the
//!      decoder / stack and the multiset of responses present in the chiplet rows, the 16-bit
//!      range checks vs. the range checker table, and the stack overflow table rows,
//!      and requires the multisets to be equal.
//!
//! Exit code 0 = PASS, 1 = FAIL.
//!
//! Options: `--random N` (number of seeded random programs, default 400), `--only SUBSTR` (run only
//! programs whose name contains SUBSTR), `--max-print N`, `--census` (tabulate findings by column
//! and trace features), `--progress` (print program names to stderr).

mod check;
mod family;

use std::collections::BTreeMap;
use std::panic::{catch_unwind, AssertUnwindSafe};

use assembly::Assembler;
use check::*;
use family::{all_cases, Case, Rng};
use processor::{
    AdviceInputs, DefaultHost, ExecutionOptions, ExecutionTrace, MemAdviceProvider, StackInputs,
};
use vm_core::{Felt, Program};
use winter_prover::Trace;

const NUM_CHALLENGE_SETS: usize = 3;

fn challenges(seed: u64) -> Vec<E> {
    let mut r = Rng(seed);
    (0..16).map(|_| E::new(Felt::new(r.felt()), Felt::new(r.felt()))).collect()
}

fn compile(case: &Case) -> Result<Program, String> {
    let asm = Assembler::default();
    let asm = match &case.kernel {
        Some(k) => asm.with_kernel(k).map_err(|e| format!("kernel: {e}"))?,
        None => asm,
    };
    asm.compile(&case.source).map_err(|e| format!("assembly: {e}"))
}

fn run(case: &Case, program: &Program) -> Result<(ExecutionTrace, StackInputs), String> {
    let mut st = case.stack.clone();
    st.reverse();
    let stack_inputs = StackInputs::try_from_values(st).map_err(|e| format!("inputs: {e}"))?;
    let mut adv = AdviceInputs::default()
        .with_stack_values(case.advice.iter().cloned())
        .map_err(|e| format!("advice: {e}"))?;
    if let Some(s) = &case.store {
        adv = adv.with_merkle_store(s.clone());
    }
    let host = DefaultHost::new(MemAdviceProvider::from(adv));
    let trace = processor::execute(
        program,
        stack_inputs.clone(),
        host,
        ExecutionOptions::new(Some(1 << 17), 64, false).unwrap(),
    )
        .map_err(|e| format!("execution: {e}"))?;
    Ok((trace, stack_inputs))
}

// KNOWN DEVIATIONS OF THE UNCHANGED CODE BASE
// ================================================================================================
//
// Each entry describes a (column, trace feature) combination for which the UNCHANGED code base
// already misses the specified value / has unbalanced multisets. Failures matching an entry are
// reported in a separate section (with one example program each) and are excluded from the
// verdict. Everything else counts.

struct Features {
    has_respan: bool,
    /// some RESPAN row carries a non-zero 6th operation group (decoder register h5), or the
    /// decoder register h1 two rows below a RESPAN differs from the one in the next row
    respan_with_h5: bool,
    has_pipe: bool,
    has_dyn: bool,
    has_call_or_syscall: bool,
    has_kernel_procs: bool,
    has_syscall: bool,
    violates: Option<&'static str>,
    dyn_opcode: u64,
}

impl Features {
    fn signature(&self) -> String {
        let mut v = Vec::new();
        if self.has_respan {
            v.push("respan");
        }
        if self.respan_with_h5 {
            v.push("respan-h5");
        }
        if self.has_pipe {
            v.push("pipe");
        }
        if self.has_dyn {
            v.push("dyn");
        }
        if self.has_call_or_syscall {
            v.push("call/syscall");
        }
        if self.has_syscall {
            v.push("syscall");
        }
        if self.has_kernel_procs {
            v.push("kernel");
        }
        if self.violates.is_some() {
            v.push("precondition-violation");
        }
        v.join("+")
    }
}

struct Known {
    id: &'static str,
    what: &'static str,
}

const KNOWN: &[Known] = &[
    Known {
        id: "K1 b_chip/RESPAN",
        what: "b_chip does not return to 1 when a span has more than one batch: the RESPAN \
               request is built from chiplet_hasher_state(row - 2 / row - 1) indexed with the \
               DECODER row of the RESPAN (processor/src/chiplets/aux_trace/mod.rs, \
               build_respan_block_request)",
    },
    Known {
        id: "K2 b_chip/PIPE",
        what: "b_chip does not return to 1 when PIPE (adv_pipe) is executed: the bus column \
               builder has no request for PIPE although the memory chiplet records two writes \
               (the independent recount, which includes the two PIPE writes, balances)",
    },
    Known {
        id: "K3 b_chip+recount/DYN",
        what: "DYN: the decoder row of a DYN operation holds the callee hash in h0..h3 while the \
               hasher hashes eight zeros (docs/src/design/decoder/main.md: registers are \
               populated with 0), so the block-hash-init request has no matching response",
    },
    Known {
        id: "K4 b_chip/kernel",
        what: "b_chip does not return to 1 when the kernel has procedures: the kernel procedure \
               TABLE responses are multiplied into b_chip as well (get_responses_at multiplies \
               build_kernel_procedure_table_responses)",
    },
    Known {
        id: "K5 decoder.p1/CALL-SYSCALL",
        what: "block stack table: the END of a CALL / SYSCALL block removes a row with \
               parent_fn_hash[0] in the last position (typo, should be [3]) and the CALL row \
               takes the hash from the decoder hasher registers",
    },
    Known {
        id: "K6 decoder.p1/RESPAN",
        what: "block stack table at RESPAN rows: (i) the removed row takes is_loop from decoder \
               register h5, which at a RESPAN row holds the 6th operation group of the next \
               batch; (ii) the parent id is read TWO rows below the RESPAN \
               (decoder_hasher_state_element(1, i + 1) adds another 1), which is not the parent \
               when the next batch consists of a single operation. Only programs in which (i) or \
               (ii) actually changes a value are excused",
    },
    Known {
        id: "K7 decoder.p2/CALL-SYSCALL",
        what: "block hash table: CALL / SYSCALL never add the callee hash, but the END of the \
               callee body removes it",
    },
    Known {
        id: "K8 vt_chip/kernel",
        what: "chiplets virtual table: the kernel procedure table part is built from the DECODER \
               block address column (main_trace.addr / is_addr_change) instead of the kernel ROM \
               chiplet's own addr column",
    },
    Known {
        id: "K9 documented precondition violated by the program",
        what: "RCOMBBASE requires elements 2, 3 of the word at a_ptr to be zero; the request \
               hard-codes zeros",
    },
];

fn classify(f: &Features, fail: &Failure) -> Option<usize> {
    let col = fail.column.as_str();
    if f.violates.is_some() && (col == COL_NAMES[COL_B_CHIP] || col == RC_CHIPLETS) {
        return Some(8);
    }
    if col == RC_CHIPLETS {
        // only the tuples of the DYN block hash initialisation are excused
        if let Some(t) = fail.tuple {
            if f.has_dyn && t[1] == M_BP && t[5] == f.dyn_opcode {
                return Some(2);
            }
        }
        return None;
    }
    // /verif: K1, K2, K4, K5, K6, K7, K8 have been repaired in the repository (fix: commits); only the
    // classes that are still open are recognised, everything else counts in the verdict
    if col == COL_NAMES[COL_B_CHIP] && f.has_dyn {
        return Some(2);
    }
    None
}

// MAIN
// ================================================================================================

fn op_name(code: u64) -> String {
    use vm_core::Operation as O;
    for (op, name) in [
        (O::Join, "JOIN"),
        (O::Split, "SPLIT"),
        (O::Loop, "LOOP"),
        (O::Repeat, "REPEAT"),
        (O::Span, "SPAN"),
        (O::Respan, "RESPAN"),
        (O::Dyn, "DYN"),
        (O::Call, "CALL"),
        (O::SysCall, "SYSCALL"),
        (O::End, "END"),
        (O::Halt, "HALT"),
    ] {
        if op.op_code() as u64 == code {
            return name.to_string();
        }
    }
    format!("opcode {code:#09b}")
}

struct Finding {
    feats: String,
    case: String,
    source: String,
    kernel: Option<String>,
    stack: Vec<u64>,
    advice_len: usize,
    challenge_set: Option<usize>,
    failure: Failure,
}

fn print_finding(f: &Finding, verbose: bool) {
    println!(
        "  program `{}`{}: column {} row {}: {}",
        f.case,
        match f.challenge_set {
            Some(c) => format!(" [challenge set {c}]"),
            None => String::new(),
        },
        f.failure.column,
        f.failure.row,
        f.failure.detail
    );
    if verbose {
        println!("    source : {}", f.source.replace('\n', " "));
        if let Some(k) = &f.kernel {
            println!("    kernel : {}", k.replace('\n', " "));
        }
        println!("    stack inputs (top first): {:?}; advice stack length: {}", f.stack, f.advice_len);
    }
}

fn main() {
    let args: Vec<String> = std::env::args().collect();
    let random_count: usize = args
        .iter()
        .position(|a| a == "--random")
        .and_then(|i| args.get(i + 1))
        .and_then(|s| s.parse().ok())
        .unwrap_or(400);
    let filter: Option<String> =
        args.iter().position(|a| a == "--only").and_then(|i| args.get(i + 1)).cloned();
    let max_print: usize = args
        .iter()
        .position(|a| a == "--max-print")
        .and_then(|i| args.get(i + 1))
        .and_then(|s| s.parse().ok())
        .unwrap_or(25);

    let progress = args.iter().any(|a| a == "--progress");

    // the range checker's aux builder asserts internally; turn panics into findings quietly
    std::panic::set_hook(Box::new(|_| {}));

    let ops = Ops::new();
    let cases = all_cases(0xC12_C12_C12, random_count);
    let challenge_sets: Vec<Vec<E>> =
        (0..NUM_CHALLENGE_SETS).map(|i| challenges(0x5EED_0000 + i as u64)).collect();

    let mut fam_total: BTreeMap<String, (usize, usize)> = BTreeMap::new(); // (programs, failing)
    let mut invalid: Vec<(String, String)> = Vec::new();
    let mut findings: Vec<Finding> = Vec::new();
    let mut known_hits: Vec<Vec<Finding>> = (0..KNOWN.len()).map(|_| Vec::new()).collect();
    let mut executed = 0usize;
    let mut total_rows = 0usize;
    let mut op_cover: BTreeMap<&'static str, usize> = BTreeMap::new();
    // number of programs in which a deviation in the given aux column counts in the verdict
    let mut effective: [usize; NUM_AUX_COLS] = [0; NUM_AUX_COLS];

    for case in cases.iter() {
        if let Some(f) = &filter {
            if !case.name.contains(f.as_str()) {
                continue;
            }
        }
        let fam = case.name.split('/').next().unwrap().to_string();
        if progress {
            eprintln!("{}", case.name);
        }
        let program = match compile(case) {
            Ok(p) => p,
            Err(e) => {
                invalid.push((case.name.clone(), e));
                continue;
            }
        };
        let (mut trace, stack_inputs) = match run(case, &program) {
            Ok(t) => t,
            Err(e) => {
                invalid.push((case.name.clone(), e));
                continue;
            }
        };
        executed += 1;
        let entry = fam_total.entry(fam).or_insert((0, 0));
        entry.0 += 1;

        let stack_outputs = trace.stack_outputs().clone();
        let kernel = program.kernel().clone();
        let program_hash: [Felt; 4] = program.hash().into();

        let mut case_failures: Vec<(Option<usize>, Failure)> = Vec::new();
        let feats;
        {
            let main = Main::new(trace.main_segment(), ExecutionTrace::NUM_RAND_ROWS);
            total_rows += main.last + 1;
            feats = Features {
                has_respan: main.has_op(ops.respan),
                respan_with_h5: (0..main.last).any(|r| {
                    main.opcode(r) == ops.respan
                        && (main.dh(5, r) != vm_core::ZERO || main.dh(1, r + 2) != main.dh(1, r + 1))
                }),
                dyn_opcode: ops.dyn_,
                has_pipe: main.has_op(ops.pipe),
                has_dyn: main.has_op(ops.dyn_),
                has_call_or_syscall: main.has_op(ops.call) || main.has_op(ops.syscall),
                has_kernel_procs: !kernel.proc_hashes().is_empty(),
                has_syscall: main.has_op(ops.syscall),
                violates: case.precondition_violation,
            };
            for (name, code) in [
                ("JOIN", ops.join),
                ("SPLIT", ops.split),
                ("LOOP", ops.r#loop),
                ("DYN", ops.dyn_),
                ("CALL", ops.call),
                ("SYSCALL", ops.syscall),
                ("SPAN", ops.span),
                ("RESPAN", ops.respan),
                ("U32AND", ops.u32and),
                ("U32XOR", ops.u32xor),
                ("MLOADW", ops.mloadw),
                ("MSTOREW", ops.mstorew),
                ("MLOAD", ops.mload),
                ("MSTORE", ops.mstore),
                ("MSTREAM", ops.mstream),
                ("PIPE", ops.pipe),
                ("RCOMBBASE", ops.rcomb),
                ("HPERM", ops.hperm),
                ("MPVERIFY", ops.mpverify),
                ("MRUPDATE", ops.mrupdate),
            ] {
                *op_cover.entry(name).or_insert(0) += main.count_op(code);
            }

            // (b) recounts -- main segment only
            for f in recount_chiplets_bus(&main, &ops) {
                case_failures.push((None, f));
            }
            for f in recount_range_checks(&main, &ops) {
                case_failures.push((None, f));
            }
            for f in recount_overflow(&main, &ops, &stack_inputs, &stack_outputs) {
                case_failures.push((None, f));
            }
        }

        for c in 0..NUM_AUX_COLS {
            if classify(&feats, &Failure::new(COL_NAMES[c], 0, "")).is_none() {
                effective[c] += 1;
            }
        }

        // (a) terminal values for every aux column and every challenge set
        for (ci, alphas) in challenge_sets.iter().enumerate() {
            let aux = catch_unwind(AssertUnwindSafe(|| trace.build_aux_segment(&[], alphas)));
            let aux = match aux {
                Ok(Some(a)) => a,
                Ok(None) => {
                    case_failures.push((
                        Some(ci),
                        Failure::new("aux-segment", 0, "build_aux_segment returned None"),
                    ));
                    continue;
                }
                Err(_) => {
                    case_failures.push((
                        Some(ci),
                        Failure::new(
                            COL_NAMES[COL_B_RANGE],
                            0,
                            "build_aux_segment panicked (the b_range builder asserts that the \
                             bus returns to its initial value)",
                        ),
                    ));
                    continue;
                }
            };
            let main = Main::new(trace.main_segment(), ExecutionTrace::NUM_RAND_ROWS);
            let exp = expected_boundaries(alphas, program_hash, &kernel, &stack_inputs, &stack_outputs);
            for mut f in check_terminals(&aux, &main, &exp) {
                // best-effort row-level hint for the two decoder tables
                let reference = if f.column == COL_NAMES[COL_DEC_P1] {
                    Some((COL_DEC_P1, reference_p1(&main, &ops, alphas)))
                } else if f.column == COL_NAMES[COL_DEC_P2] {
                    Some((COL_DEC_P2, reference_p2(&main, &ops, alphas, program_hash)))
                } else {
                    None
                };
                if let Some((c, reference)) = reference {
                    if let Some(r) = (0..=main.last).find(|&r| aux.get(c, r) != reference[r]) {
                        if r > 0 {
                            f.detail += &format!(
                                "; the column first departs from the documented transition rule \
                                 in row {} (i.e. at the transition out of row {}, which executes \
                                 {})",
                                r,
                                r - 1,
                                op_name(main.opcode(r - 1))
                            );
                        }
                    }
                }
                case_failures.push((Some(ci), f));
            }
        }

        let mut counted = false;
        for (ci, f) in case_failures {
            let finding = Finding {
                feats: feats.signature(),
                case: case.name.clone(),
                source: case.source.clone(),
                kernel: case.kernel.clone(),
                stack: case.stack.clone(),
                advice_len: case.advice.len(),
                challenge_set: ci,
                failure: f,
            };
            match classify(&feats, &finding.failure) {
                Some(k) => known_hits[k].push(finding),
                None => {
                    if !counted {
                        fam_total.get_mut(case.name.split('/').next().unwrap()).unwrap().1 += 1;
                        counted = true;
                    }
                    findings.push(finding);
                }
            }
        }
    }

    // ------------------------------------------------------------------------------------------
    println!("C12 lookup balance demo");
    println!(
        "programs generated: {}, executed: {}, main-trace rows inspected: {}, challenge sets per \
         program: {}",
        cases.len(),
        executed,
        total_rows,
        NUM_CHALLENGE_SETS
    );
    println!("chiplet-related operations executed over the whole family:");
    let cov: Vec<String> = op_cover.iter().map(|(k, v)| format!("{k}={v}")).collect();
    println!("  {}", cov.join(" "));
    println!(
        "programs in which a wrong initial / terminal value of the column counts in the verdict \
         (i.e. is not covered by a known deviation of the unchanged code):"
    );
    for c in 0..NUM_AUX_COLS {
        println!("  {:<30} {:>5} of {}", COL_NAMES[c], effective[c], executed);
    }
    println!("per family (programs / programs with findings counted in the verdict):");
    for (fam, (n, bad)) in fam_total.iter() {
        println!("  {fam:<10} {n:>5} / {bad}");
    }
    if !invalid.is_empty() {
        println!("programs that could not be assembled / executed (generator problems): {}", invalid.len());
        for (n, e) in invalid.iter().take(max_print) {
            println!("  {n}: {e}");
        }
    }

    println!();
    println!("KNOWN DEVIATIONS OF THE UNCHANGED CODE (reported separately, excluded from the verdict):");
    for (k, hits) in known_hits.iter().enumerate() {
        if hits.is_empty() {
            continue;
        }
        let mut progs: Vec<&str> = hits.iter().map(|h| h.case.as_str()).collect();
        progs.dedup();
        println!("[{}] {} -- {} findings in {} programs; first example:", KNOWN[k].id, KNOWN[k].what, hits.len(), progs.len());
        print_finding(&hits[0], true);
    }

    // ---- machine-readable part (read by lib/bounded_tools.py: check_lookup_balance) ----
    {
        let one = |s: &str| s.replace('\n', " ");
        for (k, hits) in known_hits.iter().enumerate() {
            if hits.is_empty() {
                continue;
            }
            let mut progs: Vec<&str> = hits.iter().map(|h| h.case.as_str()).collect();
            progs.dedup();
            let h = &hits[0];
            println!(
                "FAILCASE {} :: {} findings in {} programs :: program `{}` column {} row {}: {} :: source: {} | kernel: {} | stack inputs (top first): {:?}",
                KNOWN[k].id.split(' ').next().unwrap_or("K"),
                hits.len(),
                progs.len(),
                h.case,
                h.failure.column,
                h.failure.row,
                one(&h.failure.detail),
                one(&h.source),
                h.kernel.as_deref().map(one).unwrap_or_default(),
                h.stack
            );
        }
        let mut seen: std::collections::BTreeSet<(String, String)> = Default::default();
        for f in findings.iter() {
            if !seen.insert((f.failure.column.clone(), f.feats.clone())) || seen.len() > 60 {
                continue;
            }
            println!(
                "FAILCASE finding :: {} [{}] :: program `{}` row {}: {} :: source: {} | kernel: {} | stack inputs (top first): {:?}",
                f.failure.column,
                f.feats,
                f.case,
                f.failure.row,
                one(&f.failure.detail),
                one(&f.source),
                f.kernel.as_deref().map(one).unwrap_or_default(),
                f.stack
            );
        }
        for (n, e) in invalid.iter().take(10) {
            println!("FAILCASE invalid :: generator :: program `{}` could not be assembled / executed: {} :: -", n, one(e));
        }
        println!("SUMMARY programs={} executed={} rows={} findings={} invalid={}", cases.len(), executed, total_rows, findings.len(), invalid.len());
    }
    println!();
    if findings.is_empty() && invalid.is_empty() {
        println!("RESULT: PASS -- every auxiliary column has its specified initial / terminal value and all recounted multisets are equal (outside the known deviations listed above)");
        std::process::exit(0);
    }
    println!("FINDINGS COUNTED IN THE VERDICT: {}", findings.len());
    let mut by_col: BTreeMap<String, usize> = BTreeMap::new();
    for f in findings.iter() {
        *by_col.entry(f.failure.column.clone()).or_insert(0) += 1;
    }
    for (c, n) in by_col.iter() {
        println!("  {c}: {n}");
    }
    if args.iter().any(|a| a == "--census") {
        let mut census: BTreeMap<(String, String), (usize, String)> = BTreeMap::new();
        for f in findings.iter() {
            let e = census
                .entry((f.failure.column.clone(), f.feats.clone()))
                .or_insert((0, f.case.clone()));
            e.0 += 1;
        }
        println!("CENSUS (column, features) -> findings, first program");
        for ((c, ft), (n, ex)) in census.iter() {
            println!("  {c:<32} [{ft}] -> {n}  e.g. {ex}");
        }
    }
    // group by (program, column, row): one entry per program / column, list of challenge sets
    let mut grouped: Vec<(&Finding, Vec<usize>)> = Vec::new();
    for f in findings.iter() {
        match grouped.last_mut() {
            Some((g, sets))
                if g.case == f.case
                    && g.failure.column == f.failure.column
                    && g.failure.row == f.failure.row
                    && f.challenge_set.is_some()
                    && g.challenge_set.is_some() =>
            {
                sets.push(f.challenge_set.unwrap());
            }
            _ => grouped.push((f, f.challenge_set.into_iter().collect())),
        }
    }
    let mut shown = 0;
    let mut last_case = String::new();
    for (f, sets) in grouped.iter() {
        if shown >= max_print {
            println!("  ... ({} more program / column combinations)", grouped.len() - shown);
            break;
        }
        let verbose = f.case != last_case;
        last_case = f.case.clone();
        if !sets.is_empty() {
            println!("  [fails for challenge sets {:?}; values shown for set {}]", sets, sets[0]);
        }
        print_finding(f, verbose);
        shown += 1;
    }
    println!("RESULT: FAIL");
    std::process::exit(1);
}
