//! Table of boundary / invalid sources for check (5).

#[derive(Clone, Copy, PartialEq, Eq, Debug)]
pub enum Ctx {
    /// executable compiled on an assembler with the demo kernel and the demo libraries
    Prog,
    /// executable compiled on an assembler without a kernel (libraries only)
    ProgNoKernel,
    /// kernel source passed to Assembler::with_kernel() (libraries already added)
    Kernel,
    /// library module `lt::m` (field `src`); the executable in `extra` imports it
    Module,
}

#[derive(Clone, Debug)]
pub struct Case {
    pub label: String,
    pub ctx: Ctx,
    pub src: String,
    pub extra: Option<String>,
    pub expect_ok: bool,
}

pub const P: u64 = 18446744069414584321; // field modulus

fn prog(label: &str, src: &str, ok: bool) -> Case {
    Case {
        label: label.to_string(),
        ctx: Ctx::Prog,
        src: src.to_string(),
        extra: None,
        expect_ok: ok,
    }
}

fn body(label: &str, instrs: &str, ok: bool) -> Case {
    // the body is padded with harmless ops so that decorators never end up in an empty span
    prog(label, &format!("begin push.3 push.5 {instrs} drop drop end"), ok)
}

fn in_proc(label: &str, locals: &str, instrs: &str, ok: bool) -> Case {
    prog(
        label,
        &format!("proc.foo{locals} push.3 {instrs} drop end begin exec.foo end"),
        ok,
    )
}

pub fn cases() -> Vec<Case> {
    let mut v = Vec::new();
    let pm1 = P - 1;

    // ----- stack manipulation indices ------------------------------------------------------------
    for (op, lo, hi) in [
        ("dup", 0u32, 15u32),
        ("dupw", 0, 3),
        ("swap", 1, 15),
        ("swapw", 1, 3),
        ("movup", 2, 15),
        ("movdn", 2, 15),
        ("movupw", 2, 3),
        ("movdnw", 2, 3),
    ] {
        v.push(body(&format!("{op}.{lo} (min valid)"), &format!("{op}.{lo}"), true));
        v.push(body(&format!("{op}.{hi} (max valid)"), &format!("{op}.{hi}"), true));
        v.push(body(&format!("{op}.{} (above)", hi + 1), &format!("{op}.{}", hi + 1), false));
        if lo > 0 {
            v.push(body(&format!("{op}.{} (below)", lo - 1), &format!("{op}.{}", lo - 1), false));
        }
        v.push(body(&format!("{op}.-1"), &format!("{op}.-1"), false));
        v.push(body(&format!("{op}.256"), &format!("{op}.256"), false));
        v.push(body(&format!("{op}.65536"), &format!("{op}.65536"), false));
    }

    // ----- push ----------------------------------------------------------------------------------
    v.push(body("push.0", "push.0 drop", true));
    v.push(body("push.p-1", &format!("push.{pm1} drop"), true));
    v.push(body("push.p", &format!("push.{P} drop"), false));
    v.push(body("push.2^64-1", "push.18446744073709551615 drop", false));
    v.push(body("push.2^64", "push.18446744073709551616 drop", false));
    v.push(body("push.-1", "push.-1 drop", false));
    v.push(body("push (no param)", "push drop", false));
    v.push(body("push.0x(p-1)", "push.0xffffffff00000000 drop", true));
    v.push(body("push.0x(p)", "push.0xffffffff00000001 drop", false));
    v.push(body("push.0x odd digits", "push.0x123 drop", false));
    v.push(body("push.0x 18 digits", "push.0x010000000000000000 drop", false));
    let sixteen = (1..=16).map(|i| i.to_string()).collect::<Vec<_>>().join(".");
    let seventeen = (1..=17).map(|i| i.to_string()).collect::<Vec<_>>().join(".");
    v.push(prog("push 16 values", &format!("begin push.{sixteen} end"), true));
    v.push(prog("push 17 values", &format!("begin push.{seventeen} end"), false));
    v.push(prog("push 3 values, one = p", &format!("begin push.1.2.{P} end"), false));
    v.push(prog("push 3 values, one = p-1", &format!("begin push.1.2.{pm1} end"), true));
    v.push(body(
        "push long hex 64 digits",
        "push.0x0100000000000000020000000000000003000000000000000400000000000000 dropw",
        true,
    ));
    v.push(body(
        "push long hex 64 digits, last chunk = p",
        "push.0x01000000000000000200000000000000030000000000000001000000ffffffff dropw",
        false,
    ));
    v.push(body(
        "push long hex 62 digits",
        "push.0x01000000000000000200000000000000030000000000000004000000000000 dropw",
        false,
    ));

    // ----- u32 shifts / rotations ------------------------------------------------------------------
    for op in ["u32shl", "u32shr", "u32rotl", "u32rotr"] {
        v.push(body(&format!("{op}.0"), &format!("{op}.0"), true));
        v.push(body(&format!("{op}.1"), &format!("{op}.1"), true));
        v.push(body(&format!("{op}.31"), &format!("{op}.31"), true));
        v.push(body(&format!("{op}.32"), &format!("{op}.32"), false));
        v.push(body(&format!("{op}.255"), &format!("{op}.255"), false));
        v.push(body(&format!("{op}.256"), &format!("{op}.256"), false));
        v.push(body(&format!("{op}.-1"), &format!("{op}.-1"), false));
    }

    // ----- u32 arithmetic immediates -----------------------------------------------------------
    for op in [
        "u32wrapping_add",
        "u32overflowing_add",
        "u32wrapping_sub",
        "u32overflowing_sub",
        "u32wrapping_mul",
        "u32overflowing_mul",
    ] {
        let extra = if op.starts_with("u32overflowing") { "drop" } else { "" };
        v.push(body(&format!("{op}.0"), &format!("{op}.0 {extra}"), true));
        v.push(body(&format!("{op}.1"), &format!("{op}.1 {extra}"), true));
        v.push(body(&format!("{op}.2^32-1"), &format!("{op}.4294967295 {extra}"), true));
        v.push(body(&format!("{op}.2^32"), &format!("{op}.4294967296 {extra}"), false));
        v.push(body(&format!("{op}.-1"), &format!("{op}.-1 {extra}"), false));
    }
    for op in ["u32div", "u32mod", "u32divmod"] {
        let extra = if op == "u32divmod" { "drop" } else { "" };
        v.push(body(&format!("{op}.0"), &format!("{op}.0 {extra}"), false));
        v.push(body(&format!("{op}.1"), &format!("{op}.1 {extra}"), true));
        v.push(body(&format!("{op}.2^32-1"), &format!("{op}.4294967295 {extra}"), true));
        v.push(body(&format!("{op}.2^32"), &format!("{op}.4294967296 {extra}"), false));
    }

    // ----- field immediates ---------------------------------------------------------------------
    for op in ["add", "sub", "mul", "eq", "neq", "exp"] {
        v.push(body(&format!("{op}.0"), &format!("{op}.0"), true));
        v.push(body(&format!("{op}.1"), &format!("{op}.1"), true));
        v.push(body(&format!("{op}.p-1"), &format!("{op}.{pm1}"), true));
        v.push(body(&format!("{op}.p"), &format!("{op}.{P}"), false));
        v.push(body(&format!("{op}.2^64"), &format!("{op}.18446744073709551616"), false));
        v.push(body(&format!("{op}.-1"), &format!("{op}.-1"), false));
    }
    v.push(body("div.0", "div.0", false));
    v.push(body("div.1", "div.1", true));
    v.push(body("div.2", "div.2", true));
    v.push(body("div.p-1", &format!("div.{pm1}"), true));
    v.push(body("div.p", &format!("div.{P}"), false));
    v.push(body("div.00", "div.00", false));
    v.push(body("exp.u0", "exp.u0", true));
    v.push(body("exp.u1", "exp.u1", true));
    v.push(body("exp.u64", "exp.u64", true));
    v.push(body("exp.u65", "exp.u65", false));
    v.push(body("exp.u255", "exp.u255", false));
    v.push(body("exp.u256", "exp.u256", false));
    v.push(body("exp.u", "exp.u", false));

    // ----- memory addresses ------------------------------------------------------------------------
    for (op, post) in [
        ("mem_load", "drop"),
        ("mem_loadw", ""),
        ("mem_store", "push.9"),
        ("mem_storew", ""),
    ] {
        v.push(body(&format!("{op}.0"), &format!("padw {op}.0 {post} dropw"), true));
        v.push(body(&format!("{op}.1"), &format!("padw {op}.1 {post} dropw"), true));
        v.push(body(
            &format!("{op}.2^32-1"),
            &format!("padw {op}.4294967295 {post} dropw"),
            true,
        ));
        v.push(body(&format!("{op}.2^32"), &format!("padw {op}.4294967296 {post} dropw"), false));
        v.push(body(&format!("{op}.-1"), &format!("padw {op}.-1 {post} dropw"), false));
        v.push(body(
            &format!("{op}.0xffffffff"),
            &format!("padw {op}.0xffffffff {post} dropw"),
            false, // hex addresses are not part of the grammar
        ));
    }

    // ----- procedure locals ------------------------------------------------------------------------
    for (op, pre, post) in [
        ("loc_load", "", "drop"),
        ("loc_loadw", "padw", "dropw"),
        ("loc_store", "push.7", ""),
        ("loc_storew", "padw", "dropw"),
        ("locaddr", "", "drop"),
    ] {
        // in the program body (no locals at all)
        v.push(prog(
            &format!("{op}.0 in main body"),
            &format!("begin {pre} {op}.0 {post} end"),
            false,
        ));
        for (n, decl) in [(0u32, ""), (0, ".0"), (1, ".1"), (2, ".2"), (5, ".5"), (65535, ".65535")]
        {
            let what = format!("{op} with locals decl '{decl}'");
            if n == 0 {
                v.push(in_proc(&format!("{what}: index 0"), decl, &format!("{pre} {op}.0 {post}"), false));
                v.push(in_proc(&format!("{what}: index 1"), decl, &format!("{pre} {op}.1 {post}"), false));
            } else {
                v.push(in_proc(&format!("{what}: index 0"), decl, &format!("{pre} {op}.0 {post}"), true));
                v.push(in_proc(
                    &format!("{what}: index n-1"),
                    decl,
                    &format!("{pre} {op}.{} {post}", n - 1),
                    true,
                ));
                v.push(in_proc(
                    &format!("{what}: index n"),
                    decl,
                    &format!("{pre} {op}.{n} {post}"),
                    false,
                ));
                v.push(in_proc(
                    &format!("{what}: index n+1"),
                    decl,
                    &format!("{pre} {op}.{} {post}", n + 1),
                    false,
                ));
            }
            v.push(in_proc(&format!("{what}: index 65536"), decl, &format!("{pre} {op}.65536 {post}"), false));
            v.push(in_proc(&format!("{what}: index -1"), decl, &format!("{pre} {op}.-1 {post}"), false));
        }
    }
    v.push(prog("proc with 65535 locals", "proc.foo.65535 push.1 drop end begin exec.foo end", true));
    v.push(prog("proc with 65536 locals", "proc.foo.65536 push.1 drop end begin exec.foo end", false));
    v.push(prog("proc with -1 locals", "proc.foo.-1 push.1 drop end begin exec.foo end", false));
    v.push(prog("proc with x locals", "proc.foo.x push.1 drop end begin exec.foo end", false));
    // locals of one procedure are not visible in the next procedure / in the body
    v.push(prog(
        "locals do not leak into the next procedure",
        "proc.foo.4 push.1 loc_store.3 end proc.bar push.1 loc_store.3 end begin exec.foo exec.bar end",
        false,
    ));
    v.push(prog(
        "locals do not leak into the body",
        "proc.foo.4 push.1 loc_store.3 end begin exec.foo push.1 loc_store.3 end",
        false,
    ));

    // ----- repeat / adv_push ---------------------------------------------------------------------
    v.push(prog("repeat.1", "begin repeat.1 push.1 drop end end", true));
    v.push(prog("repeat.5", "begin repeat.5 push.1 drop end end", true));
    v.push(prog("repeat.2^32", "begin repeat.4294967296 push.1 drop end end", false));
    v.push(prog("repeat.-1", "begin repeat.-1 push.1 drop end end", false));
    v.push(prog("repeat (no param)", "begin repeat push.1 drop end end", false));
    v.push(prog("repeat.x", "begin repeat.x push.1 drop end end", false));
    v.push(prog("adv_push.0", "begin adv_push.0 end", false));
    v.push(prog("adv_push.1", "begin adv_push.1 drop end", true));
    v.push(prog("adv_push.16", "begin adv_push.16 dropw dropw dropw dropw end", true));
    v.push(prog("adv_push.17", "begin adv_push.17 end", false));
    v.push(prog("adv_push.256", "begin adv_push.256 end", false));
    v.push(prog("adv_push (no param)", "begin adv_push end", false));

    // ----- constants ---------------------------------------------------------------------------------
    v.push(prog("const = p-1, push", &format!("const.A={pm1} begin push.A drop end"), true));
    v.push(prog("const = p", &format!("const.A={P} begin push.A drop end"), false));
    v.push(prog("const = 2^64", "const.A=18446744073709551616 begin push.A drop end", false));
    v.push(prog("const = 0x(p-1)", "const.A=0xffffffff00000000 begin push.A drop end", true));
    v.push(prog("const = 0x(p)", "const.A=0xffffffff00000001 begin push.A drop end", false));
    v.push(prog("const lower case name", "const.a=1 begin push.a drop end", false));
    v.push(prog("const undefined", "begin push.A drop end", false));
    v.push(prog("const duplicate", "const.A=1 const.A=2 begin push.A drop end", false));
    v.push(prog("const expr overflow wraps mod p", &format!("const.A={pm1} const.B=A+1 begin push.B drop end"), true));
    v.push(prog("const expr div by zero", "const.A=0 const.B=5/A begin push.B drop end", false));
    v.push(prog("const expr int div by zero", "const.A=0 const.B=5//A begin push.B drop end", false));
    v.push(prog("const mem addr 2^32-1", "const.A=4294967295 begin mem_load.A drop end", true));
    v.push(prog("const mem addr 2^32", "const.A=4294967296 begin mem_load.A drop end", false));
    v.push(prog("const local index in range", "const.A=3 proc.foo.4 locaddr.A drop end begin exec.foo end", true));
    v.push(prog("const local index = n", "const.A=4 proc.foo.4 locaddr.A drop end begin exec.foo end", false));
    v.push(prog("const local index 65536", "const.A=65536 proc.foo.4 locaddr.A drop end begin exec.foo end", false));
    v.push(prog("const repeat count", "const.A=3 begin repeat.A push.1 drop end end", true));
    v.push(prog("const repeat count 2^32", "const.A=4294967296 begin repeat.A push.1 drop end end", false));
    v.push(prog("const after procedure", "proc.foo push.1 drop end const.A=1 begin exec.foo end", false));
    v.push(prog("const inside body", "begin const.A=1 push.1 drop end", false));

    // ----- error codes / events ------------------------------------------------------------------
    v.push(body("assert.err=2^32-1", "push.1 assert.err=4294967295", true));
    v.push(body("assert.err=2^32", "push.1 assert.err=4294967296", false));
    v.push(body("assert.err=-1", "push.1 assert.err=-1", false));
    v.push(body("assert.foo=1", "push.1 assert.foo=1", false));
    v.push(body("emit.2^32-1", "emit.4294967295", true));
    v.push(body("emit.2^32", "emit.4294967296", false));
    v.push(body("trace.2^32-1", "trace.4294967295", true));
    v.push(body("trace.2^32", "trace.4294967296", false));

    // ----- procedure resolution --------------------------------------------------------------------
    v.push(prog("exec undefined local", "begin exec.foo end", false));
    v.push(prog("call undefined local", "begin call.foo end", false));
    v.push(prog("procref undefined local", "begin procref.foo dropw end", false));
    v.push(prog("exec local defined later", "proc.a exec.b end proc.b push.1 drop end begin exec.a end", false));
    v.push(prog("recursive exec", "proc.a exec.a end begin exec.a end", false));
    v.push(prog("recursive call", "proc.a call.a end begin call.a end", false));
    v.push(prog("exec local ok", "proc.a push.1 drop end begin exec.a end", true));
    v.push(prog("call local ok", "proc.a push.1 drop end begin call.a end", true));
    v.push(prog("duplicate local procs", "proc.a push.1 drop end proc.a push.2 drop end begin exec.a end", false));
    v.push(prog("module not imported", "begin exec.h_z::p end", false));
    v.push(prog("imported module does not exist", "use.lc::nomodule begin exec.nomodule::p end", false));
    v.push(prog("imported namespace does not exist", "use.zz::h_z begin exec.h_z::p end", false));
    v.push(prog("imported procedure does not exist (exec)", "use.lc::h_z begin exec.h_z::nope end", false));
    v.push(prog("imported procedure does not exist (call)", "use.lc::h_z begin call.h_z::nope end", false));
    v.push(prog("imported procedure does not exist (procref)", "use.lc::h_z begin procref.h_z::nope dropw end", false));
    v.push(prog("imported procedure exists (exec)", "use.lc::h_z begin exec.h_z::p end", true));
    v.push(prog("re-export alias only (original name hidden)", "use.lr::r2_z begin exec.r2_z::p end", false));
    v.push(prog("re-export alias", "use.lr::r2_z begin exec.r2_z::q end", true));
    v.push(prog("internal procedure of a library module (exec)", "use.lb::h_cl begin exec.h_cl::c_z end", false));
    v.push(prog("internal procedure of a library module (call)", "use.lb::h_cl begin call.h_cl::c_z end", false));
    v.push(prog("internal procedure of a library module (procref)", "use.lb::h_cl begin procref.h_cl::c_z dropw end", false));
    v.push(prog("exported procedure of the same module ok", "use.lb::h_cl begin call.h_cl::p end", true));
    v.push(prog("unused import of a missing module", "use.lc::nomodule begin push.1 drop end", true));
    v.push(prog("duplicate import", "use.lc::h_z use.lc::h_z begin exec.h_z::p end", false));
    v.push(prog("import after procedure", "proc.a push.1 drop end use.lc::h_z begin exec.h_z::p end", false));
    v.push(prog("import inside body", "begin use.lc::h_z exec.h_z::p end", false));
    v.push(prog(
        "call to unknown MAST root",
        "begin call.0xc2545da99d3a1f3f38d957c7893c44d78998d8ea8b11aba7e22c8c2b2a213dae end",
        false,
    ));
    v.push(prog("call to short MAST root", "begin call.0x1234 end", false));
    v.push(prog("exec with MAST root", "begin exec.0xc2545da99d3a1f3f38d957c7893c44d78998d8ea8b11aba7e22c8c2b2a213dae end", false));
    v.push(prog("syscall with MAST root", "begin syscall.0xc2545da99d3a1f3f38d957c7893c44d78998d8ea8b11aba7e22c8c2b2a213dae end", false));
    v.push(prog("procref with MAST root", "begin procref.0xc2545da99d3a1f3f38d957c7893c44d78998d8ea8b11aba7e22c8c2b2a213dae end", false));

    // ----- program structure -----------------------------------------------------------------------
    v.push(prog("export in executable", "export.foo push.1 drop end begin exec.foo end", false));
    v.push(prog("export in executable (unused)", "export.foo push.1 drop end begin push.1 drop end", false));
    v.push(prog("re-export in executable", "use.lc::h_z export.h_z::p begin push.1 drop end", false));
    v.push(prog("proc after begin", "begin push.1 drop end proc.foo push.1 drop end", false));
    v.push(prog("proc inside body", "begin proc.foo push.1 drop end exec.foo end", false));
    v.push(prog("proc inside proc", "proc.a proc.b push.1 drop end end begin exec.a end", false));
    v.push(prog("export inside body", "begin export.foo push.1 drop end end", false));
    v.push(prog("begin inside proc", "proc.a begin push.1 drop end end begin exec.a end", false));
    v.push(prog("no begin", "proc.foo push.1 drop end", false));
    v.push(prog("empty source", "", false));
    v.push(prog("two bodies", "begin push.1 drop end begin push.2 drop end", false));
    v.push(prog("missing end", "begin push.1 drop", false));
    v.push(prog("extra end", "begin push.1 drop end end", false));
    v.push(prog("proc without name", "proc push.1 drop end begin push.1 drop end", false));
    v.push(prog("proc name starting with digit", "proc.1a push.1 drop end begin push.1 drop end", false));
    v.push(prog("proc unterminated", "proc.a push.1 drop begin exec.a end", false));
    v.push(prog("if.false", "begin push.1 if.false push.1 drop end end", false));
    v.push(prog("while.false", "begin push.0 while.false push.0 end end", false));
    v.push(prog("else without if", "begin push.1 else push.1 drop end end", false));
    v.push(prog("if/else ok", "begin push.1 if.true push.1 drop else push.2 drop end end", true));
    v.push(prog("unknown instruction", "begin frobnicate end", false));
    v.push(prog("instruction with extra param", "begin push.1 drop.1 end", false));
    v.push(prog("empty procedure body", "proc.a end begin exec.a end", true));
    v.push(prog("empty body", "begin end", true));

    // ----- kernel restrictions -----------------------------------------------------------------------
    v.push(prog("caller outside kernel (body)", "begin caller dropw end", false));
    v.push(prog("caller outside kernel (local proc)", "proc.a caller dropw end begin exec.a end", false));
    v.push(prog("caller outside kernel (called proc)", "proc.a caller dropw end begin call.a end", false));
    v.push(prog("syscall to kernel proc", "begin syscall.k0 end", true));
    v.push(prog("syscall to kernel proc from local proc", "proc.a syscall.k1 end begin call.a end", true));
    v.push(prog("syscall to internal kernel proc", "begin syscall.kl end", false));
    v.push(prog("syscall to unknown proc", "begin syscall.nope end", false));
    v.push(prog("syscall to local non-kernel proc", "proc.a push.1 drop end begin syscall.a end", false));
    v.push(prog("syscall to library proc by name", "use.lc::h_z begin syscall.p end", false));
    v.push(prog("syscall with module path", "use.lc::h_z begin syscall.h_z::p end", false));
    v.push(prog("exec of kernel proc by name", "begin exec.k0 end", false));
    v.push(prog("call of kernel proc by name", "begin call.k0 end", false));
    v.push(Case {
        label: "syscall without kernel".into(),
        ctx: Ctx::ProgNoKernel,
        src: "begin syscall.k0 end".into(),
        extra: None,
        expect_ok: false,
    });
    v.push(Case {
        label: "caller without kernel".into(),
        ctx: Ctx::ProgNoKernel,
        src: "begin caller dropw end".into(),
        extra: None,
        expect_ok: false,
    });
    v.push(Case {
        label: "plain program without kernel".into(),
        ctx: Ctx::ProgNoKernel,
        src: "use.lb::h_cl begin call.h_cl::p end".into(),
        extra: None,
        expect_ok: true,
    });

    let k = |label: &str, src: &str, ok: bool| Case {
        label: label.to_string(),
        ctx: Ctx::Kernel,
        src: src.to_string(),
        extra: None,
        expect_ok: ok,
    };
    v.push(k("kernel: plain", "export.a push.1 drop end", true));
    v.push(k("kernel: caller allowed", "export.a caller dropw end", true));
    v.push(k("kernel: exec local", "proc.h push.1 drop end export.a exec.h end", true));
    v.push(k("kernel: exec imported", "use.lc::h_z export.a push.1 drop exec.h_z::p end", true));
    v.push(k("kernel: exec re-exported", "use.lr::r2_z export.a push.1 drop exec.r2_z::q end", true));
    // a procedure consisting only of an exec of a procedure with locals (see BASELINE_DEVIATIONS)
    v.push(k("kernel: bare wrapper of imported proc with locals", "use.lc::h_z export.a exec.h_z::p end", true));
    v.push(k("kernel: call local", "proc.h push.1 drop end export.a call.h end", false));
    v.push(k("kernel: call local from internal proc", "proc.h push.1 drop end proc.g call.h end export.a exec.g end", false));
    v.push(k("kernel: call imported", "use.lc::h_z export.a call.h_z::p end", false));
    v.push(k("kernel: call re-exported", "use.lr::r1_z export.a call.r1_z::p end", false));
    v.push(k("kernel: exec imported proc which calls (nested module)", "use.lb::h_cl export.a exec.h_cl::p end", false));
    v.push(k("kernel: exec imported proc which calls imported", "use.lb::h_ci export.a exec.h_ci::p end", false));
    v.push(k("kernel: syscall to own proc", "export.b push.1 drop end export.a syscall.b end", false));
    v.push(k("kernel: syscall to unknown", "export.a syscall.nope end", false));
    v.push(k("kernel: call by MAST root", "export.a call.0xc2545da99d3a1f3f38d957c7893c44d78998d8ea8b11aba7e22c8c2b2a213dae end", false));
    v.push(k("kernel: with begin", "export.a push.1 drop end begin exec.a end", false));
    v.push(k("kernel: undefined local", "export.a exec.nope end", false));
    v.push(k("kernel: undefined imported", "use.lc::h_z export.a exec.h_z::nope end", false));
    v.push(k("kernel: duplicate procedures (same MAST root)", "export.a push.1 drop end export.b push.1 drop end", false));
    v.push(k("kernel: local index out of range", "export.a.2 push.1 loc_store.2 end", false));
    v.push(k("kernel: local index in range", "export.a.2 push.1 loc_store.1 end", true));
    v.push(k("kernel: empty source", "", false));

    // ----- library modules -------------------------------------------------------------------------
    let m = |label: &str, module: &str, program: &str, ok: bool| Case {
        label: label.to_string(),
        ctx: Ctx::Module,
        src: module.to_string(),
        extra: Some(program.to_string()),
        expect_ok: ok,
    };
    let use_f = "use.lt::m begin exec.m::f end";
    v.push(m("module: plain", "export.f push.1 drop end", use_f, true));
    v.push(m("module: with body", "export.f push.1 drop end begin exec.f end", use_f, false));
    v.push(m("module: caller", "export.f caller dropw end", use_f, false));
    v.push(m("module: caller in unused internal proc", "proc.g caller dropw end export.f push.1 drop end", use_f, false));
    v.push(m("module: caller in other exported proc", "export.g caller dropw end export.f push.1 drop end", use_f, false));
    v.push(m("module: syscall to kernel proc", "export.f syscall.k0 end", use_f, true));
    v.push(m("module: syscall to unknown", "export.f syscall.nope end", use_f, false));
    v.push(m("module: undefined local", "export.f exec.nope end", use_f, false));
    v.push(m("module: undefined local in other proc", "export.g exec.nope end export.f push.1 drop end", use_f, false));
    v.push(m("module: undefined imported proc", "use.lc::h_z export.f exec.h_z::nope end", use_f, false));
    v.push(m("module: undefined imported module", "use.lc::nomodule export.f exec.nomodule::p end", use_f, false));
    v.push(m("module: re-export of missing proc", "use.lc::h_z export.h_z::nope export.f push.1 drop end", use_f, false));
    v.push(m("module: re-export of missing module", "use.lc::nomodule export.nomodule::p export.f push.1 drop end", use_f, false));
    v.push(m("module: re-export without import", "export.h_z::p export.f push.1 drop end", use_f, false));
    v.push(m("module: re-export of internal proc", "use.lb::h_cl export.h_cl::c_z export.f push.1 drop end", use_f, false));
    v.push(m("module: re-export name clash", "use.lc::h_z export.h_z::p->f export.f push.1 drop end", use_f, false));
    v.push(m("module: re-export ok", "use.lc::h_z export.h_z::p->g export.f push.1 drop end", "use.lt::m begin exec.m::g call.m::g end", true));
    v.push(m("module: duplicate procs", "export.f push.1 drop end export.f push.2 drop end", use_f, false));
    v.push(m("module: local index n", "export.f.3 push.1 loc_store.3 end", use_f, false));
    v.push(m("module: local index n-1", "export.f.3 push.1 loc_store.2 end", use_f, true));
    v.push(m("module: local index n in internal unused proc", "proc.g.3 push.1 loc_store.3 end export.f push.1 drop end", use_f, false));
    v.push(m("module: self import (circular)", "use.lt::m export.f exec.m::g end export.g push.1 drop end", use_f, false));
    v.push(m("module: bare wrapper of imported proc with locals", "use.lc::h_z export.f exec.h_z::p end", use_f, true));
    v.push(m("module: bare wrapper of exported local proc with locals", "export.g.2 push.1 loc_store.0 end export.f exec.g end", use_f, true));
    v.push(m("module: wrapper (+ other ops) of imported proc with locals", "use.lc::h_z export.f push.1 drop exec.h_z::p end", use_f, true));
    v.push(m("module: div.0", "export.f push.1 div.0 drop end", use_f, false));
    v.push(m("module: proc only, no exports, import fails", "proc.f push.1 drop end", use_f, false));

    v
}
