//! Generated family of programs / library modules used by the C11 demo.
//!
//! A *chain* is a sequence of hops `main --h0--> P1 --h1--> P2 --h2--> leaf`. Every hop has a
//! kind (exec / call / procref+dynexec / procref+dyncall, or a terminal syscall) and a location
//! which says where the callee lives relative to the module of the caller:
//!   - Local: an internal (non-exported) copy of the callee in the same module
//!   - Imp:   the exported procedure `p` of the callee's home module
//!   - Rex1:  a module which re-exports `p` from the home module
//!   - Rex2:  a module which re-exports (under an alias `q`) the re-export of Rex1
//!
//! The procedure `P[suffix]` is fully determined (including its MAST root) by the *kinds* of the
//! hops below it; locations only change where the text of the callee is found. This gives a strong
//! oracle: two chains with the same kinds must compile to the same program root and the same code
//! block table.

use std::collections::{BTreeMap, BTreeSet};

#[derive(Clone, Copy, PartialEq, Eq, Hash, Debug, PartialOrd, Ord)]
pub enum Kind {
    Exec,
    Call,
    DynExec,
    DynCall,
}

#[derive(Clone, Copy, PartialEq, Eq, Hash, Debug, PartialOrd, Ord)]
pub enum Loc {
    Local,
    Imp,
    Rex1,
    Rex2,
}

#[derive(Clone, Copy, PartialEq, Eq, Hash, Debug, PartialOrd, Ord)]
pub enum Hop {
    Inv(Kind, Loc),
    /// syscall to kernel procedure k<j>; can only be the last hop of a chain
    Sys(u8),
}

pub const KINDS: [Kind; 4] = [Kind::Exec, Kind::Call, Kind::DynExec, Kind::DynCall];
pub const LOCS: [Loc; 4] = [Loc::Local, Loc::Imp, Loc::Rex1, Loc::Rex2];
pub const NUM_KERNEL_PROCS: u8 = 4;

impl Hop {
    fn id(&self) -> String {
        match self {
            Hop::Inv(k, l) => {
                let k = match k {
                    Kind::Exec => 'e',
                    Kind::Call => 'c',
                    Kind::DynExec => 'x',
                    Kind::DynCall => 'y',
                };
                let l = match l {
                    Loc::Local => 'l',
                    Loc::Imp => 'i',
                    Loc::Rex1 => 'r',
                    Loc::Rex2 => 'q',
                };
                format!("{k}{l}")
            }
            Hop::Sys(j) => format!("s{j}"),
        }
    }

    /// The part of the hop which determines the MAST (i.e., everything except the location).
    pub fn kind_id(&self) -> String {
        match self {
            Hop::Inv(k, _) => format!("{k:?}"),
            Hop::Sys(j) => format!("Sys{j}"),
        }
    }
}

pub fn suffix_id(suffix: &[Hop]) -> String {
    if suffix.is_empty() {
        "z".to_string()
    } else {
        suffix.iter().map(|h| h.id()).collect::<Vec<_>>().join("")
    }
}

pub fn kinds_id(chain: &[Hop]) -> String {
    chain.iter().map(|h| h.kind_id()).collect::<Vec<_>>().join(">")
}

/// Marker value which makes the body (and hence the MAST root) of P[suffix] unique per sequence of
/// hop *kinds* (locations do not matter).
fn marker(suffix: &[Hop]) -> u64 {
    let mut h: u64 = 0xcbf29ce484222325;
    for b in kinds_id(suffix).bytes() {
        h ^= b as u64;
        h = h.wrapping_mul(0x100000001b3);
    }
    (h % 1_000_000_007) + 2
}

fn namespace_for(suffix_len: usize) -> &'static str {
    match suffix_len {
        0 => "lc",
        1 => "lb",
        _ => "la",
    }
}

// MODULE BUILDER
// ================================================================================================

#[derive(Default, Clone, Debug)]
pub struct ModB {
    pub imports: BTreeSet<String>,
    /// (name, full text of the procedure) in definition order
    pub procs: Vec<(String, String)>,
    pub reexports: Vec<String>,
}

impl ModB {
    fn has(&self, name: &str) -> bool {
        self.procs.iter().any(|(n, _)| n == name)
    }

    pub fn header(&self) -> String {
        let mut s = String::new();
        for i in &self.imports {
            s.push_str(&format!("use.{i}\n"));
        }
        for r in &self.reexports {
            s.push_str(&format!("export.{r}\n"));
        }
        s
    }

    pub fn text(&self) -> String {
        let mut s = self.header();
        for (_, p) in &self.procs {
            s.push_str(p);
        }
        s
    }
}

/// All library modules generated so far, keyed by absolute module path.
#[derive(Default)]
pub struct LibSet {
    pub modules: BTreeMap<String, ModB>,
}

impl LibSet {
    /// Makes sure the home module (and both re-export modules) of P[suffix] exist; returns the
    /// name of the home module (without namespace).
    pub fn ensure_home(&mut self, suffix: &[Hop]) -> String {
        let id = suffix_id(suffix);
        let ns = namespace_for(suffix.len());
        let home = format!("h_{id}");
        let path = format!("{ns}::{home}");
        if !self.modules.contains_key(&path) {
            // reserve the slot first (there are no cycles, but keeps things simple)
            self.modules.insert(path.clone(), ModB::default());
            let mut m = ModB::default();
            add_proc(&mut m, self, suffix, "p", true);
            self.modules.insert(path.clone(), m);

            let mut r1 = ModB::default();
            r1.imports.insert(path.clone());
            r1.reexports.push(format!("{home}::p"));
            self.modules.insert(format!("lr::r1_{id}"), r1);

            let mut r2 = ModB::default();
            r2.imports.insert(format!("lr::r1_{id}"));
            r2.reexports.push(format!("r1_{id}::p->q"));
            self.modules.insert(format!("lr::r2_{id}"), r2);
        }
        home
    }
}

/// Returns (instructions performing the hop, ) after making sure the target is reachable from `m`.
fn hop_code(m: &mut ModB, libs: &mut LibSet, hop: Hop, rest: &[Hop]) -> String {
    let (kind, loc) = match hop {
        Hop::Sys(j) => return format!("syscall.k{j}"),
        Hop::Inv(k, l) => (k, l),
    };
    let id = suffix_id(rest);
    let target = match loc {
        Loc::Local => {
            let name = format!("c_{id}");
            if !m.has(&name) {
                add_proc(m, libs, rest, &name, false);
            }
            name
        }
        Loc::Imp => {
            let home = libs.ensure_home(rest);
            m.imports.insert(format!("{}::{home}", namespace_for(rest.len())));
            format!("{home}::p")
        }
        Loc::Rex1 => {
            libs.ensure_home(rest);
            m.imports.insert(format!("lr::r1_{id}"));
            format!("r1_{id}::p")
        }
        Loc::Rex2 => {
            libs.ensure_home(rest);
            m.imports.insert(format!("lr::r2_{id}"));
            format!("r2_{id}::q")
        }
    };
    match kind {
        Kind::Exec => format!("exec.{target}"),
        Kind::Call => format!("call.{target}"),
        Kind::DynExec => format!("procref.{target} dynexec dropw"),
        Kind::DynCall => format!("procref.{target} dyncall dropw"),
    }
}

/// Adds P[suffix] to module `m` under the given name (callee copies / imports are added first).
fn add_proc(m: &mut ModB, libs: &mut LibSet, suffix: &[Hop], name: &str, export: bool) {
    let kw = if export { "export" } else { "proc" };
    let mk = marker(suffix);
    let text = if suffix.is_empty() {
        // the leaf uses two procedure locals
        format!("{kw}.{name}.2\n    push.{mk} loc_store.1 loc_load.1 drop\nend\n")
    } else {
        let code = hop_code(m, libs, suffix[0], &suffix[1..]);
        format!("{kw}.{name}\n    push.{mk} drop\n    {code}\nend\n")
    };
    m.procs.push((name.to_string(), text));
}

/// Source of the executable program for the given chain.
pub fn program_source(libs: &mut LibSet, chains: &[Vec<Hop>]) -> String {
    let mut m = ModB::default();
    let mut code = Vec::new();
    for chain in chains {
        code.push(hop_code(&mut m, libs, chain[0], &chain[1..]));
    }
    format!("{}begin\n    {}\nend\n", m.text(), code.join("\n    "))
}

/// Kernel used by every assembler of the demo. Kernel procedures only use `exec`.
pub fn kernel_source() -> String {
    "use.lc::kleaf
use.lr::r1_kleaf
proc.kl.2
    push.770001 loc_store.0 loc_load.0 drop
end
export.k0
    push.770010 drop
end
export.k1
    push.770011 drop exec.kl
end
export.k2
    push.770012 drop exec.kleaf::p
end
export.k3
    push.770013 drop exec.r1_kleaf::p
end
"
    .to_string()
}

pub fn add_kernel_support_modules(libs: &mut LibSet) {
    let mut leaf = ModB::default();
    leaf.procs.push((
        "p".into(),
        "export.p.1\n    push.770002 loc_store.0 loc_load.0 drop\nend\n".into(),
    ));
    libs.modules.insert("lc::kleaf".into(), leaf);
    let mut r1 = ModB::default();
    r1.imports.insert("lc::kleaf".into());
    r1.reexports.push("kleaf::p".into());
    libs.modules.insert("lr::r1_kleaf".into(), r1);
    // make sure no library is empty (for small depths)
    for ns in ["la", "lb", "lc", "lr"] {
        let mut d = ModB::default();
        d.procs.push(("d".into(), "export.d\n    push.1 drop\nend\n".into()));
        libs.modules.insert(format!("{ns}::dummy"), d);
    }
}

/// All chains of depth 1..=max_depth.
pub fn all_chains(max_depth: usize) -> Vec<Vec<Hop>> {
    let mut inner = Vec::new();
    for k in KINDS {
        for l in LOCS {
            inner.push(Hop::Inv(k, l));
        }
    }
    let mut terminal = inner.clone();
    for j in 0..NUM_KERNEL_PROCS {
        terminal.push(Hop::Sys(j));
    }

    let mut result = Vec::new();
    let mut prefixes: Vec<Vec<Hop>> = vec![vec![]];
    for _depth in 1..=max_depth {
        for p in &prefixes {
            for t in &terminal {
                let mut c = p.clone();
                c.push(*t);
                result.push(c);
            }
        }
        let mut next = Vec::new();
        for p in &prefixes {
            for h in &inner {
                let mut c = p.clone();
                c.push(*h);
                next.push(c);
            }
        }
        prefixes = next;
    }
    result
}
