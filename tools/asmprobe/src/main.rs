//! asmprobe: bounded stand-in `asm_history` for C11 (adapted from the demo written by the independent mutation
//! sub-agent for C11; machine-readable CHECKFAIL / PROBE / SUMMARY lines added; the baseline notes are reported as PROBE
//! lines - known findings are handled by /verif/known_findings.json).  family.rs generates the call-chain family and
//! the libraries, invalid.rs the table of invalid / boundary sources.
//! C11 demo: assembly is deterministic, history-independent and self-contained.
//!
//! Prints PASS/FAIL per check and exits non-zero if any (non-baseline) check fails.

mod family;
mod invalid;

use assembly::{
    ast::ModuleAst, Assembler, LibraryNamespace, LibraryPath, MaslLibrary, Module, Version,
};
use family::{all_chains, kinds_id, program_source, suffix_id, Hop, LibSet};
use invalid::{Case, Ctx};
use processor::{DefaultHost, ExecutionOptions, StackInputs};
use std::{
    collections::{hash_map::DefaultHasher, BTreeMap},
    hash::{Hash, Hasher},
    panic::{catch_unwind, AssertUnwindSafe},
    sync::Mutex,
};
use vm_core::Program;

// OUTCOMES
// ================================================================================================

#[derive(Clone, Debug, PartialEq, Eq)]
enum Out {
    /// (program root, fingerprint of the code block table)
    Ok([u8; 32], u64),
    Err(String),
    Panic(String),
}

impl Out {
    fn class(&self) -> &'static str {
        match self {
            Out::Ok(..) => "Ok",
            Out::Err(_) => "Err",
            Out::Panic(_) => "PANIC",
        }
    }
    fn short(&self) -> String {
        match self {
            Out::Ok(root, cbt) => format!("Ok(root={}, cb_table#={cbt:016x})", hex(&root[..8])),
            Out::Err(e) => format!("Err({})", one_line(e)),
            Out::Panic(e) => format!("PANIC({})", one_line(e)),
        }
    }
}

fn hex(b: &[u8]) -> String {
    b.iter().map(|x| format!("{x:02x}")).collect()
}

fn one_line(s: &str) -> String {
    let s: String = s.split_whitespace().collect::<Vec<_>>().join(" ");
    if s.len() > 220 {
        format!("{}...", &s[..220])
    } else {
        s
    }
}

static LAST_PANIC: Mutex<String> = Mutex::new(String::new());

static QUIET: std::sync::atomic::AtomicBool = std::sync::atomic::AtomicBool::new(false);

fn guarded<T>(f: impl FnOnce() -> T) -> Result<T, String> {
    use std::sync::atomic::Ordering;
    let was = QUIET.swap(true, Ordering::SeqCst);
    let r = catch_unwind(AssertUnwindSafe(f));
    QUIET.store(was, Ordering::SeqCst);
    match r {
        Ok(v) => Ok(v),
        Err(_) => Err(LAST_PANIC.lock().unwrap().clone()),
    }
}

fn fingerprint(program: &Program) -> ([u8; 32], u64) {
    let root: [u8; 32] = program.hash().into();
    let mut h = DefaultHasher::new();
    format!("{:?}", program.cb_table()).hash(&mut h);
    format!("{:?}", program.kernel()).hash(&mut h);
    (root, h.finish())
}

fn compile(assembler: &Assembler, src: &str) -> (Out, Option<Program>) {
    match guarded(|| assembler.compile(src)) {
        Ok(Ok(p)) => {
            let (r, c) = fingerprint(&p);
            (Out::Ok(r, c), Some(p))
        }
        Ok(Err(e)) => (Out::Err(format!("{e}")), None),
        Err(p) => (Out::Panic(p), None),
    }
}

fn execute(program: &Program) -> Result<(), String> {
    let r = guarded(|| {
        processor::execute(
            program,
            StackInputs::default(),
            DefaultHost::default(),
            ExecutionOptions::default(),
        )
        .map(|_| ())
        .map_err(|e| format!("{e}"))
    });
    match r {
        Ok(r) => r,
        Err(p) => Err(format!("PANIC: {p}")),
    }
}

// ENVIRONMENT
// ================================================================================================

struct Env {
    /// libraries la, lb, lc, lr (in this canonical order)
    libs: Vec<MaslLibrary>,
    kernel: String,
    /// text of every generated module (for reports)
    texts: BTreeMap<String, String>,
}

fn build_library(ns: &str, modules: &BTreeMap<String, String>) -> MaslLibrary {
    let mods: Vec<Module> = modules
        .iter()
        .filter(|(path, _)| path.starts_with(&format!("{ns}::")))
        .map(|(path, text)| {
            let ast = ModuleAst::parse(text)
                .unwrap_or_else(|e| panic!("generated module {path} does not parse: {e}\n{text}"));
            Module::new(LibraryPath::new(path).unwrap(), ast)
        })
        .collect();
    MaslLibrary::new(LibraryNamespace::new(ns).unwrap(), Version::default(), false, mods, vec![])
        .unwrap()
}

impl Env {
    fn assembler_no_kernel(&self, order: &[usize]) -> Assembler {
        let mut a = Assembler::default();
        for &i in order {
            a = a.with_library(&self.libs[i]).expect("library");
        }
        a
    }

    fn assembler(&self, order: &[usize]) -> Assembler {
        self.assembler_no_kernel(order).with_kernel(&self.kernel).expect("kernel")
    }

    fn fresh(&self) -> Assembler {
        self.assembler(&[0, 1, 2, 3])
    }

    /// Text of all library modules (transitively) imported by the given source.
    fn deps_text(&self, src: &str) -> String {
        let mut seen: Vec<String> = Vec::new();
        let mut todo: Vec<String> = imports_of(src);
        while let Some(path) = todo.pop() {
            if seen.contains(&path) {
                continue;
            }
            if let Some(t) = self.texts.get(&path) {
                todo.extend(imports_of(t));
            }
            seen.push(path);
        }
        seen.sort();
        let mut s = String::new();
        for p in seen {
            match self.texts.get(&p) {
                Some(t) => s.push_str(&format!("    --- module {p} ---\n{}", indent(t))),
                None => s.push_str(&format!("    --- module {p}: (not in any library) ---\n")),
            }
        }
        s
    }
}

fn imports_of(src: &str) -> Vec<String> {
    src.split_whitespace()
        .filter_map(|t| t.strip_prefix("use."))
        .map(|t| t.split("->").next().unwrap().to_string())
        .collect()
}

fn indent(s: &str) -> String {
    s.lines().map(|l| format!("      {l}\n")).collect()
}

// REPORT
// ================================================================================================

#[derive(Default)]
struct Report {
    failed_checks: Vec<String>,
    baseline_notes: Vec<String>,
}

impl Report {
    fn check(&mut self, name: &str, total: usize, failures: Vec<String>) {
        if failures.is_empty() {
            println!("PASS  {name}  ({total} cases)");
        } else {
            println!("FAIL  {name}  ({} of {total} cases failed)", failures.len());
            println!("CHECKFAIL {} | {} of {total} | {}", name.split(')').next().unwrap_or("").trim_start_matches('('), failures.len(), failures[0].replace('\n', " ").chars().take(600).collect::<String>());
            for f in failures.iter().take(MAX_SHOWN) {
                println!("{f}");
            }
            if failures.len() > MAX_SHOWN {
                println!("  ... {} more failures not shown", failures.len() - MAX_SHOWN);
            }
            self.failed_checks.push(name.to_string());
        }
    }
}

const MAX_SHOWN: usize = 4;

// SHUFFLING (deterministic)
// ================================================================================================

fn shuffled(n: usize, seed: u64) -> Vec<usize> {
    let mut v: Vec<usize> = (0..n).collect();
    let mut s = seed.wrapping_mul(0x9e3779b97f4a7c15) | 1;
    for i in (1..n).rev() {
        s ^= s << 13;
        s ^= s >> 7;
        s ^= s << 17;
        let j = (s % (i as u64 + 1)) as usize;
        v.swap(i, j);
    }
    v
}

fn permutations(n: usize) -> Vec<Vec<usize>> {
    fn rec(cur: &mut Vec<usize>, used: &mut Vec<bool>, out: &mut Vec<Vec<usize>>) {
        if cur.len() == used.len() {
            out.push(cur.clone());
            return;
        }
        for i in 0..used.len() {
            if !used[i] {
                used[i] = true;
                cur.push(i);
                rec(cur, used, out);
                cur.pop();
                used[i] = false;
            }
        }
    }
    let mut out = Vec::new();
    rec(&mut Vec::new(), &mut vec![false; n], &mut out);
    out
}

// MAIN
// ================================================================================================

struct Prog {
    /// the body of the program performs the first hop of each of these chains, one after the other
    chains: Vec<Vec<Hop>>,
    src: String,
}

impl Prog {
    fn id(&self) -> String {
        self.chains.iter().map(|c| suffix_id(c)).collect::<Vec<_>>().join("+")
    }
    fn kinds(&self) -> String {
        self.chains.iter().map(|c| kinds_id(c)).collect::<Vec<_>>().join(" + ")
    }
    fn depth(&self) -> usize {
        self.chains.iter().map(|c| c.len()).max().unwrap()
    }
}

fn main() {
    std::panic::set_hook(Box::new(|info| {
        *LAST_PANIC.lock().unwrap() = format!("{info}");
        if !QUIET.load(std::sync::atomic::Ordering::SeqCst) {
            eprintln!("demo harness panic: {info}");
        }
    }));

    let max_depth: usize = std::env::var("C11_DEPTH").ok().and_then(|s| s.parse().ok()).unwrap_or(3);

    // ----- generate the family ------------------------------------------------------------------
    let mut libset = LibSet::default();
    family::add_kernel_support_modules(&mut libset);
    let chains = all_chains(max_depth);
    let mut progs: Vec<Prog> = chains
        .iter()
        .map(|chain| {
            let chains = vec![chain.clone()];
            let src = program_source(&mut libset, &chains);
            Prog { chains, src }
        })
        .collect();
    // programs whose body uses two chains (diamond-shaped imports, shared callees, ...)
    let num_pairs = std::env::var("C11_PAIRS").ok().and_then(|s| s.parse().ok()).unwrap_or(600);
    let pick = shuffled(chains.len() * chains.len(), 42);
    for &k in pick.iter().take(num_pairs) {
        let pair = vec![chains[k / chains.len()].clone(), chains[k % chains.len()].clone()];
        let src = program_source(&mut libset, &pair);
        progs.push(Prog { chains: pair, src });
    }
    // a scratch library namespace used by the module cases of check (5) must not exist here
    let texts: BTreeMap<String, String> =
        libset.modules.iter().map(|(p, m)| (p.clone(), m.text())).collect();
    let env = Env {
        libs: ["la", "lb", "lc", "lr"].iter().map(|ns| build_library(ns, &texts)).collect(),
        kernel: family::kernel_source(),
        texts,
    };
    println!(
        "family: {} programs (all call chains of depth 1..={max_depth} + {num_pairs} programs using two chains), {} library modules in 4 libraries, kernel with {} procedures",
        progs.len(),
        env.texts.len(),
        family::NUM_KERNEL_PROCS
    );

    // exploration mode: c11-demo --try [--kernel <kernel source>] <source>...
    let args: Vec<String> = std::env::args().skip(1).collect();
    if args.first().map(|s| s.as_str()) == Some("--try") {
        let mut rest = &args[1..];
        let mut a = env.fresh();
        if rest.first().map(|s| s.as_str()) == Some("--kernel") {
            a = match guarded(|| env.assembler_no_kernel(&[0, 1, 2, 3]).with_kernel(&rest[1])) {
                Ok(Ok(a)) => a,
                Ok(Err(e)) => {
                    println!("kernel: Err({e})");
                    return;
                }
                Err(p) => {
                    println!("kernel: PANIC({p})");
                    return;
                }
            };
            rest = &rest[2..];
        }
        for src in rest {
            // `@path` reads the source from a file
            let src = &match src.strip_prefix('@') {
                Some(path) => std::fs::read_to_string(path).expect("source file"),
                None => src.clone(),
            };
            let (out, program) = compile(&a, src);
            println!("{}\n  -> {}", one_line(src), out.short());
            if let Some(p) = program {
                println!("  execution: {:?}", execute(&p));
            }
        }
        return;
    }

    let mut report = Report::default();

    // ----- (0) reference: every program on a fresh assembler; (4) self-containment -----------------
    let mut reference: Vec<Out> = Vec::with_capacity(progs.len());
    let mut fails_compile = Vec::new();
    let mut fails_exec = Vec::new();
    for p in &progs {
        let a = env.fresh();
        let (out, program) = compile(&a, &p.src);
        match (&out, program) {
            (Out::Ok(..), Some(program)) => {
                if let Err(e) = execute(&program) {
                    fails_exec.push(format!(
                        "  chain {} [{}]: assembled on a fresh assembler but execution failed: {}\n    --- program ---\n{}{}",
                        p.id(),
                        p.kinds(),
                        one_line(&e),
                        indent(&p.src),
                        env.deps_text(&p.src)
                    ));
                }
            }
            _ => fails_compile.push(format!(
                "  chain {} [{}]: valid program not assembled: {}\n    --- program ---\n{}{}",
                p.id(),
                p.kinds(),
                out.short(),
                indent(&p.src),
                env.deps_text(&p.src)
            )),
        }
        reference.push(out);
    }
    report.check(
        "(0) every valid program of the family assembles on a fresh assembler",
        progs.len(),
        fails_compile,
    );
    report.check(
        "(4a) self-containment: every assembled program executes (fresh assembler)",
        progs.len(),
        fails_exec,
    );

    // ----- (3) re-exports / location independence ------------------------------------------------
    {
        let mut groups: BTreeMap<String, Vec<usize>> = BTreeMap::new();
        for (i, p) in progs.iter().enumerate() {
            groups.entry(p.kinds()).or_default().push(i);
        }
        let mut fails_root = Vec::new();
        let mut fails_cbt = Vec::new();
        let mut n = 0;
        for (kinds, members) in &groups {
            // the first member which assembled is the representative
            let Some(&rep) = members.iter().find(|&&i| matches!(reference[i], Out::Ok(..))) else {
                continue;
            };
            let Out::Ok(rroot, rcbt) = reference[rep].clone() else { unreachable!() };
            for &i in members {
                n += 1;
                if let Out::Ok(root, cbt) = &reference[i] {
                    let msg = |what: &str| {
                        format!(
                            "  [{kinds}] {what} differs between chain {} and chain {} (same procedures, reached locally / directly / through re-exports)\n    {} -> {}\n    {} -> {}\n    --- program A ---\n{}{}    --- program B ---\n{}{}",
                            progs[rep].id(),
                            progs[i].id(),
                            progs[rep].id(),
                            reference[rep].short(),
                            progs[i].id(),
                            reference[i].short(),
                            indent(&progs[rep].src),
                            env.deps_text(&progs[rep].src),
                            indent(&progs[i].src),
                            env.deps_text(&progs[i].src),
                        )
                    };
                    if *root != rroot {
                        fails_root.push(msg("MAST root"));
                    } else if *cbt != rcbt {
                        fails_cbt.push(msg("code block table"));
                    }
                }
            }
        }
        report.check(
            "(3a) re-exports: same MAST root whether a procedure is reached locally, directly, through 1 or 2 re-exports",
            n,
            fails_root,
        );
        report.check(
            "(3b) re-exports: same code block table whether a procedure is reached locally, directly, through 1 or 2 re-exports",
            n,
            fails_cbt,
        );
    }

    // ----- (1) history independence ------------------------------------------------------------------
    {
        let n = progs.len();
        let orders: Vec<(String, Vec<usize>, Vec<usize>)> = vec![
            ("forward".into(), (0..n).collect(), vec![0, 1, 2, 3]),
            ("reverse".into(), (0..n).rev().collect(), vec![0, 1, 2, 3]),
            ("forward-each-twice".into(), (0..2 * n).map(|i| i / 2).collect(), vec![0, 3, 1, 2]),
            ("shuffle#1".into(), shuffled(n, 1), vec![3, 2, 1, 0]),
            ("shuffle#2".into(), shuffled(n, 2), vec![1, 3, 0, 2]),
            ("shuffle#3".into(), shuffled(n, 3), vec![2, 0, 3, 1]),
        ];
        let mut fails = Vec::new();
        let mut fails_exec = Vec::new();
        let mut total = 0;
        for (name, order, lib_order) in &orders {
            let a = env.assembler(lib_order);
            for (pos, &i) in order.iter().enumerate() {
                total += 1;
                let (out, program) = compile(&a, &progs[i].src);
                if out != reference[i] {
                    // try to find a single predecessor which reproduces the difference
                    let mut culprit = String::from("    (no single predecessor reproduces it)\n");
                    let search: &[usize] = if fails.len() < MAX_SHOWN { &order[..pos] } else { &[] };
                    for &q in search.iter().rev() {
                        let b = env.assembler(lib_order);
                        let _ = compile(&b, &progs[q].src);
                        let (o2, _) = compile(&b, &progs[i].src);
                        if o2 != reference[i] {
                            culprit = format!(
                                "    minimal history: compile chain {} first, then this program -> {}\n    --- earlier program ---\n{}{}",
                                progs[q].id(),
                                o2.short(),
                                indent(&progs[q].src),
                                env.deps_text(&progs[q].src)
                            );
                            break;
                        }
                    }
                    fails.push(format!(
                        "  order {name}, position {pos}: chain {} [{}]\n    fresh assembler : {}\n    long-lived      : {}\n{culprit}    --- program ---\n{}{}",
                        progs[i].id(),
                        progs[i].kinds(),
                        reference[i].short(),
                        out.short(),
                        indent(&progs[i].src),
                        env.deps_text(&progs[i].src)
                    ));
                }
                // (4b) execute the program produced by the long-lived assembler in one of the orders
                if name == "shuffle#1" {
                    if let Some(program) = program {
                        if let Err(e) = execute(&program) {
                            fails_exec.push(format!(
                                "  order {name}, position {pos}: chain {} [{}]: execution failed: {}\n    --- program ---\n{}{}",
                                progs[i].id(),
                                progs[i].kinds(),
                                one_line(&e),
                                indent(&progs[i].src),
                                env.deps_text(&progs[i].src)
                            ));
                        }
                    }
                }
            }
        }
        report.check(
            "(1) history independence: fresh assembler vs one long-lived assembler (6 orders): same MAST root and code block table",
            total,
            fails,
        );
        report.check(
            "(4b) self-containment: programs assembled by a long-lived assembler execute",
            n,
            fails_exec,
        );
    }

    // ----- (2) library order independence --------------------------------------------------------
    {
        // (2a) fresh assembler per (permutation, program) for the chains of depth <= 2
        let perms = permutations(4);
        let mut fails = Vec::new();
        let mut total = 0;
        let small: Vec<usize> = (0..progs.len()).filter(|&i| progs[i].depth() <= 2).collect();
        for perm in &perms {
            for &i in &small {
                total += 1;
                let a = env.assembler(perm);
                let (out, _) = compile(&a, &progs[i].src);
                if out != reference[i] {
                    fails.push(format!(
                        "  library order {perm:?}: chain {}\n    canonical order : {}\n    this order      : {}\n    --- program ---\n{}",
                        progs[i].id(),
                        reference[i].short(),
                        out.short(),
                        indent(&progs[i].src)
                    ));
                }
            }
        }
        report.check(
            "(2a) library order: every permutation of the 4 libraries, fresh assembler per program (depth <= 2)",
            total,
            fails,
        );

        // (2b) one assembler per permutation compiling the whole family
        let mut fails = Vec::new();
        let mut total = 0;
        for (k, perm) in perms.iter().enumerate() {
            let a = env.assembler(perm);
            let order = shuffled(progs.len(), 100 + k as u64);
            for &i in &order {
                total += 1;
                let (out, _) = compile(&a, &progs[i].src);
                if out != reference[i] {
                    fails.push(format!(
                        "  library order {perm:?}: chain {}\n    canonical order, fresh : {}\n    this order, long-lived : {}\n    --- program ---\n{}",
                        progs[i].id(),
                        reference[i].short(),
                        out.short(),
                        indent(&progs[i].src)
                    ));
                }
            }
        }
        report.check(
            "(2b) library order: every permutation of the 4 libraries, whole family on one assembler",
            total,
            fails,
        );
    }

    // ----- (5) invalid programs and boundary values -------------------------------------------------
    let cases = invalid::cases();
    let run_case = |c: &Case, shared: Option<&Assembler>| -> Out {
        match c.ctx {
            Ctx::Prog => match shared {
                Some(a) => compile(a, &c.src).0,
                None => compile(&env.fresh(), &c.src).0,
            },
            Ctx::ProgNoKernel => compile(&env.assembler_no_kernel(&[0, 1, 2, 3]), &c.src).0,
            Ctx::Kernel => {
                let a = env.assembler_no_kernel(&[0, 1, 2, 3]);
                match guarded(|| a.with_kernel(&c.src)) {
                    Ok(Ok(a)) => compile(&a, "begin push.1 drop end").0,
                    Ok(Err(e)) => Out::Err(format!("{e}")),
                    Err(p) => Out::Panic(p),
                }
            }
            Ctx::Module => {
                let r = guarded(|| -> Result<Assembler, String> {
                    let ast = ModuleAst::parse(&c.src).map_err(|e| format!("{e}"))?;
                    let module = Module::new(LibraryPath::new("lt::m").unwrap(), ast);
                    let lib = MaslLibrary::new(
                        LibraryNamespace::new("lt").unwrap(),
                        Version::default(),
                        false,
                        vec![module],
                        vec![],
                    )
                    .map_err(|e| format!("{e}"))?;
                    env.fresh().with_library(&lib).map_err(|e| format!("{e}"))
                });
                match r {
                    Ok(Ok(a)) => compile(&a, c.extra.as_ref().unwrap()).0,
                    Ok(Err(e)) => Out::Err(e),
                    Err(p) => Out::Panic(p),
                }
            }
        }
    };
    let describe = |c: &Case| -> String {
        match &c.extra {
            Some(e) => format!(
                "    context: {:?}\n    --- module lt::m ---\n{}    --- program ---\n{}",
                c.ctx,
                indent(&c.src),
                indent(e)
            ),
            None => format!("    context: {:?}\n    --- source ---\n{}", c.ctx, indent(&c.src)),
        }
    };
    {
        let mut fails = Vec::new();
        let mut fresh_out = Vec::new();
        for c in &cases {
            let out = run_case(c, None);
            let ok = match (&out, c.expect_ok) {
                (Out::Ok(..), true) => true,
                (Out::Err(_), false) => true,
                _ => false,
            };
            if !ok {
                let msg = format!(
                    "  case '{}': expected {}, got {}\n{}",
                    c.label,
                    if c.expect_ok { "Ok" } else { "Err" },
                    out.short(),
                    describe(c)
                );
                if BASELINE_DEVIATIONS.contains(&c.label.as_str()) {
                    report.baseline_notes.push(msg);
                } else {
                    fails.push(msg);
                }
            } else if BASELINE_DEVIATIONS.contains(&c.label.as_str()) {
                report
                    .baseline_notes
                    .push(format!("  case '{}' is listed as a baseline deviation but behaved as expected: {}", c.label, out.short()));
            }
            fresh_out.push(out);
        }
        report.check(
            "(5a) invalid sources are rejected with Err (no panic), neighbouring valid boundary values are accepted",
            cases.len(),
            fails,
        );

        // (5b) the same verdicts on long-lived assemblers: after the whole valid family, and with
        // the cases themselves (valid and invalid) compiled one after the other, in two orders
        let mut fails = Vec::new();
        let mut total = 0;
        for (name, order) in [
            ("forward", (0..cases.len()).collect::<Vec<_>>()),
            ("shuffled", shuffled(cases.len(), 7)),
        ] {
            let a = env.fresh();
            for i in shuffled(progs.len(), 9).into_iter().take(400) {
                let _ = compile(&a, &progs[i].src);
            }
            for &i in &order {
                let c = &cases[i];
                if c.ctx != Ctx::Prog {
                    continue;
                }
                total += 1;
                let out = run_case(c, Some(&a));
                let same = match (&out, &fresh_out[i]) {
                    (Out::Ok(r1, c1), Out::Ok(r2, c2)) => r1 == r2 && c1 == c2,
                    (a, b) => a.class() == b.class(),
                };
                if !same {
                    fails.push(format!(
                        "  case '{}' (order {name}): fresh assembler {} but long-lived assembler {}\n{}",
                        c.label,
                        fresh_out[i].short(),
                        out.short(),
                        describe(c)
                    ));
                }
            }
        }
        report.check(
            "(5b) same accept / reject verdict (and same program) on a long-lived assembler which compiled valid and invalid sources before",
            total,
            fails,
        );
    }

    // ----- baseline probes (reported separately, not part of the verdict) ---------------------------
    probes(&env, &mut report);

    println!();
    if !report.baseline_notes.is_empty() {
        println!("BASELINE NOTES (behaviour of the code which does not depend on the patch; excluded from the verdict):");
        for n in &report.baseline_notes {
            println!("{n}");
        }
        for n in &report.baseline_notes {
            let one = n.replace('\n', " ");
            let one = one.trim();
            let id = if let Some(rest) = one.strip_prefix("probe ") { rest.split_whitespace().next().unwrap_or("P?").to_string() } else if one.starts_with("case '") { format!("case:{}", one.split('\'').nth(1).unwrap_or("?")) } else { "note".to_string() };
            println!("PROBE {} | {}", id, one.chars().take(700).collect::<String>());
        }
        println!();
    }
    println!("SUMMARY failed_checks={} probes={}", report.failed_checks.len(), report.baseline_notes.len());
    if report.failed_checks.is_empty() {
        println!("VERDICT: PASS");
    } else {
        println!("VERDICT: FAIL ({} checks failed)", report.failed_checks.len());
        for c in &report.failed_checks {
            println!("  - {c}");
        }
        std::process::exit(1);
    }
}

/// Labels of cases of check (5) for which the UNCHANGED code deviates from the expectation. They
/// are reported in the BASELINE NOTES section and do not count towards the verdict.
const BASELINE_DEVIATIONS: &[&str] = &[
    // the procedure cache rejects a procedure whose MAST equals the MAST of a cached procedure with
    // a different number of locals; `export.f exec.g end` has the MAST of g but no locals
    "kernel: bare wrapper of imported proc with locals",
    "module: bare wrapper of imported proc with locals",
    "module: bare wrapper of exported local proc with locals",
];

// BASELINE PROBES
// ================================================================================================

/// Probes for behaviours of the unchanged code which violate C11 independently of the patch.
/// They only produce notes.
fn probes(env: &Env, report: &mut Report) {
    // (P1) `call.<mast root>` depends on what the assembler instance compiled earlier
    {
        let a = env.fresh();
        let (o, _) = compile(&a, "use.lc::h_z begin procref.h_z::p dropw end");
        if let Out::Ok(..) = o {
            // obtain the root of lc::h_z::p
            let b = env.fresh();
            let ast = ModuleAst::parse(&env.texts["lc::h_z"]).unwrap();
            let roots = b
                .compile_module(
                    &ast,
                    Some(&LibraryPath::new("lx::tmp").unwrap()),
                    &mut assembly::AssemblyContext::for_module(false),
                )
                .unwrap();
            let root: [u8; 32] = roots[0].into();
            let src = format!("begin call.0x{} end", hex(&root));
            let fresh = compile(&env.fresh(), &src).0;
            let long = compile(&a, &src).0;
            if fresh.class() != long.class() {
                report.baseline_notes.push(format!(
                    "  probe P1 (history dependence, call by MAST root): source\n      {src}\n    fresh assembler: {}\n    assembler which compiled `use.lc::h_z begin procref.h_z::p dropw end` before: {}",
                    fresh.short(),
                    long.short()
                ));
            }
        }
    }

    // (P2) decorator-only spans
    for src in [
        "begin emit.1 end",
        "begin trace.1 end",
        "begin adv.push_mapval end",
        "begin push.1 if.true emit.1 end end",
        "proc.a emit.1 end begin exec.a end",
        "begin push.1 drop emit.1 if.true push.1 drop end end",
    ] {
        let out = compile(&env.fresh(), src).0;
        if let Out::Panic(_) = out {
            report
                .baseline_notes
                .push(format!("  probe P2 (panic on a source which should assemble): source\n      {src}\n    result: {}", out.short()));
        }
    }

    // (P3) a procedure whose MAST equals `procref.x` but which pushes the digest with `push`:
    // the procedure cache keeps the callset of whichever was compiled first
    {
        let b = env.fresh();
        let ast = ModuleAst::parse(&env.texts["lc::h_z"]).unwrap();
        let roots = b
            .compile_module(
                &ast,
                Some(&LibraryPath::new("lx::tmp").unwrap()),
                &mut assembly::AssemblyContext::for_module(false),
            )
            .unwrap();
        let elems: Vec<String> = roots[0].iter().map(|e| format!("{}", e)).collect();
        let m_push = format!("export.f\n    push.{}\nend\n", elems.join("."));
        let m_ref = "use.lc::h_z\nexport.g\n    procref.h_z::p\nend\n".to_string();
        let mk = |path: &str, text: &str| {
            Module::new(LibraryPath::new(path).unwrap(), ModuleAst::parse(text).unwrap())
        };
        let lib = MaslLibrary::new(
            LibraryNamespace::new("lt").unwrap(),
            Version::default(),
            false,
            vec![mk("lt::mpush", &m_push), mk("lt::mref", &m_ref)],
            vec![],
        )
        .unwrap();
        let p1 = "use.lt::mpush begin exec.mpush::f dropw end";
        let p2 = "use.lt::mref begin exec.mref::g dynexec dropw end";
        let fresh = env.fresh().with_library(&lib).unwrap();
        let (o_fresh, prog_fresh) = compile(&fresh, p2);
        let long = env.fresh().with_library(&lib).unwrap();
        let _ = compile(&long, p1);
        let (o_long, prog_long) = compile(&long, p2);
        let e_fresh = prog_fresh.map(|p| execute(&p));
        let e_long = prog_long.map(|p| execute(&p));
        if o_fresh != o_long || e_fresh != e_long {
            report.baseline_notes.push(format!(
                "  probe P3 (history dependence + missing procedure at run time): libraries\n    --- module lt::mpush ---\n{}    --- module lt::mref ---\n{}    program 1: {p1}\n    program 2: {p2}\n    program 2 on a fresh assembler        : {} / execution {:?}\n    program 2 after compiling program 1   : {} / execution {:?}",
                indent(&m_push),
                indent(&m_ref),
                o_fresh.short(),
                e_fresh,
                o_long.short(),
                e_long
            ));
        }
    }

    // (P7) malformed sources which make the parser panic instead of returning an error
    for src in [
        "export begin push.1 drop end",
        "export",
        "const.A=(1 begin push.A drop end",
        "const.A=1+ begin push.A drop end",
        "const.A=-1 begin push.A drop end",
        "const.A=1++1 begin push.A drop end",
        "const.A=)( begin push.A drop end",
    ] {
        let out = compile(&env.fresh(), src).0;
        if let Out::Panic(_) = out {
            report.baseline_notes.push(format!(
                "  probe P7 (panic instead of an error on an invalid source): source\n      {src}\n    result: {}",
                out.short()
            ));
        }
    }
    for (what, src) in [("module", "export"), ("kernel", "export")] {
        let r = if what == "module" {
            guarded(|| ModuleAst::parse(src).map(|_| ()).map_err(|e| format!("{e}")))
        } else {
            guarded(|| Assembler::default().with_kernel(src).map(|_| ()).map_err(|e| format!("{e}")))
        };
        if let Err(p) = r {
            report.baseline_notes.push(format!(
                "  probe P7 (panic instead of an error on an invalid source): {what} source\n      {src}\n    result: PANIC({})",
                one_line(&p)
            ));
        }
    }

    // (P8) constant expressions accept literals which are not valid field elements
    for src in [
        "const.A=18446744073709551615+1 begin push.A drop end",
        "const.A=18446744069414584321+0 begin push.A drop end",
    ] {
        let plain = compile(&env.fresh(), "const.A=18446744069414584321 begin push.A drop end").0;
        let out = compile(&env.fresh(), src).0;
        if let (Out::Ok(..), Out::Err(_)) = (&out, &plain) {
            report.baseline_notes.push(format!(
                "  probe P8 (out-of-range constant accepted silently): source\n      {src}\n    result: {} (while `const.A=18446744069414584321` alone is rejected)",
                out.short()
            ));
        }
    }

    // (P6) a procedure re-exported from the kernel module can be the target of a syscall although it
    // is not part of the kernel
    {
        let kernel = "use.lc::h_z\nexport.h_z::p\nexport.k\n    push.1 drop\nend\n";
        let src = "begin syscall.p end";
        if let Ok(Ok(a)) = guarded(|| env.assembler_no_kernel(&[0, 1, 2, 3]).with_kernel(kernel)) {
            let (o, program) = compile(&a, src);
            if let Some(program) = program {
                if let Err(e) = execute(&program) {
                    report.baseline_notes.push(format!(
                        "  probe P6 (syscall to a procedure which is not in the kernel is accepted, fails at run time): kernel\n{}    program: {src}\n    assembly : {}\n    execution: Err({})",
                        indent(kernel),
                        o.short(),
                        one_line(&e)
                    ));
                }
            }
        }
    }

    // (P4) `caller` in a library module which was first compiled as a dependency of the kernel
    {
        let m = "export.h\n    caller\nend\n";
        let lib = MaslLibrary::new(
            LibraryNamespace::new("lt").unwrap(),
            Version::default(),
            false,
            vec![Module::new(LibraryPath::new("lt::mc").unwrap(), ModuleAst::parse(m).unwrap())],
            vec![],
        )
        .unwrap();
        let src = "use.lt::mc begin exec.mc::h dropw end";
        let a1 = Assembler::default()
            .with_library(&lib)
            .unwrap()
            .with_kernel("export.k push.1 drop end")
            .unwrap();
        let o1 = compile(&a1, src).0;
        let a2 = guarded(|| {
            Assembler::default()
                .with_library(&lib)
                .unwrap()
                .with_kernel("use.lt::mc export.k exec.mc::h dropw end")
        });
        if let Ok(Ok(a2)) = a2 {
            let o2 = compile(&a2, src).0;
            if o1.class() != o2.class() {
                report.baseline_notes.push(format!(
                    "  probe P4 (`caller` outside a kernel accepted in one path): library module lt::mc\n{}    program: {src}\n    kernel `export.k push.1 drop end`                   : {}\n    kernel `use.lt::mc export.k exec.mc::h dropw end` : {}",
                    indent(m),
                    o1.short(),
                    o2.short()
                ));
            }
        }
    }
}
